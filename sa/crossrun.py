"""Cross product: every seeded change on top of every stored refactoring that touches one of the same files (analysed statically, never run).
   python -m sa.crossrun [--out DIR]
A normalisation that makes a refactoring silent could just as well hide a defect inside the refactored code.  For every pair
(refactoring r, seeded change s) whose patches both apply to one copy of the tree (r then s, or s then r) the check of the property that
s was written to break must still report a violation.  Writes <out>/CROSS.json and prints the pairs that were not reported (to be read:
a refactoring can move the seeded edit into code where it no longer breaks anything)."""
import ast, json, os, shutil, subprocess, sys, tempfile
from concurrent.futures import ProcessPoolExecutor

VERIF = os.path.dirname(os.path.dirname(os.path.abspath(__file__)))
from .model import REPO


def _touched(patch):
    import re
    return sorted(set(re.findall(r"^\+\+\+ b/(\S+)", open(patch).read(), re.M)))


def _apply(d, patch):
    r = subprocess.run(["patch", "-p1", "-s", "--no-backup-if-mismatch", "-F", "1", "-i", patch], cwd=d, capture_output=True, text=True)
    return r.returncode == 0


def _fresh():
    d = tempfile.mkdtemp(prefix="sa-cross-")
    from .variant import copy_tree
    copy_tree(REPO, d)
    return d


def one(job):
    sid, spatch, owner, rid, rpatch = job
    d = None
    for order in ((rpatch, spatch), (spatch, rpatch)):
        d = _fresh()
        if _apply(d, order[0]) and _apply(d, order[1]):
            break
        shutil.rmtree(d, ignore_errors=True)
        d = None
    if d is None:
        return sid, rid, {"status": "skipped", "why": "patches do not apply together"}
    try:
        for f in set(_touched(spatch)) | set(_touched(rpatch)):
            p = os.path.join(d, f)
            if p.endswith(".py") and os.path.exists(p):
                try:
                    ast.parse(open(p).read())
                except SyntaxError:
                    return sid, rid, {"status": "skipped", "why": "combination does not parse"}
        r = subprocess.run(["/venv/bin/python", "-m", "sa.check", owner, "--repo", d], cwd=VERIF, capture_output=True, text=True, env={**os.environ, "SA_OUT": d})
        rules = sorted({l.split()[0] for l in r.stdout.splitlines() if l.startswith("  C") and "#" in l.split()[0]})
        tail = [l for l in r.stdout.splitlines() if l.startswith("ANALYSIS-ERROR")][:1]
        return sid, rid, {"status": "ran", "rc": r.returncode, "rules": rules, "tail": tail}
    finally:
        shutil.rmtree(d, ignore_errors=True)


def one_pair(job):
    """two refactorings at once: every check that has one of the touched files among its anchors must stay silent"""
    aid, apatch, bid, bpatch, props = job
    d = _fresh()
    try:
        if not (_apply(d, apatch) and _apply(d, bpatch)):
            return aid, bid, {"status": "skipped", "why": "patches do not apply together"}
        for f in set(_touched(apatch)) | set(_touched(bpatch)):
            p = os.path.join(d, f)
            if p.endswith(".py") and os.path.exists(p):
                try:
                    ast.parse(open(p).read())
                except SyntaxError:
                    return aid, bid, {"status": "skipped", "why": "combination does not parse"}
        alarms = {}
        for prop in props:
            r = subprocess.run(["/venv/bin/python", "-m", "sa.check", prop, "--repo", d], cwd=VERIF, capture_output=True, text=True, env={**os.environ, "SA_OUT": d})
            if r.returncode != 0:
                rules = sorted({l.split()[0] for l in r.stdout.splitlines() if l.startswith("  C") and "#" in l.split()[0]})
                alarms[prop] = {"rc": r.returncode, "rules": rules, "tail": [l for l in r.stdout.splitlines() if l.startswith("ANALYSIS-ERROR")][:1]}
        return aid, bid, {"status": "ran", "alarms": alarms, "checks": len(props)}
    finally:
        shutil.rmtree(d, ignore_errors=True)


def main_refs():
    rd = os.path.join(VERIF, "refactors")
    props = {json.loads(l)["id"]: json.loads(l) for l in open(os.path.join(VERIF, "properties.jsonl"))}
    refs = []
    for r in sorted(os.listdir(rd)):
        pp = os.path.join(rd, r, "patch.diff")
        if os.path.exists(pp):
            refs.append((r, pp, set(_touched(pp))))
    jobs = []
    for i, (a, ap, at) in enumerate(refs):
        for b, bp, bt in refs[i + 1:]:
            if at & bt:
                ps = sorted(p for p, v in props.items() if set(v["anchors"]["files"]) & (at | bt))
                jobs.append((a, ap, b, bp, ps))
    print(f"{len(jobs)} pairs of refactorings share a file", flush=True)
    res = {}
    bad = 0
    with ProcessPoolExecutor(max_workers=16) as ex:
        for a, b, v in ex.map(one_pair, jobs, chunksize=2):
            res[f"{a}+{b}"] = v
            if v["status"] == "ran" and v["alarms"]:
                bad += 1
                print(f"ALARM  {a}+{b}: " + "; ".join(f"{p} rc={x['rc']} {x['rules']} {x['tail']}" for p, x in v["alarms"].items()), flush=True)
    ran = sum(1 for v in res.values() if v["status"] == "ran")
    print(f"{ran} pairs analysed ({len(res) - ran} do not apply together), {sum(v.get('checks', 0) for v in res.values() if v['status'] == 'ran')} check runs, {bad} pairs with an alarm")
    json.dump({"pairs": len(res), "analysed": ran, "pairs_with_alarm": sorted(k for k, v in res.items() if v["status"] == "ran" and v["alarms"]),
               "silent_pairs": sorted(k for k, v in res.items() if v["status"] == "ran" and not v["alarms"])},
              open(os.path.join(rd, "PAIRS.json"), "w"), indent=1, sort_keys=True)
    return 1 if bad else 0


def main():
    if "--refs" in sys.argv:
        return main_refs()
    out_dir = sys.argv[sys.argv.index("--out") + 1] if "--out" in sys.argv else os.path.join(VERIF, "seeded")
    seeds, refs = [], []
    sd, rd = os.path.join(VERIF, "seeded"), os.path.join(VERIF, "refactors")
    for s in sorted(os.listdir(sd)):
        pp = os.path.join(sd, s, "patch.diff")
        if os.path.exists(pp):
            meta = json.load(open(os.path.join(sd, s, "meta.json")))
            seeds.append((s, pp, meta.get("clause_owner") or meta.get("breaks_property") or s.split("-")[0], set(_touched(pp))))
    for r in sorted(os.listdir(rd)):
        pp = os.path.join(rd, r, "patch.diff")
        if os.path.exists(pp):
            refs.append((r, pp, set(_touched(pp))))
    jobs = [(s, sp, owner, r, rp) for s, sp, owner, st in seeds for r, rp, rt in refs if st & rt]
    only = os.environ.get("SA_CROSS_ONLY")          # development aid: only pairs in which the change or the refactoring has one of these id suffixes, e.g. "-19,-20"
    if only:
        suf = tuple(only.split(","))
        jobs = [j for j in jobs if j[0].endswith(suf) or j[3].endswith(suf)]
    print(f"{len(jobs)} pairs share a file", flush=True)
    res = {}
    miss = []
    with ProcessPoolExecutor(max_workers=16) as ex:
        for sid, rid, v in ex.map(one, jobs, chunksize=4):
            res[f"{sid}+{rid}"] = v
            if v["status"] == "ran" and v["rc"] != 1:
                miss.append((sid, rid, v))
                print(f"NOT REPORTED  {sid} on {rid}: rc={v['rc']} {v.get('tail')}", flush=True)
    ran = sum(1 for v in res.values() if v["status"] == "ran")
    rep = sum(1 for v in res.values() if v["status"] == "ran" and v["rc"] == 1)
    print(f"{ran} combinations analysed ({len(res) - ran} pairs do not apply together), {rep} reported, {len(miss)} not reported")
    json.dump({"pairs": len(res), "analysed": ran, "reported": rep, "not_reported": [f"{s}+{r}" for s, r, _ in miss],
               "reported_pairs": sorted(k for k, v in res.items() if v["status"] == "ran" and v["rc"] == 1)},
              open(os.path.join(out_dir, "CROSS.json"), "w"), indent=1, sort_keys=True)
    return 0


if __name__ == "__main__":
    sys.exit(main())
