"""Static analyser for the eudoxia properties C01-C20 (pure stdlib, runs under /venv/bin/python 3.12)."""
