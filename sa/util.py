"""Shared analyses: A4 single-definition environments, K1 writer inventory, call location, helper look-through."""
from __future__ import annotations

import ast
from typing import Callable, Dict, Iterable, Iterator, List, Optional, Set, Tuple

from . import norm
from .cfg import CFG, MUTATORS
from .model import Func, Program, own_nodes, parent, ancestors, AnalysisError, stmt_text, same_fn

_CFG_CACHE: Dict = {}


def cfg_of(f: Func, subst_env: bool = True) -> CFG:
    k = (id(f.node), subst_env)
    hit = _CFG_CACHE.get(k)
    if hit is None or hit[0] is not f.node:      # ids are reused once a program is freed: keep the node alive and compare identity
        hit = (f.node, CFG(f.node, single_defs(f) if subst_env else None))
        _CFG_CACHE[k] = hit
    return hit[1]


def single_defs(f: Func) -> Dict[str, ast.expr]:
    """Locals bound exactly once by `name = <expr>` (A4) whose defining expression reads only stable names."""
    binds: Dict[str, int] = {}
    defs: Dict[str, ast.expr] = {}
    params = set(f.params()) if not isinstance(f.node, ast.Lambda) else set()
    a = f.node.args
    if a.vararg:
        params.add(a.vararg.arg)
    if a.kwarg:
        params.add(a.kwarg.arg)

    rebinds: Dict[str, List[ast.AST]] = {}
    cur_stmt: List[ast.AST] = [f.node]

    def bind(t, val=None):
        if isinstance(t, ast.Name):
            rebinds.setdefault(t.id, []).append(cur_stmt[0])
            binds[t.id] = binds.get(t.id, 0) + 1
            if val is not None:
                defs[t.id] = val
            else:
                defs.pop(t.id, None)
                binds[t.id] += 1  # force "not single"
        elif isinstance(t, (ast.Tuple, ast.List)):
            for e in t.elts:
                bind(e)
        elif isinstance(t, ast.Starred):
            bind(t.value)

    for n in own_nodes(f.node):
        cur_stmt[0] = n
        if isinstance(n, ast.Assign):
            for t in n.targets:
                bind(t, n.value if len(n.targets) == 1 else None)
        elif isinstance(n, ast.AnnAssign):
            if n.value is not None:
                bind(n.target, n.value)
        elif isinstance(n, ast.AugAssign):
            bind(n.target)
        elif isinstance(n, (ast.For, ast.AsyncFor)):
            bind(n.target)
        elif isinstance(n, ast.comprehension):
            pass  # comprehension scopes are separate
        elif isinstance(n, (ast.With, ast.AsyncWith)):
            for it in n.items:
                if it.optional_vars is not None:
                    bind(it.optional_vars)
        elif isinstance(n, ast.NamedExpr):
            bind(n.target)
        elif isinstance(n, ast.ExceptHandler) and n.name:
            binds[n.name] = binds.get(n.name, 0) + 2
        elif isinstance(n, (ast.Global, ast.Nonlocal)):
            for nm in n.names:
                binds[nm] = binds.get(nm, 0) + 2
    mutated: Set[str] = set()
    for n in own_nodes(f.node):
        if isinstance(n, (ast.Assign, ast.AugAssign, ast.Delete)):
            for t in (n.targets if isinstance(n, (ast.Assign, ast.Delete)) else [n.target]):
                for x in ast.walk(t):
                    if isinstance(x, ast.Subscript) and isinstance(x.value, ast.Name):
                        mutated.add(x.value.id)
        if isinstance(n, ast.Call) and isinstance(n.func, ast.Attribute) and n.func.attr in MUTATORS:
            r = n.func.value
            while isinstance(r, (ast.Subscript, ast.Attribute)):
                r = r.value
            if isinstance(r, ast.Name):
                mutated.add(r.id)
    subscripted = {x.value.id for x in own_nodes(f.node) if isinstance(x, ast.Subscript) and isinstance(x.value, ast.Name)}
    env = {}
    for name, e in defs.items():
        if name in mutated:
            continue  # a container that is filled later is not its initialiser
        if binds.get(name) == 1 and name not in params:
            # no self reference; no calls with side effects assumed pure readers
            if name in norm.names_in(e):
                continue
            if any(isinstance(x, (ast.Yield, ast.YieldFrom, ast.Await, ast.Lambda, ast.NamedExpr)) for x in ast.walk(e)):
                continue
            if any(isinstance(x, ast.Call) and not _pure_call(x) for x in ast.walk(e)):
                continue  # substituting a side-effecting call (queue.pop(0), rng.normal(..)) would change its meaning
            if not _operands_stable(f, name, e, rebinds):
                continue  # an operand is re-bound between the definition and a use: the name and its defining expression differ there
            if isinstance(e, ast.Call) and isinstance(e.func, ast.Name) and not e.func.id[:1].isupper() and e.func.id not in _PURE_FUNCS and name in subscripted:
                continue  # `params = load(..)` … `params["k"]`: the result of a function call that is then indexed is an object the rules know by its name
            env[name] = e
    return env


def source_order(root: ast.AST) -> Dict[int, Tuple[int, int]]:
    """id(node) -> (start, end) in a depth-first numbering of root in execution-text order.  Unlike line numbers this is meaningful in a
    function into which helpers were inlined (their statements keep the line numbers of the helper's own definition)."""
    cached = getattr(root, "_order", None)
    if cached is not None:
        return cached
    out: Dict[int, Tuple[int, int]] = {}
    k = [0]

    def visit(n):
        k[0] += 1
        s0 = k[0]
        for ch in ast.iter_child_nodes(n):
            visit(ch)
        k[0] += 1
        out[id(n)] = (s0, k[0])
    visit(root)
    try:
        root._order = out  # type: ignore[attr-defined]
    except Exception:
        pass
    return out


def _loops_around(n: ast.AST, root: ast.AST) -> List[ast.AST]:
    out = []
    p_ = parent(n)
    while p_ is not None and p_ is not root:
        if isinstance(p_, (ast.For, ast.While, ast.AsyncFor)):
            out.append(p_)
        p_ = parent(p_)
    return out


def _operands_stable(f: Func, name: str, e: ast.expr, rebinds: Dict[str, List[ast.AST]]) -> bool:
    """`name = e` may stand for e at every use of name: no local read by e is bound again on a way from the definition to a use.
    Decided by position: a re-binding r of an operand is harmless if it lies before the definition in the source (the
    definition runs again after it in every iteration that reaches a use) or if no use lies after r / in a loop with r."""
    ops = {x.id for x in ast.walk(e) if isinstance(x, ast.Name)} & set(rebinds)
    if not ops:
        return True
    d = None
    uses = []
    for n in own_nodes(f.node):
        if isinstance(n, ast.Assign) and len(n.targets) == 1 and norm.is_name(n.targets[0], name):
            d = n
        elif isinstance(n, ast.AnnAssign) and norm.is_name(n.target, name):
            d = n
        elif isinstance(n, ast.Name) and n.id == name and isinstance(n.ctx, ast.Load):
            uses.append(n)
    if d is None:
        return False
    dl = _loops_around(d, f.node)
    order = source_order(f.node)

    def before(a, b) -> bool:
        """a starts before b in the text of the function (or a is b)"""
        return order.get(id(a), (0, 0))[0] <= order.get(id(b), (0, 0))[0]

    def after_binding(u, r) -> bool:
        """the use u comes after the point where r binds: after the whole statement, or — for a loop header — anywhere after its start"""
        ou, orr = order.get(id(u), (0, 0)), order.get(id(r), (0, 0))
        return ou[0] > orr[0] if isinstance(r, (ast.For, ast.AsyncFor, ast.While)) else ou[0] > orr[1]
    for v in ops:
        for r in rebinds[v]:
            if isinstance(r, (ast.For, ast.AsyncFor)) and any(r is l_ for l_ in dl):
                continue   # the loop variable of a loop around the definition: bound at the header, before the definition, in every iteration
            if before(r, d) and not isinstance(r, (ast.For, ast.AsyncFor, ast.While)):
                # textually before the definition; harmless if it shares all loops with the definition (the definition re-runs after it)
                rl = _loops_around(r, f.node)
                if all(any(a is b for b in dl) for a in rl):
                    continue
            rl = [r] + _loops_around(r, f.node) if isinstance(r, (ast.For, ast.AsyncFor)) else _loops_around(r, f.node)
            shared_extra = [l_ for l_ in rl if not any(l_ is x for x in dl)]   # loops around r that do not contain the definition
            for u in uses:
                if after_binding(u, r) and not before(r, d):
                    return False
                ul = _loops_around(u, f.node)
                if any(any(l_ is x for x in ul) for l_ in shared_extra):
                    return False
    return True


_PURE_FUNCS = {"len", "sum", "all", "any", "str", "list", "tuple", "isinstance", "max", "min", "int", "float", "bool", "sorted",
               "enumerate", "range", "zip", "repr", "abs", "round", "set", "frozenset", "dict", "floor", "ceil", "sqrt", "log", "power",
               "Path", "array", "iter", "defaultdict"}


def _pure_call(c: ast.Call) -> bool:
    from . import cfg as _cfg
    n = norm.call_name(c)
    if n in _cfg.PURE_METHODS or n in _PURE_FUNCS or n in ("mean", "percentile"):
        return True
    if n in _cfg.MOD_ATTRS and not _cfg.MOD_ATTRS[n] and n not in ("pop", "next"):
        return True   # a package function that stores to no attribute (transitively): re-evaluating it changes nothing
    if isinstance(c.func, ast.Attribute) and n in ("get", "keys", "values", "items", "copy", "strip", "split", "format", "join", "exists", "resolve", "index", "count"):
        return True
    if isinstance(c.func, ast.Name) and n in ("Priority", "Fraction", "Decimal", "RetryStats", "WaitingQueueJob", "PipelineStats", "CSVOperatorRow", "PipelineArrival"):
        return True   # constructor of a value object (objects with identity, e.g. Executor(...), are never substituted)
    return False


# -- K1: who writes a field ----------------------------------------------------------------------------

class Write:
    def __init__(self, fn: Func, node: ast.AST, how: str, target: ast.expr):
        self.fn, self.node, self.how, self.target = fn, node, how, target

    def __repr__(self):
        return f"{self.fn.mod.rel}::{self.fn.qual}:{self.fn.mod.line(self.node)} {self.how} {norm.U(self.target)}"


def _module_level_func(m) -> Func:
    return Func(m, "<module>", m.tree, None)


_AW_CACHE: Dict = {}
_SCOPE_NODES: Dict = {}


def attr_writes(P: Program, attr: str, include_mutation: bool = True, include_template: bool = True) -> List[Write]:
    k = (id(P), attr, include_mutation, include_template)
    hit = _AW_CACHE.get(k)
    if hit is None or hit[0] is not P:
        hit = (P, _attr_writes(P, attr, include_mutation, include_template))
        _AW_CACHE[k] = hit
    return list(hit[1])


def _attr_writes(P: Program, attr: str, include_mutation: bool = True, include_template: bool = True) -> List[Write]:
    """Every site in the package that stores to `<anything>.attr` (Assign/AugAssign/AnnAssign/Delete, subscript stores
    `x.attr[k] = v`, `del x.attr[k]`, and — if include_mutation — mutating method calls `x.attr.append(..)`).
    setattr/__dict__ writes are reported with how='dynamic'."""
    out: List[Write] = []
    for m in P.modules.values():
        if m.virtual and not include_template:
            continue
        scopes: List[Func] = view_funcs(P, m) + [_module_level_func(m)]
        for f in scopes:
            sk = id(f.node)
            ch = _SCOPE_NODES.get(sk)
            if ch is None or ch[0] is not f.node:
                ch = (f.node, list(own_nodes(f.node)) if f.qual != "<module>" else list(_module_nodes(m)))
                _SCOPE_NODES[sk] = ch
            it = ch[1]
            if not any(isinstance(n, ast.Attribute) and n.attr in (attr, "__dict__") for n in it) and not any(isinstance(n, ast.Constant) and n.value == attr for n in it) \
                    and not any(isinstance(n, ast.Call) and norm.call_name(n) == "setattr" for n in it):
                continue     # the field is not mentioned in this scope at all (and nothing is stored dynamically there)
            # local aliases of the field:  x = <obj>.attr   (then x[k] = v / x.append(..) write the field)
            aliases = {n.targets[0].id for n in it if isinstance(n, ast.Assign) and len(n.targets) == 1 and isinstance(n.targets[0], ast.Name)
                       and isinstance(n.value, ast.Attribute) and n.value.attr == attr}
            # for x in (obj.a, obj.b): x.remove(..)   — the loop variable stands for each of the listed fields in turn
            aliases |= {n.target.id for n in it if isinstance(n, (ast.For, ast.AsyncFor)) and isinstance(n.target, ast.Name) and isinstance(n.iter, (ast.Tuple, ast.List))
                        and any(isinstance(e, ast.Attribute) and e.attr == attr for e in n.iter.elts)}
            for n in it:
                if aliases:
                    if isinstance(n, (ast.Assign, ast.AugAssign, ast.Delete)):
                        for t in (n.targets if isinstance(n, (ast.Assign, ast.Delete)) else [n.target]):
                            if isinstance(t, ast.Subscript) and isinstance(t.value, ast.Name) and t.value.id in aliases:
                                out.append(Write(f, n, "item-via-alias", t.value))
                    if include_mutation and isinstance(n, ast.Call) and isinstance(n.func, ast.Attribute) and n.func.attr in MUTATORS \
                            and isinstance(n.func.value, ast.Name) and n.func.value.id in aliases:
                        out.append(Write(f, n, "mutate-via-alias:" + n.func.attr, n.func.value))
                tg: List[Tuple[ast.expr, str]] = []
                if isinstance(n, ast.Assign):
                    for t in n.targets:
                        for tt in _flatten(t):
                            tg.append((tt, "assign"))
                elif isinstance(n, ast.AugAssign):
                    tg.append((n.target, "augassign"))
                elif isinstance(n, ast.AnnAssign):
                    tg.append((n.target, "assign" if n.value is not None else "annotate"))
                elif isinstance(n, ast.Delete):
                    for t in n.targets:
                        tg.append((t, "delete"))
                elif isinstance(n, (ast.For, ast.AsyncFor)):
                    for tt in _flatten(n.target):
                        tg.append((tt, "assign"))
                elif isinstance(n, ast.Call):
                    cn = norm.call_name(n)
                    if cn == "setattr" and len(n.args) >= 2:
                        a1 = n.args[1]
                        if not (isinstance(a1, ast.Constant) and a1.value != attr):
                            out.append(Write(f, n, "dynamic", n))
                    if include_mutation and isinstance(n.func, ast.Attribute) and n.func.attr in MUTATORS:
                        r = n.func.value
                        if isinstance(r, ast.Attribute) and r.attr == attr:
                            out.append(Write(f, n, "mutate:" + n.func.attr, r))
                for t, how in tg:
                    if isinstance(t, ast.Attribute) and t.attr == attr:
                        if how == "annotate":
                            continue
                        out.append(Write(f, n, how, t))
                    elif isinstance(t, ast.Subscript):
                        b = t.value
                        if isinstance(b, ast.Attribute) and b.attr == attr:
                            out.append(Write(f, n, "item-" + how, b))
                        if isinstance(b, ast.Attribute) and b.attr == "__dict__":
                            out.append(Write(f, n, "dynamic", t))
    return out


def _module_nodes(m) -> Iterator[ast.AST]:
    stack = list(m.tree.body)
    while stack:
        n = stack.pop()
        yield n
        if isinstance(n, (ast.FunctionDef, ast.AsyncFunctionDef)):
            continue
        if isinstance(n, ast.ClassDef):
            # class-level statements belong to the module scope for our purposes
            stack.extend(n.body)
            continue
        stack.extend(ast.iter_child_nodes(n))


def _flatten(t: ast.expr) -> Iterator[ast.expr]:
    if isinstance(t, (ast.Tuple, ast.List)):
        for e in t.elts:
            yield from _flatten(e)
    elif isinstance(t, ast.Starred):
        yield from _flatten(t.value)
    else:
        yield t


def writer_funcs(ws: Iterable[Write]) -> Set[str]:
    return {f"{w.fn.mod.rel}::{w.fn.qual}" for w in ws}


# -- calls ---------------------------------------------------------------------------------------------

def calls_named(f: Func, name: str) -> List[ast.Call]:
    out = [n for n in own_nodes(f.node) if isinstance(n, ast.Call) and norm.call_name(n) == name]
    out.sort(key=lambda n: (n.lineno, n.col_offset))
    return out


def package_calls(P: Program, name: str, include_template: bool = True) -> List[Tuple[Func, ast.Call]]:
    out = []
    for m in P.modules.values():
        if m.virtual and not include_template:
            continue
        for f in view_funcs(P, m) + [_module_level_func(m)]:
            it = own_nodes(f.node) if f.qual != "<module>" else _module_nodes(m)
            for n in it:
                if isinstance(n, ast.Call) and norm.call_name(n) == name:
                    out.append((f, n))
    return out


def resolve_callee(P: Program, f: Func, c: ast.Call) -> List[Func]:
    """Light callee resolution: self.m() -> method of the same class; bare name -> function in the same module or
    imported by name from a package module; x.m() -> every method named m in the package (CHA by name)."""
    fn = c.func
    if isinstance(fn, ast.Name):
        m = f.mod
        if fn.id in m.funcs:
            return [m.funcs[fn.id]]
        # nested function of the enclosing function
        q = f.qual + "." + fn.id
        if q in m.funcs:
            return [m.funcs[q]]
        hits = []
        for st in m.tree.body:
            if isinstance(st, ast.ImportFrom):
                for al in st.names:
                    if (al.asname or al.name) == fn.id:
                        for mm in P.real_modules():
                            if al.name in mm.funcs:
                                hits.append(mm.funcs[al.name])
                            if al.name in mm.classes and "__init__" in mm.classes[al.name].methods:
                                hits.append(mm.classes[al.name].methods["__init__"])
        if not hits:
            for mm in P.real_modules():
                if fn.id in mm.classes and "__init__" in mm.classes[fn.id].methods and (mm is m or _imports_name(m, fn.id)):
                    hits.append(mm.classes[fn.id].methods["__init__"])
        return hits
    if isinstance(fn, ast.Attribute):
        if isinstance(fn.value, ast.Name) and fn.value.id == "self" and f.cls:
            c_ = f.mod.classes.get(f.cls)
            if c_ and fn.attr in c_.methods:
                return [c_.methods[fn.attr]]
        hits = []
        for mm in P.real_modules():
            for cl in mm.classes.values():
                if fn.attr in cl.methods:
                    hits.append(cl.methods[fn.attr])
        # module attribute call  mod.func(...)
        if not hits and isinstance(fn.value, ast.Name):
            for mm in P.real_modules():
                if fn.attr in mm.funcs and mm.rel.endswith("/" + fn.value.id + ".py"):
                    hits.append(mm.funcs[fn.attr])
        return hits
    return []


def _imports_name(m, name: str) -> bool:
    for st in ast.walk(m.tree):
        if isinstance(st, ast.ImportFrom):
            for al in st.names:
                if (al.asname or al.name) == name or al.name == "*":
                    return True
    return False


def reachable_funcs(P: Program, roots: List[Func], extra_edges: Optional[Callable[[Func], List[Func]]] = None,
                    limit: int = 2000) -> List[Func]:
    seen: Dict[int, Func] = {}
    work = list(roots)
    while work and len(seen) < limit:
        f = work.pop()
        if id(f.node) in seen:
            continue
        seen[id(f.node)] = f
        for c in own_nodes(f.node):
            if isinstance(c, ast.Call):
                for g in resolve_callee(P, f, c):
                    if id(g.node) not in seen:
                        work.append(g)
        # nested functions/lambdas defined inside are considered called
        for q, g in f.mod.funcs.items():
            if q.startswith(f.qual + ".") and id(g.node) not in seen:
                work.append(g)
        if extra_edges:
            for g in extra_edges(f):
                if id(g.node) not in seen:
                    work.append(g)
    return list(seen.values())


# -- helper look-through (must-summaries) ----------------------------------------------------------------

def must_execute(P: Program, f: Func, pred: Callable[[Func, ast.AST], bool], depth: int = 3,
                 _seen: Optional[Set[int]] = None) -> bool:
    """True if every normal path through f executes a node satisfying pred (directly or in a same-package helper that
    must-executes it, up to `depth` calls deep)."""
    _seen = _seen or set()
    if id(f.node) in _seen:
        return False
    _seen = _seen | {id(f.node)}
    g = cfg_of(f)
    hit: Set[int] = set()
    for n in g.nodes:
        if n.ast is None:
            continue
        tops = _node_exprs(n)
        for top in tops:
            for x in [top] + list(own_nodes(top)):
                if pred(f, x):
                    hit.add(n.id)
                elif depth > 0 and isinstance(x, ast.Call):
                    for callee in resolve_callee(P, f, x):
                        if callee.mod.rel.startswith("eudoxia") and must_execute(P, callee, pred, depth - 1, _seen):
                            hit.add(n.id)
    if not hit:
        return False
    return g.path_avoiding(g.entry.id, {g.exit.id}, hit) is None


def _node_exprs(n) -> List[ast.AST]:
    a = n.ast
    if n.kind == "test":
        return [a.test]
    if n.kind == "for":
        return [a.iter]
    if n.kind == "assert":
        return [a.test]
    if n.kind == "with":
        return [it.context_expr for it in a.items]
    if isinstance(a, (ast.FunctionDef, ast.AsyncFunctionDef, ast.ClassDef, ast.ExceptHandler)):
        return []
    return [a]


def stmts_matching(f: Func, pred: Callable[[ast.AST], bool]) -> List[ast.AST]:
    out = [n for n in own_nodes(f.node) if pred(n)]
    out.sort(key=lambda n: (getattr(n, "lineno", 0), getattr(n, "col_offset", 0)))
    return out


def enclosing_loops(n: ast.AST, stop: ast.AST) -> List[ast.AST]:
    out = []
    for a in ancestors(n):
        if a is stop:
            break
        if isinstance(a, (ast.For, ast.While, ast.AsyncFor)):
            out.append(a)
    return out


def in_body(n: ast.AST, holder: ast.AST, fieldname: str = "body") -> bool:
    """Is n inside holder.<fieldname> (transitively)?"""
    cur = n
    while cur is not None and parent(cur) is not holder:
        cur = parent(cur)
    if cur is None:
        return False
    return any(cur is s for s in getattr(holder, fieldname, []))


_WOF_CACHE: Dict = {}


def write_once_fields(P: Program, rel: str, cls: str, selfname: str = "self") -> Dict[str, ast.expr]:
    k = (id(P), rel, cls, selfname)
    hit = _WOF_CACHE.get(k)
    if hit is None or hit[0] is not P:
        hit = (P, _write_once_fields(P, rel, cls, selfname))
        _WOF_CACHE[k] = hit
    return dict(hit[1])


def _write_once_fields(P: Program, rel: str, cls: str, selfname: str = "self") -> Dict[str, ast.expr]:
    """A4: fields of `cls` whose only stores in the whole package are single plain assignments in __init__.
    Returns {'self.<field>': defining expression} (in terms of the constructor's parameters and other fields)."""
    c = P.cls(rel, cls)
    init = c.methods.get("__init__")
    if init is None:
        return {}
    init = inline_helpers(P, init)     # as the rules see it (helpers, one-expression functions and named literals written out)
    cand: Dict[str, List[ast.expr]] = {}
    for n in own_nodes(init.node):
        if isinstance(n, (ast.Assign, ast.AnnAssign)):
            tg = n.targets if isinstance(n, ast.Assign) else [n.target]
            if len(tg) == 1 and isinstance(tg[0], ast.Attribute) and norm.is_name(tg[0].value, selfname) and n.value is not None:
                cand.setdefault(tg[0].attr, []).append(n.value)
    out = {}
    for attr, vals in cand.items():
        if len(vals) != 1:
            continue
        ws = []
        for w in attr_writes(P, attr):
            if same_fn(w.fn, init):
                continue
            recv = w.target.value if isinstance(w.target, ast.Attribute) else None
            if isinstance(recv, ast.Name) and recv.id == selfname and w.fn.cls and w.fn.cls != cls:
                continue  # another class's own field of the same name
            # same class outside __init__, or a receiver of unknown type: counts as a writer (conservative)
            ws.append(w)
        if ws:
            continue
        out[f"{selfname}.{attr}"] = vals[0]
    return out


def inline_simple_calls(P: Program, e: ast.expr, depth: int = 3) -> ast.expr:
    """Replace calls  X.m(a1..)  of package methods whose body is a single `return <expr>` (docstring allowed) by that
    expression with self -> X and parameters -> arguments.  Methods defined under several classes are inlined only if
    all definitions are textually identical."""
    import copy

    class T(ast.NodeTransformer):
        def visit_Call(self, c: ast.Call):
            c = self.generic_visit(c)
            if isinstance(c.func, ast.Name) and not c.keywords:
                # a module-level function the pinned tree does not have (or a private one), defined once in the package: `disk_scan_seconds(gb)` -> gb / RATE
                meths, funcs = _new_public_defs(P)
                cand = funcs.get(c.func.id, [])
                if len(cand) != 1:
                    return c
                d = cand[0]
                body = [s for s in d.node.body if not (isinstance(s, ast.Expr) and isinstance(s.value, ast.Constant)) and not isinstance(s, ast.Pass)]
                if len(body) != 1 or not isinstance(body[0], ast.Return) or body[0].value is None or len(d.params()) != len(c.args) or d.node.args.vararg or d.node.args.kwarg:
                    return c
                if any(isinstance(x, ast.Name) and x.id not in d.params() and isinstance(x.ctx, ast.Load) and not x.id[:1].isupper() and x.id not in _PURE_FUNCS
                       for x in ast.walk(body[0].value)):
                    return c          # reads module state other than constants: stays a call
                return norm.Subst(dict(zip(d.params(), c.args))).visit(norm.clone(body[0].value))
            if not isinstance(c.func, ast.Attribute) or c.keywords:
                return c
            name = c.func.attr
            defs = [cl.methods[name] for m in P.real_modules() for cl in m.classes.values() if name in cl.methods]
            if not defs or len({ast.dump(d.node) for d in defs}) != 1:
                return c
            d = defs[0]
            if any(isinstance(x, ast.Name) and x.id == "property" for x in d.decorators()):
                return c
            body = [s for s in d.node.body if not (isinstance(s, ast.Expr) and isinstance(s.value, ast.Constant)) and not isinstance(s, ast.Pass)]
            # straight-line body:  (name = expr)*  return expr
            if not body or not isinstance(body[-1], ast.Return) or body[-1].value is None:
                return c
            loc = {}
            for st in body[:-1]:
                if isinstance(st, ast.Assign) and len(st.targets) == 1 and isinstance(st.targets[0], ast.Name) and st.targets[0].id not in loc:
                    loc[st.targets[0].id] = norm.subst(st.value, loc)
                else:
                    return c
            params = d.params()
            if len(params) != len(c.args) + 1:
                return c
            env = {params[0]: c.func.value}
            for p_, a in zip(params[1:], c.args):
                env[p_] = a
            return norm.Subst(env).visit(norm.clone(norm.subst(body[-1].value, loc)))

    out = norm.clone(e)
    for _ in range(depth):
        new = T().visit(norm.clone(out))
        if ast.dump(new) == ast.dump(out):
            break
        out = new
    return out


def inline_properties(P: Program, e: ast.expr, rel: str, cls: str, selfname: str = "self") -> ast.expr:
    """self.<prop> -> body of the @property (single return)."""
    import copy
    c = P.cls(rel, cls)
    env = {}
    for name, m in c.methods.items():
        if any(isinstance(x, ast.Name) and x.id == "property" for x in m.decorators()):
            body = [s for s in m.node.body if not (isinstance(s, ast.Expr) and isinstance(s.value, ast.Constant)) and not isinstance(s, ast.Pass)]
            if len(body) == 1 and isinstance(body[0], ast.Return) and body[0].value is not None:
                env[f"{selfname}.{name}"] = norm.Subst({"self": ast.Name(selfname, ast.Load())}).visit(norm.clone(body[0].value))
    return norm.subst(e, env)


def loop_env(lp: Optional[ast.AST]) -> Dict[str, ast.expr]:
    """Per-iteration temporaries: names assigned exactly once (plain `name = expr`) inside the loop, whose right-hand side has
    no side-effecting call and which are not containers filled later (subscript stores / mutator calls on them)."""
    if lp is None:
        return {}
    cnt: Dict[str, int] = {}
    env: Dict[str, ast.expr] = {}
    mutated: Set[str] = set()
    for n in ast.walk(lp):
        if isinstance(n, ast.Assign) and len(n.targets) == 1 and isinstance(n.targets[0], ast.Name):
            cnt[n.targets[0].id] = cnt.get(n.targets[0].id, 0) + 1
            env[n.targets[0].id] = n.value
        elif isinstance(n, ast.AugAssign) and isinstance(n.target, ast.Name):
            cnt[n.target.id] = cnt.get(n.target.id, 0) + 2
        elif isinstance(n, (ast.For, ast.comprehension)) and n is not lp:
            for x in ast.walk(n.target):
                if isinstance(x, ast.Name):
                    cnt[x.id] = cnt.get(x.id, 0) + 2
        if isinstance(n, (ast.Assign, ast.AugAssign, ast.Delete)):
            for t in (n.targets if isinstance(n, (ast.Assign, ast.Delete)) else [n.target]):
                for x in ast.walk(t):
                    if isinstance(x, ast.Subscript):
                        r = x.value
                        while isinstance(r, (ast.Subscript, ast.Attribute)):
                            r = r.value
                        if isinstance(r, ast.Name):
                            mutated.add(r.id)
        if isinstance(n, ast.Call) and isinstance(n.func, ast.Attribute) and n.func.attr in MUTATORS:
            r = n.func.value
            while isinstance(r, (ast.Subscript, ast.Attribute)):
                r = r.value
            if isinstance(r, ast.Name):
                mutated.add(r.id)
    out = {k: v for k, v in env.items() if cnt[k] == 1 and k not in mutated
           and not any(isinstance(x, ast.Call) and not _pure_call(x) for x in ast.walk(v))}
    # operand stability inside the iteration: `failures = [r for r in results if ..]` does not stand for its defining expression after
    # `results = executor.run_one_tick(..)` has re-bound the operand (the definition runs again only in the next iteration)
    binds: Dict[str, List[ast.AST]] = {}
    defs: Dict[str, ast.AST] = {}
    for n in ast.walk(lp):
        tg = []
        if isinstance(n, ast.Assign):
            tg = n.targets
            if len(n.targets) == 1 and isinstance(n.targets[0], ast.Name):
                defs[n.targets[0].id] = n
        elif isinstance(n, (ast.AugAssign, ast.AnnAssign)):
            tg = [n.target]
        elif isinstance(n, (ast.For, ast.AsyncFor)) and n is not lp:
            tg = [n.target]
        for t in tg:
            for x in ast.walk(t):
                if isinstance(x, ast.Name) and isinstance(x.ctx, ast.Store):
                    binds.setdefault(x.id, []).append(n)
    order = source_order(lp)
    for k in list(out):
        d = defs.get(k)
        ops = {x.id for x in ast.walk(out[k]) if isinstance(x, ast.Name)} & set(binds)
        uses = [x for x in ast.walk(lp) if isinstance(x, ast.Name) and x.id == k and isinstance(x.ctx, ast.Load)]
        bad = False
        for v in ops:
            for r in binds[v]:
                if r is d or order.get(id(r), (0, 0))[0] <= order.get(id(d), (0, 0))[0]:
                    continue      # before the definition in the iteration: the definition sees the new value
                if isinstance(r, (ast.For, ast.AsyncFor)) and any(x is d for x in ast.walk(r)):
                    continue      # loop variable of an inner loop around the definition
                if any(order.get(id(u), (0, 0))[0] > order.get(id(r), (0, 0))[0] for u in uses):
                    bad = True
        if bad:
            del out[k]
    return out


# -- helper inlining ("extract method" robustness) ------------------------------------------------------------

KEEP_CALLS = {"_reconcile_consumed_ram", "_run_out_of_memory_killer", "_mark_completed", "_parse_row", "_pipeline_to_rows", "_parse_assignments",
              "_parse_suspensions", "_tick_generator", "_sensitivity_task"}


def _callers_of(P: Program, name: str) -> int:
    n = 0
    for m in P.real_modules():
        for x in ast.walk(m.tree):
            if isinstance(x, ast.Call) and norm.call_name(x) == name:
                n += 1
    return n


_PINNED: Optional[Set[str]] = None


def pinned_public_names() -> Set[str]:
    """Bare names of the public functions and methods of the tree the rules were written against (sa/pinned_names.json).  Rules are
    anchored on those by name; a public function that is *not* among them was introduced by a later change and is, as far as the rules are
    concerned, part of its callers (it is looked through like a private helper)."""
    global _PINNED
    if _PINNED is None:
        import json, os
        d = json.load(open(os.path.join(os.path.dirname(os.path.abspath(__file__)), "pinned_names.json")))
        _PINNED = {q.split(".")[-1] for key, qs in d.items() if key != "__classes__" for q in qs if not q.split(".")[-1].startswith("_")}
    return _PINNED


def pinned_constant_names() -> Set[str]:
    import json, os
    return set(json.load(open(os.path.join(os.path.dirname(os.path.abspath(__file__)), "pinned_names.json"))).get("__constants__", []))


_NEWCONST_CACHE: Dict = {}


def _new_constants(P: Program) -> Dict[str, ast.expr]:
    """module-level names that the pinned tree does not have, bound once in the whole package to a literal (number, string, None, ±number):
    a named literal introduced by a later change stands for its value"""
    k = id(P)
    if k not in _NEWCONST_CACHE or _NEWCONST_CACHE[k][0] is not P:
        pinned = pinned_constant_names()
        cnt: Dict[str, int] = {}
        val: Dict[str, ast.expr] = {}
        for m in P.real_modules():
            for st in m.tree.body:
                if isinstance(st, (ast.Assign, ast.AnnAssign)):
                    tg = st.targets if isinstance(st, ast.Assign) else [st.target]
                    for t in tg:
                        for x in ast.walk(t):
                            if isinstance(x, ast.Name):
                                cnt[x.id] = cnt.get(x.id, 0) + 1
                    if len(tg) == 1 and isinstance(tg[0], ast.Name) and st.value is not None:
                        if _scalar_literal(st.value) or (isinstance(st.value, ast.Tuple) and all(_scalar_literal(e) for e in st.value.elts)):
                            val[tg[0].id] = st.value
                        else:
                            flds = _record_fields(P, st.value)
                            if flds is not None:
                                val[tg[0].id] = flds
            for n in ast.walk(m.tree):
                if isinstance(n, (ast.Global,)):
                    for nm in n.names:
                        cnt[nm] = cnt.get(nm, 0) + 5
        out = {n: v for n, v in val.items() if cnt.get(n) == 1 and n not in pinned and not n.startswith("__")}
        _NEWCONST_CACHE[k] = (P, out)
    return _NEWCONST_CACHE[k][1]


def _record_fields(P: Program, e: ast.expr) -> Optional[ast.expr]:
    """`Cls._fields` of a NamedTuple class of the package (possibly wrapped in tuple(..)): the tuple of its field names"""
    if isinstance(e, ast.Call) and isinstance(e.func, ast.Name) and e.func.id == "tuple" and len(e.args) == 1 and not e.keywords:
        e = e.args[0]
    if not (isinstance(e, ast.Attribute) and e.attr == "_fields" and isinstance(e.value, ast.Name)):
        return None
    for m in P.real_modules():
        c = m.classes.get(e.value.id)
        if c is not None and any(isinstance(b, ast.Name) and b.id == "NamedTuple" for b in c.node.bases):
            names = [st.target.id for st in c.node.body if isinstance(st, ast.AnnAssign) and isinstance(st.target, ast.Name)]
            return ast.copy_location(ast.Tuple(elts=[ast.copy_location(ast.Constant(value=n), e) for n in names], ctx=ast.Load()), e)
    return None


_RECS: List = [()]


def _dispatch_site(f: Func, call: ast.Call, parents_from=None):
    """`w = D.get(E)` immediately followed by `if w is not None: BODY` (no else) where w is read nowhere else before its next binding: (assignment, guard)"""
    par = {}
    for x in ast.walk(parents_from if parents_from is not None else f.node):
        for ch in ast.iter_child_nodes(x):
            par[id(ch)] = x
    asg = par.get(id(call))
    if not (isinstance(asg, ast.Assign) and asg.value is call and len(asg.targets) == 1 and isinstance(asg.targets[0], ast.Name)):
        return None
    E = call.args[0]
    if not (isinstance(E, (ast.Name, ast.Constant)) or norm.attr_chain(E) is not None):
        return None
    w = asg.targets[0].id
    owner = par.get(id(asg))
    for _fld, blk in _block_lists(owner):
        for i, st in enumerate(blk):
            if st is asg and i + 1 < len(blk):
                gd = blk[i + 1]
                if isinstance(gd, ast.If) and not gd.orelse and isinstance(gd.test, ast.Compare) and len(gd.test.ops) == 1 and isinstance(gd.test.ops[0], ast.IsNot) \
                        and norm.is_name(gd.test.left, w) and isinstance(gd.test.comparators[0], ast.Constant) and gd.test.comparators[0].value is None:
                    # w is not read after the guard before it is bound again: every load of w lies in a guard that directly follows a binding of w
                    root = parents_from if parents_from is not None else f.node
                    for x in ast.walk(root):
                        if isinstance(x, ast.Name) and x.id == w and isinstance(x.ctx, ast.Load):
                            y = x
                            inside = False
                            while id(y) in par:
                                y = par[id(y)]
                                if isinstance(y, ast.If) and isinstance(y.test, ast.Compare) and norm.is_name(y.test.left, w):
                                    inside = True
                                    break
                            if not inside:
                                return None
                    if any(isinstance(x, ast.Name) and x.id == w and isinstance(x.ctx, (ast.Store, ast.Del)) for b_ in gd.body for x in ast.walk(b_)):
                        return None
                    return asg, gd
    return None


def _local_dict_views(f: Func) -> Func:
    """A local `D = {k1: v1, ..}` of plain keys and values that is bound once, never stored into and only looked at as a whole (`for k in D`, `D.keys()`,
    `D.values()`, `D.items()`, `len(D)`) is the tuples it holds:  `[p.value for p in D]` -> `[p.value for p in (k1, ..)]`,  `list(D.values())` -> `list((v1, ..))`."""
    for d in [n for n in own_nodes(f.node) if isinstance(n, ast.Assign) and len(n.targets) == 1 and isinstance(n.targets[0], ast.Name) and isinstance(n.value, ast.Dict)
              and n.value.keys and all(k is not None for k in n.value.keys)]:
        D = d.targets[0].id
        def plain(x):
            return _scalar_literal(x) or isinstance(x, ast.Name) or norm.attr_chain(x) is not None
        if not all(plain(k) for k in d.value.keys) or not all(plain(v) for v in d.value.values) or D in f.params():
            continue
        occ = [n for n in own_nodes(f.node) if isinstance(n, ast.Name) and n.id == D]
        if sum(1 for n in occ if isinstance(n.ctx, (ast.Store, ast.Del))) != 1:
            continue
        # the operands of keys and values are not bound again in the function (parameters, single-assignment locals, attribute chains of them)
        roots = {x.id for e in list(d.value.keys) + list(d.value.values) for x in ast.walk(e) if isinstance(x, ast.Name)}
        stores: Dict[str, int] = {}
        for x in own_nodes(f.node):
            if isinstance(x, ast.Name) and isinstance(x.ctx, (ast.Store, ast.Del)):
                stores[x.id] = stores.get(x.id, 0) + 1
        if any(stores.get(r, 0) > (0 if r in f.params() else 1) for r in roots):
            continue
        chains_ = {norm.U(e) for e in list(d.value.keys) + list(d.value.values) if isinstance(e, ast.Attribute)}
        if any(isinstance(x, ast.Attribute) and isinstance(x.ctx, (ast.Store, ast.Del)) and any(c_ == norm.U(x) or c_.startswith(norm.U(x) + ".") for c_ in chains_) for x in own_nodes(f.node)):
            continue          # an attribute the display reads is bound again in this function: the display holds the old object
        order = source_order(f.node)
        plan = []
        ok = True
        for n in occ:
            if not isinstance(n.ctx, ast.Load):
                continue
            if order.get(id(n), (0, 0))[0] < order.get(id(d), (0, 0))[1]:
                ok = False
                break
            p_ = parent(n)
            if isinstance(p_, ast.Attribute) and p_.value is n and p_.attr in ("keys", "values", "items") and isinstance(parent(p_), ast.Call) and parent(p_).func is p_ \
                    and not parent(p_).args and not parent(p_).keywords:
                plan.append((parent(p_), p_.attr))
            elif isinstance(p_, ast.comprehension) and p_.iter is n:
                plan.append((n, "keys"))
            elif isinstance(p_, ast.For) and p_.iter is n:
                plan.append((n, "keys"))
            elif isinstance(p_, ast.Call) and norm.is_name(p_.func, "len") and len(p_.args) == 1:
                plan.append((p_, "len"))
            elif isinstance(p_, ast.Subscript) and p_.value is n and isinstance(p_.ctx, ast.Load) and norm.U(p_.slice) in [norm.U(k) for k in d.value.keys]:
                plan.append((p_, "index"))           # D[k_i]  ->  v_i
            elif isinstance(p_, ast.Attribute) and p_.value is n and p_.attr == "get" and isinstance(parent(p_), ast.Call) and parent(p_).func is p_ and len(parent(p_).args) == 1 \
                    and not parent(p_).keywords and _dispatch_site(f, parent(p_)) is not None:
                plan.append((parent(p_), "dispatch"))      # w = D.get(E); if w is not None: BODY(w)   ->   if E == k1: BODY(v1) elif ...
            else:
                ok = False
                break
        if not ok or not plan:
            continue
        node = norm.clone(f.node)
        m = {id(a): b for a, b in zip(ast.walk(f.node), ast.walk(node))}
        cd = m[id(d)]
        for old, kind in plan:
            tgt = m[id(old)]
            if kind == "keys":
                new = ast.Tuple(elts=[norm.clone(k) for k in cd.value.keys], ctx=ast.Load())
            elif kind == "values":
                new = ast.Tuple(elts=[norm.clone(v) for v in cd.value.values], ctx=ast.Load())
            elif kind == "items":
                new = ast.Tuple(elts=[ast.Tuple(elts=[norm.clone(k), norm.clone(v)], ctx=ast.Load()) for k, v in zip(cd.value.keys, cd.value.values)], ctx=ast.Load())
            elif kind == "index":
                j_ = [norm.U(k) for k in cd.value.keys].index(norm.U(tgt.slice))
                new = norm.clone(cd.value.values[j_])
            elif kind == "dispatch":
                asg, guard = _dispatch_site(Func(f.mod, f.qual, node, f.cls), tgt, parents_from=node)
                w = asg.targets[0].id
                E = tgt.args[0]
                chain: List[ast.stmt] = []
                for k_, v_ in reversed(list(zip(cd.value.keys, cd.value.values))):
                    body_ = [norm.Subst({w: v_}).visit(norm.clone(b_)) for b_ in guard.body]
                    test_ = ast.Compare(left=norm.clone(E), ops=[ast.Eq()], comparators=[norm.clone(k_)])
                    chain = [ast.copy_location(ast.If(test=test_, body=body_, orelse=chain), guard)]
                holder = None
                for o_ in ast.walk(node):
                    for _fld, blk_ in _block_lists(o_):
                        if any(x is asg for x in blk_):
                            holder = blk_
                i_ = [q_ for q_, x in enumerate(holder) if x is asg][0]
                holder[i_:i_ + 2] = chain
                ast.fix_missing_locations(node)
                continue
            else:
                new = ast.Constant(value=len(cd.value.keys))
            keep = {k2: getattr(tgt, k2) for k2 in ("lineno", "col_offset", "end_lineno", "end_col_offset") if hasattr(tgt, k2)}
            tgt.__class__ = new.__class__
            tgt.__dict__.clear()
            tgt.__dict__.update(new.__dict__)
            tgt.__dict__.update(keep)
        par = parent(d)
        cpar = m[id(par)] if par is not None and id(par) in m else node
        for fld, blk in _block_lists(cpar):
            if any(x is cd for x in blk):
                blk[:] = [x for x in blk if x is not cd] or [ast.copy_location(ast.Pass(), cd)]
        ast.fix_missing_locations(node)
        for n in ast.walk(node):
            for ch in ast.iter_child_nodes(n):
                ch._parent = n  # type: ignore[attr-defined]
        node._parent = getattr(f.node, "_parent", None)  # type: ignore[attr-defined]
        return _local_dict_views(Func(f.mod, f.qual, node, f.cls))
    return f


def _propagate_literals(f: Func) -> Func:
    """`a, b = (1, 'x')` -> `a = 1; b = 'x'`, and a scalar literal bound to a local stands for it in the statements of the same block that follow, up to
    the next binding of the name (the copies a written-out table loop makes: `cpu__i1 = 1 ... Segment(baseline_cpu_seconds=cpu__i1)`)."""
    stores: Dict[str, int] = {}
    for x in own_nodes(f.node):
        if isinstance(x, ast.Name) and isinstance(x.ctx, (ast.Store, ast.Del)):
            stores[x.id] = stores.get(x.id, 0) + 1
    params = set(f.params())
    cands = [n for n in own_nodes(f.node) if isinstance(n, ast.Assign) and len(n.targets) == 1 and
             ((isinstance(n.targets[0], ast.Name) and _scalar_literal(n.value) and ("__i" in n.targets[0].id or stores.get(n.targets[0].id) == 1))
              or (isinstance(n.targets[0], ast.Tuple) and isinstance(n.value, ast.Tuple) and len(n.value.elts) == len(n.targets[0].elts)
                  and all(isinstance(t, ast.Name) for t in n.targets[0].elts) and all(_scalar_literal(v) for v in n.value.elts)))]
    if not cands:
        return f
    node = norm.clone(f.node)
    changed = False
    for owner in list(ast.walk(node)):
        for fld, blk in _block_lists(owner):
            i = 0
            while i < len(blk):
                st = blk[i]
                if isinstance(st, ast.Assign) and len(st.targets) == 1 and isinstance(st.targets[0], ast.Tuple) and isinstance(st.value, ast.Tuple) \
                        and len(st.value.elts) == len(st.targets[0].elts) and all(isinstance(t, ast.Name) for t in st.targets[0].elts) and all(_scalar_literal(v) for v in st.value.elts):
                    blk[i:i + 1] = [ast.copy_location(ast.Assign(targets=[t], value=v), st) for t, v in zip(st.targets[0].elts, st.value.elts)]
                    changed = True
                    continue
                if isinstance(st, ast.Assign) and len(st.targets) == 1 and isinstance(st.targets[0], ast.Name) and _scalar_literal(st.value) \
                        and ("__i" in st.targets[0].id or stores.get(st.targets[0].id) == 1) and st.targets[0].id not in params:
                    x = st.targets[0].id
                    for later in blk[i + 1:]:
                        if any(isinstance(y, ast.Name) and y.id == x and isinstance(y.ctx, (ast.Store, ast.Del)) for y in ast.walk(later)) \
                                or any(isinstance(y, (ast.FunctionDef, ast.Lambda, ast.AsyncFunctionDef)) for y in ast.walk(later)):
                            break
                        for y in ast.walk(later):
                            if isinstance(y, ast.Name) and y.id == x and isinstance(y.ctx, ast.Load):
                                v = st.value
                                y.__class__ = v.__class__
                                keep = {k_: getattr(y, k_) for k_ in ("lineno", "col_offset", "end_lineno", "end_col_offset") if hasattr(y, k_)}
                                y.__dict__.clear()
                                y.__dict__.update(norm.clone(v).__dict__)
                                y.__dict__.update(keep)
                                changed = True
                i += 1
    if not changed:
        return f
    ast.fix_missing_locations(node)
    for n in ast.walk(node):
        for ch in ast.iter_child_nodes(n):
            ch._parent = n  # type: ignore[attr-defined]
    node._parent = getattr(f.node, "_parent", None)  # type: ignore[attr-defined]
    return Func(f.mod, f.qual, node, f.cls)


_PROP_CACHE: Dict = {}


def _new_properties(P: Program):
    """({property name: [(class name, expression over `self`)]} for read-only one-expression @property methods the pinned tree does not have,
        {class name: names of everything an instance of it has})"""
    k = id(P)
    if k not in _PROP_CACHE or _PROP_CACHE[k][0] is not P:
        pinned = pinned_public_names()
        props: Dict[str, List[Tuple[str, ast.expr]]] = {}
        attrs: Dict[str, Set[str]] = {}
        for m in P.real_modules():
            for cname, c in m.classes.items():
                have = attrs.setdefault(cname, set())
                for st in c.node.body:
                    if isinstance(st, (ast.FunctionDef, ast.AsyncFunctionDef)):
                        have.add(st.name)
                        for x in ast.walk(st):
                            if isinstance(x, ast.Attribute) and isinstance(x.ctx, ast.Store) and isinstance(x.value, ast.Name) and st.args.args and x.value.id == st.args.args[0].arg:
                                have.add(x.attr)
                    elif isinstance(st, ast.Assign):
                        have.update(t.id for t in st.targets if isinstance(t, ast.Name))
                    elif isinstance(st, ast.AnnAssign) and isinstance(st.target, ast.Name):
                        have.add(st.target.id)
                for name, meth in c.methods.items():
                    ds = meth.decorators()
                    if len(ds) == 1 and isinstance(ds[0], ast.Name) and ds[0].id == "property" and name not in pinned and not name.startswith("__") \
                            and not any(isinstance(d2, ast.Attribute) and d2.attr in ("setter", "deleter") and norm.is_name(d2.value, name)
                                        for o in c.node.body if isinstance(o, ast.FunctionDef) for d2 in o.decorator_list):
                        body = [s for s in meth.node.body if not (isinstance(s, ast.Expr) and isinstance(s.value, ast.Constant)) and not isinstance(s, ast.Pass)]
                        if len(body) == 1 and isinstance(body[0], ast.Return) and body[0].value is not None and len(meth.params()) == 1:
                            props.setdefault(name, []).append((cname, meth.params()[0], body[0].value))
        # base classes contribute their attributes
        for m in P.real_modules():
            for cname, c in m.classes.items():
                for b in c.node.bases:
                    if isinstance(b, ast.Name) and b.id in attrs:
                        attrs[cname] |= attrs[b.id]
        _PROP_CACHE[k] = (P, props, attrs)
    return _PROP_CACHE[k][1], _PROP_CACHE[k][2]


_FT_CACHE: Dict = {}


def _field_types(P: Program) -> Dict[str, Set[str]]:
    """field name -> the package classes its annotations name, over all classes that have a field of that name (`self.f = p` with p annotated, `f: T` in a
    class body); a field without a usable annotation somewhere maps to the empty set"""
    k = id(P)
    if k not in _FT_CACHE or _FT_CACHE[k][0] is not P:
        classes = {cn for m in P.real_modules() for cn in m.classes}
        out: Dict[str, Set[str]] = {}
        unknown: Set[str] = set()

        def named(ann) -> Set[str]:
            if ann is None:
                return set()
            txt = ast.unparse(ann)
            import re as _re
            return {w for w in _re.findall(r"[A-Za-z_][A-Za-z_0-9]*", txt) if w in classes}
        for m in P.real_modules():
            for cn, c in m.classes.items():
                for st in c.node.body:
                    if isinstance(st, ast.AnnAssign) and isinstance(st.target, ast.Name):
                        t = named(st.annotation)
                        (out.setdefault(st.target.id, set()).update(t)) if len(t) == 1 else unknown.add(st.target.id)
                    if isinstance(st, (ast.FunctionDef, ast.AsyncFunctionDef)) and st.args.args:
                        selfn = st.args.args[0].arg
                        anns = {a_.arg: a_.annotation for a_ in st.args.args + st.args.kwonlyargs}
                        for x in ast.walk(st):
                            if isinstance(x, ast.Assign) and len(x.targets) == 1 and isinstance(x.targets[0], ast.Attribute) and norm.is_name(x.targets[0].value, selfn):
                                fld = x.targets[0].attr
                                t = named(anns.get(x.value.id)) if isinstance(x.value, ast.Name) and x.value.id in anns else set()
                                (out.setdefault(fld, set()).update(t)) if len(t) == 1 else unknown.add(fld)
        for u in unknown:
            out[u] = set()
        _FT_CACHE[k] = (P, out)
    return _FT_CACHE[k][1]


def _inline_new_properties(P: Program, f: Func) -> Func:
    """`x.p` where p is a read-only one-expression property that the pinned tree does not have and x can only be an instance of the class that defines it
    (x is `self` inside that class, or every attribute the function uses on x exists on that class and on no other class of the package) stands
    for the property's expression:  `c.ram` -> `c.assignment.ram`."""
    props, attrs = _new_properties(P)
    if not props:
        return f
    uses = [a for a in own_nodes(f.node) if isinstance(a, ast.Attribute) and isinstance(a.ctx, ast.Load) and a.attr in props
            and (isinstance(a.value, ast.Name) or norm.attr_chain(a.value) is not None)]
    if not uses:
        return f
    used_on: Dict[str, Set[str]] = {}
    for a in own_nodes(f.node):
        if isinstance(a, ast.Attribute) and isinstance(a.value, ast.Name):
            used_on.setdefault(a.value.id, set()).add(a.attr)
    params = f.params()

    def class_of(recv: str) -> Optional[str]:
        if f.cls and params and recv == params[0] and "." in f.qual and not _is_static(f):
            return f.cls
        cands = [c for c, have in attrs.items() if used_on.get(recv, set()) <= have]
        return cands[0] if len(cands) == 1 else None
    plan = {}
    for a in uses:
        if isinstance(a.value, ast.Name):
            c = class_of(a.value.id)
        else:
            # `x.y.p`: the field y is declared (annotation of the constructor parameter it is stored from, or of the dataclass field) to hold
            # instances of one class of the package, in every class that has a field of that name
            ft = _field_types(P).get(a.value.attr, set()) if isinstance(a.value, ast.Attribute) else set()
            c = next(iter(ft)) if len(ft) == 1 else None
        hit = [(cn, sp, e) for cn, sp, e in props[a.attr] if cn == c]
        if c is not None and len(hit) == 1:
            plan[id(a)] = hit[0]
    if not plan:
        return f
    node = norm.clone(f.node)
    m = {id(o): c for o, c in zip(ast.walk(f.node), ast.walk(node))}
    targets = {id(m[k]): v for k, v in plan.items()}

    class T(ast.NodeTransformer):
        def visit_Attribute(self, a):
            hit = targets.get(id(a))
            self.generic_visit(a)
            if hit is not None:
                _, selfp, e = hit
                return ast.copy_location(norm.Subst({selfp: a.value}).visit(norm.clone(e)), a)
            return a
    node = T().visit(node)
    ast.fix_missing_locations(node)
    for n in ast.walk(node):
        for ch in ast.iter_child_nodes(n):
            ch._parent = n  # type: ignore[attr-defined]
    node._parent = getattr(f.node, "_parent", None)  # type: ignore[attr-defined]
    return _inline_new_properties(P, Func(f.mod, f.qual, node, f.cls))


def _fold_literals(P: Program, f: Func) -> Func:
    """`Cls._fields` → the tuple of names; `list(<literal tuple>)` / `tuple(<literal list>)` → the display; a one-generator comprehension over a literal
    tuple / list of constants → the display it builds (`{c: g(getattr(r, c)) for c in ('a', 'b')}` → `{'a': g(r.a), 'b': g(r.b)}`)."""
    interesting = False
    for x in own_nodes(f.node):
        if isinstance(x, ast.Attribute) and x.attr == "_fields":
            interesting = True
        if isinstance(x, ast.Call) and isinstance(x.func, (ast.Call, ast.Name)) and norm.call_name(x.func if isinstance(x.func, ast.Call) else x) in ("attrgetter", "getattr"):
            interesting = True
        if isinstance(x, (ast.DictComp, ast.ListComp, ast.SetComp)) and len(x.generators) == 1 and isinstance(x.generators[0].iter, (ast.Tuple, ast.List, ast.Attribute)):
            interesting = True
        if isinstance(x, ast.Compare) and len(x.ops) == 1 and isinstance(x.ops[0], (ast.Is, ast.IsNot)) and _scalar_literal(x.left) and _scalar_literal(x.comparators[0]):
            interesting = True
        if isinstance(x, ast.Compare) and len(x.ops) == 1 and isinstance(x.ops[0], (ast.In, ast.NotIn)) and isinstance(x.left, ast.Constant):
            interesting = True
        if isinstance(x, ast.Call) and isinstance(x.func, ast.Name) and x.func.id in ("list", "tuple") and len(x.args) == 1 and isinstance(x.args[0], (ast.Tuple, ast.List, ast.Attribute)):
            interesting = True
    from .erase import records as _records
    _RECS[0] = set(_records(P))
    cconst = class_constants(P, f)
    if cconst and any(isinstance(x, ast.Attribute) and isinstance(x.ctx, ast.Load) and norm.U(x) in cconst for x in own_nodes(f.node)):
        interesting = True
    if any(isinstance(x, ast.Subscript) and isinstance(x.value, ast.Tuple) for x in own_nodes(f.node)):
        interesting = True
    if not interesting:
        return f
    node = norm.clone(f.node)
    changed = False

    def simple(x):
        return _scalar_literal(x) or isinstance(x, ast.Name) or norm.attr_chain(x) is not None \
            or (isinstance(x, ast.Tuple) and all(simple(y) for y in x.elts))

    def lit_seq(e):
        return isinstance(e, (ast.Tuple, ast.List)) and isinstance(e.ctx, ast.Load) and all(simple(x) for x in e.elts)

    class T(ast.NodeTransformer):
        def visit_Attribute(self, n):
            nonlocal changed
            if isinstance(n.ctx, ast.Load) and cconst:
                t = norm.attr_chain(n)
                if t is not None and t in cconst:
                    changed = True
                    return ast.copy_location(norm.clone(cconst[t]), n)          # a class-level literal nobody stores to
            self.generic_visit(n)
            r = _record_fields(P, n) if isinstance(n.ctx, ast.Load) else None
            if r is not None:
                changed = True
                return r
            return n

        def visit_Compare(self, n):
            nonlocal changed
            self.generic_visit(n)
            if len(n.ops) == 1 and isinstance(n.ops[0], (ast.In, ast.NotIn)) and isinstance(n.left, ast.Constant) and isinstance(n.left.value, str) \
                    and isinstance(n.comparators[0], (ast.Tuple, ast.List, ast.Set)) and all(isinstance(e_, ast.Constant) and isinstance(e_.value, str) for e_ in n.comparators[0].elts):
                inside = n.left.value in [e_.value for e_ in n.comparators[0].elts]
                changed = True
                return ast.copy_location(ast.Constant(value=(inside if isinstance(n.ops[0], ast.In) else not inside)), n)      # 'a' in ('a', 'b')
            if len(n.ops) == 1 and isinstance(n.ops[0], (ast.Is, ast.IsNot)) and _scalar_literal(n.left) and isinstance(n.comparators[0], ast.Constant) and n.comparators[0].value is None:
                is_none = isinstance(n.left, ast.Constant) and n.left.value is None
                changed = True
                return ast.copy_location(ast.Constant(value=(is_none if isinstance(n.ops[0], ast.Is) else not is_none)), n)     # `-1 is not None` (a default written in)
            return n

        def visit_IfExp(self, n):
            nonlocal changed
            self.generic_visit(n)
            if isinstance(n.test, ast.Constant) and isinstance(n.test.value, bool):
                changed = True
                return n.body if n.test.value else n.orelse
            return n

        def visit_BoolOp(self, n):
            nonlocal changed
            self.generic_visit(n)
            consts = [v for v in n.values if isinstance(v, ast.Constant) and isinstance(v.value, bool)]
            if not consts:
                return n
            absorbing = not isinstance(n.op, ast.And)          # True absorbs `or`, False absorbs `and`
            out = []
            for v in n.values:
                if isinstance(v, ast.Constant) and isinstance(v.value, bool):
                    if v.value is absorbing:
                        out.append(v)
                        break              # what follows is never evaluated
                    continue               # neutral element
                out.append(v)
            changed = True
            if not out:
                return ast.copy_location(ast.Constant(value=not absorbing), n)
            if len(out) == 1:
                return out[0]
            if isinstance(out[-1], ast.Constant) and out[-1].value is absorbing and not any(isinstance(x, (ast.Call, ast.Await, ast.NamedExpr)) for v in out[:-1] for x in ast.walk(v)):
                return out[-1]         # `x is None and False`: nothing observable is evaluated on the way to the constant
            n.values = out
            return n

        def visit_If(self, n):
            nonlocal changed
            self.generic_visit(n)
            if isinstance(n.test, ast.Constant) and isinstance(n.test.value, bool):
                changed = True
                return (n.body if n.test.value else n.orelse) or ast.copy_location(ast.Pass(), n)
            return n

        def visit_Subscript(self, n):
            nonlocal changed
            self.generic_visit(n)
            if isinstance(n.ctx, ast.Load) and isinstance(n.value, ast.Tuple) and isinstance(n.value.ctx, ast.Load):
                i = n.slice
                k_ = i.value if isinstance(i, ast.Constant) and isinstance(i.value, int) and not isinstance(i.value, bool) else \
                    (-i.operand.value if isinstance(i, ast.UnaryOp) and isinstance(i.op, ast.USub) and isinstance(i.operand, ast.Constant) and isinstance(i.operand.value, int) else None)
                if k_ is not None and -len(n.value.elts) <= k_ < len(n.value.elts) and not any(isinstance(e, ast.Starred) for e in n.value.elts) \
                        and all(_literal(e, _RECS[0]) for e in n.value.elts):
                    changed = True
                    return n.value.elts[k_]
            return n

        def visit_Call(self, n):
            nonlocal changed
            self.generic_visit(n)
            if isinstance(n.func, ast.Name) and n.func.id in ("list", "tuple") and len(n.args) == 1 and not n.keywords and lit_seq(n.args[0]):
                changed = True
                mk = ast.List if n.func.id == "list" else ast.Tuple
                return ast.copy_location(mk(elts=n.args[0].elts, ctx=ast.Load()), n)
            if isinstance(n.func, ast.Call) and isinstance(n.func.func, ast.Name) and n.func.func.id == "attrgetter" and len(n.func.args) == 1 and not n.func.keywords \
                    and isinstance(n.func.args[0], ast.Constant) and isinstance(n.func.args[0].value, str) and n.func.args[0].value.isidentifier() and len(n.args) == 1 and not n.keywords:
                changed = True
                return ast.copy_location(ast.Attribute(value=n.args[0], attr=n.func.args[0].value, ctx=ast.Load()), n)      # attrgetter('f')(x)  ->  x.f
            if isinstance(n.func, ast.Name) and n.func.id == "getattr" and len(n.args) == 2 and not n.keywords and isinstance(n.args[1], ast.Constant) \
                    and isinstance(n.args[1].value, str) and n.args[1].value.isidentifier():
                changed = True
                return ast.copy_location(ast.Attribute(value=n.args[0], attr=n.args[1].value, ctx=ast.Load()), n)
            return n

        def _unroll(self, n, build):
            nonlocal changed
            g = n.generators[0]
            if len(n.generators) == 1 and not g.ifs and not g.is_async and isinstance(g.target, ast.Name) and lit_seq(g.iter) and 0 < len(g.iter.elts) <= 32:
                v = g.target.id
                parts = []
                for c in g.iter.elts:
                    parts.append(build(lambda e, c=c: norm.Subst({v: c}).visit(norm.clone(e))))
                changed = True
                return parts
            if len(n.generators) == 1 and not g.ifs and not g.is_async and isinstance(g.target, ast.Tuple) and all(isinstance(t, ast.Name) for t in g.target.elts) and lit_seq(g.iter) \
                    and 0 < len(g.iter.elts) <= 32 and all(isinstance(c, ast.Tuple) and len(c.elts) == len(g.target.elts) for c in g.iter.elts):
                names = [t.id for t in g.target.elts]
                parts = []
                for c in g.iter.elts:
                    parts.append(build(lambda e, c=c: norm.Subst(dict(zip(names, c.elts))).visit(norm.clone(e))))
                changed = True
                return parts
            return None

        def visit_DictComp(self, n):
            self.generic_visit(n)
            parts = self._unroll(n, lambda sub: (sub(n.key), sub(n.value)))
            if parts is None:
                return n
            d = ast.copy_location(ast.Dict(keys=[self.visit(k) for k, _ in parts], values=[self.visit(v) for _, v in parts]), n)
            return d

        def visit_ListComp(self, n):
            self.generic_visit(n)
            parts = self._unroll(n, lambda sub: sub(n.elt))
            if parts is None:
                return n
            return ast.copy_location(ast.List(elts=[self.visit(p) for p in parts], ctx=ast.Load()), n)
    node = T().visit(node)
    if not changed:
        return f
    ast.fix_missing_locations(node)
    for n in ast.walk(node):
        for ch in ast.iter_child_nodes(n):
            ch._parent = n  # type: ignore[attr-defined]
    node._parent = getattr(f.node, "_parent", None)  # type: ignore[attr-defined]
    return Func(f.mod, f.qual, node, f.cls)


def _scalar_literal(e: ast.expr) -> bool:
    if isinstance(e, ast.Constant) and (e.value is None or isinstance(e.value, (int, float, str))):
        return True
    return isinstance(e, ast.UnaryOp) and isinstance(e.op, (ast.USub, ast.UAdd)) and isinstance(e.operand, ast.Constant) and isinstance(e.operand.value, (int, float)) \
        and not isinstance(e.operand.value, bool)


def _named_literals(P: Program, f: Func) -> Func:
    consts = _new_constants(P)
    if not consts:
        return f
    local = {x.id for x in own_nodes(f.node) if isinstance(x, ast.Name) and isinstance(x.ctx, (ast.Store, ast.Del))} | set(f.params())
    used = {x.id for x in own_nodes(f.node) if isinstance(x, ast.Name) and isinstance(x.ctx, ast.Load)} & set(consts) - local
    if not used:
        return f
    node = norm.clone(f.node)

    class T(ast.NodeTransformer):
        def visit_Name(self, n: ast.Name):
            if isinstance(n.ctx, ast.Load) and n.id in used:
                return ast.copy_location(norm.clone(consts[n.id]), n)
            return n
    node = T().visit(node)
    ast.fix_missing_locations(node)
    for n in ast.walk(node):
        for ch in ast.iter_child_nodes(n):
            ch._parent = n  # type: ignore[attr-defined]
    node._parent = getattr(f.node, "_parent", None)  # type: ignore[attr-defined]
    return Func(f.mod, f.qual, node, f.cls)


_PINNED_CALLED: Optional[Set[str]] = None


def pinned_called_attrs() -> Set[str]:
    """method names that the pinned tree already calls on something (`x.add(..)`, `rng.normal(..)`, `logger.info(..)`): a call of such a name
    says nothing about a new method that happens to have the same name, plus the method names of the builtin containers and strings"""
    global _PINNED_CALLED
    if _PINNED_CALLED is None:
        import json, os
        d = json.load(open(os.path.join(os.path.dirname(os.path.abspath(__file__)), "pinned_names.json")))
        s_ = set(d.get("__called_attrs__", []))
        for t in (list, dict, set, frozenset, str, bytes, tuple, int, float, object):
            s_ |= {a for a in dir(t)}
        _PINNED_CALLED = s_
    return _PINNED_CALLED


def pinned_class_names() -> Set[str]:
    import json, os
    return set(json.load(open(os.path.join(os.path.dirname(os.path.abspath(__file__)), "pinned_names.json"))).get("__classes__", []))


_NEWDEF_CACHE: Dict = {}


def _new_public_defs(P: Program) -> Tuple[Dict[str, List[Func]], Dict[str, List[Func]]]:
    """(methods, module-level functions) with a public name that the pinned tree does not have, by bare name"""
    k = id(P)
    if k not in _NEWDEF_CACHE or _NEWDEF_CACHE[k][0] is not P:
        pinned = pinned_public_names()
        meths: Dict[str, List[Func]] = {}
        funcs: Dict[str, List[Func]] = {}
        for m in P.real_modules():
            for f in m.funcs.values():
                if f.name.startswith("_") and not f.name.startswith("__") and "." not in f.qual:
                    funcs.setdefault(f.name, []).append(f)       # a private function: reached by name from another module only through an import or a looked-through caller
                    continue
                if f.name.startswith("_") or f.name in pinned:
                    continue
                if f.cls and f.qual == f"{f.cls}.{f.name}":
                    meths.setdefault(f.name, []).append(f)
                elif "." not in f.qual:
                    funcs.setdefault(f.name, []).append(f)
        _NEWDEF_CACHE[k] = (P, meths, funcs)
    return _NEWDEF_CACHE[k][1], _NEWDEF_CACHE[k][2]


def _kind_of_method(target: Func) -> str:
    ds = target.decorators()
    if not ds:
        return "plain"
    if len(ds) == 1 and isinstance(ds[0], ast.Name) and ds[0].id in ("staticmethod", "classmethod"):
        return ds[0].id
    return "other"


def resolve_helper(P: Program, f: Func, c: ast.Call) -> Optional[Func]:
    """The function a call is looked through to:  self._m(..) / Cls._m(..) (same class),  _f(..) (same module)  — private helpers — and,
    for names that the pinned tree does not have: self.m(..), f(..) defined in this or exactly one other module (imported), x.m(..) where m
    is defined by exactly one class of the package, and Cls.m(..) for a static / class method."""
    fn = c.func
    target: Optional[Func] = None
    meths, funcs = _new_public_defs(P)
    if isinstance(fn, ast.Attribute) and isinstance(fn.value, ast.Name) and f.cls and fn.value.id in ("self", f.cls) and f.mod.classes.get(f.cls) \
            and fn.attr in f.mod.classes[f.cls].methods:
        target = f.mod.classes[f.cls].methods[fn.attr]
        if fn.value.id == f.cls and _kind_of_method(target) not in ("staticmethod", "classmethod"):
            target = None
    elif isinstance(fn, ast.Name) and fn.id in f.mod.funcs and "." not in fn.id:
        target = f.mod.funcs[fn.id]
    elif isinstance(fn, ast.Name) and len(funcs.get(fn.id, [])) == 1:
        target = funcs[fn.id][0]           # a new public function of another module, imported by name
    elif isinstance(fn, ast.Attribute) and isinstance(fn.value, ast.Name) and fn.attr not in pinned_called_attrs() \
            and any(t.cls == fn.value.id and _kind_of_method(t) in ("staticmethod", "classmethod") for t in meths.get(fn.attr, [])):
        target = [t for t in meths[fn.attr] if t.cls == fn.value.id and _kind_of_method(t) in ("staticmethod", "classmethod")][0]     # Cls.m(..): named class
    elif isinstance(fn, ast.Attribute) and len(meths.get(fn.attr, [])) == 1 and fn.attr not in pinned_called_attrs():
        t = meths[fn.attr][0]
        kind = _kind_of_method(t)
        if kind in ("staticmethod", "classmethod"):
            if isinstance(fn.value, ast.Name) and fn.value.id == t.cls:
                target = t
        elif kind == "plain" and not (isinstance(fn.value, ast.Name) and fn.value.id == t.cls):
            target = t                     # x.m(..): a new method that only one class of the package defines
    if target is None and isinstance(fn, ast.Attribute) and isinstance(fn.value, ast.Name) and fn.value.id not in ("self", "cls"):
        # x.m(..) where the local x is bound once, to an instance of a class the pinned tree does not have: the method of that class, whatever its name
        x = fn.value.id
        binds = [n for n in own_nodes(f.node) if isinstance(n, ast.Name) and n.id == x and isinstance(n.ctx, (ast.Store, ast.Del))]
        if len(binds) == 1 and x not in f.params():
            st = parent(binds[0])
            if isinstance(st, (ast.Assign, ast.AnnAssign)) and isinstance(st.value, ast.Call) and isinstance(st.value.func, ast.Name) and st.value.func.id not in pinned_class_names():
                for m_ in P.real_modules():
                    cl = m_.classes.get(st.value.func.id)
                    if cl is not None and fn.attr in cl.methods and _kind_of_method(cl.methods[fn.attr]) == "plain" and not fn.attr.startswith("__"):
                        return cl.methods[fn.attr]
    if target is None or same_fn(target, f):
        return None
    if target.name.startswith("__"):
        return None
    if not target.name.startswith("_"):
        if target.name in pinned_public_names() or _kind_of_method(target) == "other":
            return None
    return target


def _inlinable(P: Program, f: Func, c: ast.Call, allow_yield: bool = False) -> Optional[Func]:
    """A helper (see resolve_helper) called with positional/keyword arguments only whose `return`s can be eliminated."""
    fn = c.func
    target = resolve_helper(P, f, c)
    if target is None:
        return None
    if target.name in KEEP_CALLS:
        return None   # rules anchor on calls of these helpers by name
    if any(isinstance(x, ast.Starred) for x in c.args) or any(k.arg is None for k in c.keywords):
        return None
    a = target.node.args
    if a.vararg or a.kwarg or a.kwonlyargs or _kind_of_method(target) == "other":
        return None
    body = target.node.body
    rets = [x for x in own_nodes(target.node) if isinstance(x, ast.Return)]
    if any(r is not body[-1] for r in rets) and not _returns_eliminable(body) and not _returns_eliminable(_push_tails([norm.clone(s_) for s_ in body])):
        return None
    # a parameter that the helper binds again (assignment, loop variable, ...) cannot be replaced by the caller's argument expression:
    # inside the helper the name then means something else (and a shadowing slip there must stay visible)
    pset = set(target.params())
    for x in own_nodes(target.node):
        if isinstance(x, ast.Name) and isinstance(x.ctx, (ast.Store, ast.Del)) and x.id in pset:
            return None
    has_yield = any(isinstance(x, (ast.Yield, ast.YieldFrom)) for x in own_nodes(target.node))
    if any(isinstance(x, (ast.Global, ast.Nonlocal)) for x in own_nodes(target.node)):
        return None
    if has_yield != allow_yield:
        return None      # a generator helper is looked through only where it is delegated to with `yield from`; a plain helper only where it is called
    if has_yield and any(r.value is not None for r in rets):
        return None
    return target


def _is_static(target: Func) -> bool:
    ds = target.decorators()
    return len(ds) == 1 and isinstance(ds[0], ast.Name) and ds[0].id == "staticmethod"


def _contains_return(stmts: List[ast.stmt]) -> bool:
    return any(isinstance(x, ast.Return) for s_ in stmts for x in ast.walk(s_) if not isinstance(x, (ast.FunctionDef, ast.Lambda)))


def _always_returns(stmts: List[ast.stmt]) -> bool:
    if not stmts:
        return False
    last = stmts[-1]
    if isinstance(last, (ast.Return, ast.Raise)):
        return True
    if isinstance(last, ast.If):
        return _always_returns(last.body) and _always_returns(last.orelse)
    return False


def _push_tails(stmts: List[ast.stmt], budget: int = 8) -> List[ast.stmt]:
    """`if c: A; (return e on some paths)` followed by TAIL  ->  the TAIL copied to the end of every branch that can fall out of the case split,
    so that each branch returns on every path or on none (what `_returns_eliminable` asks for).  Pure duplication of straight-line code along the
    paths that reach it; done on a copy of the helper's body, bounded."""
    out = list(stmts)
    i = len(out) - 1
    while i >= 0:
        st = out[i]
        if isinstance(st, ast.If) and _contains_return([st]):
            st.body = _push_tails(st.body, budget)
            st.orelse = _push_tails(st.orelse, budget)
            tail = out[i + 1:]
            partial = any(_contains_return(br) and not _always_returns(br) for br in (st.body, st.orelse))
            if partial and tail and len(tail) <= budget and not any(isinstance(x, (ast.FunctionDef, ast.ClassDef)) for t_ in tail for x in ast.walk(t_)):
                for name in ("body", "orelse"):
                    br = getattr(st, name)
                    if not _always_returns(br):
                        setattr(st, name, _push_tails(br + [norm.clone(t_) for t_ in tail], budget))
                out = out[:i + 1]
        i -= 1
    return out


def _returns_eliminable(stmts: List[ast.stmt]) -> bool:
    """every `return` sits at the end of the body or of an if/elif/else branch (guard clauses, case splits) — never inside a loop,
    try or with, where leaving the function is not the same as falling to the end of a block"""
    for i, st in enumerate(stmts):
        if isinstance(st, ast.Return):
            return i == len(stmts) - 1
        if isinstance(st, ast.If):
            if _contains_return([st]):
                if not (_returns_eliminable(st.body) and _returns_eliminable(st.orelse)):
                    return False
                # a branch that returns only on some of its paths would need the rest duplicated: allow only "returns on every path or on none"
                for br in (st.body, st.orelse):
                    if _contains_return(br) and not _always_returns(br):
                        return False
        elif isinstance(st, (ast.With, ast.AsyncWith)) and _contains_return([st]):
            # `with ..: ...; return e` as the last statement: the value is computed inside the block and handed on after it is left — the same
            # order of events as `with ..: ...; ret = e` followed by nothing
            return i == len(stmts) - 1 and _returns_eliminable(st.body) and _always_returns_or_falls(st.body)
        elif isinstance(st, (ast.While, ast.For)) and _contains_return([st]):
            # "search loop": `return e` inside the loop is `ret = e; break`, and what follows the loop is its else clause — sound only when
            # the loop has no break or else of its own and every return sits under plain ifs of this loop (not in a nested loop, try or with)
            return not st.orelse and _loop_returns_plain(st.body) and _returns_eliminable(stmts[i + 1:])
        elif _contains_return([st]):
            return False
    return True


def _always_returns_or_falls(stmts: List[ast.stmt]) -> bool:
    return True


def _loop_returns_plain(stmts: List[ast.stmt]) -> bool:
    for st in stmts:
        if isinstance(st, ast.Break):
            return False
        if isinstance(st, ast.If):
            if not (_loop_returns_plain(st.body) and _loop_returns_plain(st.orelse)):
                return False
        elif isinstance(st, (ast.While, ast.For, ast.Try, ast.With, ast.Match)):
            if _contains_return([st]):
                return False
            if isinstance(st, (ast.Try, ast.With, ast.Match)) and any(isinstance(x, ast.Break) for x in ast.walk(st)):
                return False
    return True


def _returns_to_breaks(stmts: List[ast.stmt], retvar: Optional[str]) -> List[ast.stmt]:
    out: List[ast.stmt] = []
    for st in stmts:
        if isinstance(st, ast.Return):
            if retvar is not None:
                out.append(ast.copy_location(ast.Assign(targets=[ast.Name(id=retvar, ctx=ast.Store())], value=st.value if st.value is not None else ast.Constant(None)), st))
            out.append(ast.copy_location(ast.Break(), st))
            return out
        if isinstance(st, ast.If) and _contains_return([st]):
            new = ast.If(test=st.test, body=_returns_to_breaks(st.body, retvar), orelse=_returns_to_breaks(st.orelse, retvar))
            ast.copy_location(new, st)
            out.append(new)
            continue
        out.append(st)
    for s_ in out:
        for x in ast.walk(s_):
            if not hasattr(x, "lineno"):
                ast.copy_location(x, s_ if hasattr(s_, "lineno") else stmts[0])
    return out


def _eliminate_returns(stmts: List[ast.stmt], retvar: Optional[str]) -> List[ast.stmt]:
    """Rewrite a body whose returns are eliminable so that it falls off its end instead: `return e` becomes `retvar = e` (dropped for a
    helper used as a statement), and what follows a guard clause moves into its else branch."""
    out: List[ast.stmt] = []
    for i, st in enumerate(stmts):
        if isinstance(st, ast.Return):
            if retvar is not None:
                out.append(ast.copy_location(ast.Assign(targets=[ast.Name(id=retvar, ctx=ast.Store())], value=st.value if st.value is not None else ast.Constant(None)), st))
            return out
        if isinstance(st, (ast.With, ast.AsyncWith)) and _contains_return([st]):
            new = norm.clone(st)
            new.body = _eliminate_returns(st.body, retvar) or [ast.Pass()]
            for s_ in new.body:
                for x in ast.walk(s_):
                    if not hasattr(x, "lineno"):
                        ast.copy_location(x, st)
            out.append(new)
            return out
        if isinstance(st, (ast.While, ast.For)) and _contains_return([st]):
            rest = stmts[i + 1:]
            tail = _eliminate_returns(rest, retvar) if rest else []
            if retvar is not None and not _always_returns(rest):
                tail.append(ast.Assign(targets=[ast.Name(id=retvar, ctx=ast.Store())], value=ast.Constant(None)))
            new = norm.clone(st)
            new.body = _returns_to_breaks(st.body, retvar)
            new.orelse = tail
            for s_ in tail:
                for x in ast.walk(s_):
                    if not hasattr(x, "lineno"):
                        ast.copy_location(x, st)
            out.append(new)
            return out
        if isinstance(st, ast.If) and _contains_return([st]):
            rest = stmts[i + 1:]
            body = _eliminate_returns(st.body, retvar)
            orelse = _eliminate_returns(st.orelse, retvar)
            b_ret, o_ret = _always_returns(st.body) and _contains_return(st.body), _always_returns(st.orelse) and _contains_return(st.orelse)
            tail = _eliminate_returns(rest, retvar) if rest else []
            if b_ret and o_ret:
                new = ast.If(test=st.test, body=body or [ast.Pass()], orelse=orelse)
            elif b_ret:
                new = ast.If(test=st.test, body=body or [ast.Pass()], orelse=orelse + tail)
            else:
                new = ast.If(test=st.test, body=(body + tail) or [ast.Pass()], orelse=orelse)
            ast.copy_location(new, st)
            for x in ast.walk(new):
                if not hasattr(x, "lineno"):
                    ast.copy_location(x, st)
            out.append(new)
            return out
        out.append(st)
    return out


def _instantiate(target: Func, c: ast.Call, tag: str) -> Tuple[List[ast.stmt], Optional[ast.expr]]:
    """Body of target with parameters replaced by the call's arguments and locals renamed; -> (statements, returned expr)."""
    params = target.params()
    env: Dict[str, ast.expr] = {}
    args = list(c.args)
    if isinstance(c.func, ast.Attribute) and not _is_static(target):
        env[params[0]] = c.func.value   # self
        params = params[1:]
    defaults = target.node.args.defaults
    dmap = dict(zip(target.node.args.args[len(target.node.args.args) - len(defaults):], defaults)) if defaults else {}
    for i, p_ in enumerate(params):
        if i < len(args):
            env[p_] = args[i]
    for k in c.keywords:
        env[k.arg] = k.value
    for a_, d_ in dmap.items():
        if a_.arg not in env:
            env[a_.arg] = d_
    body = [norm.clone(s) for s in target.node.body if not (isinstance(s, ast.Expr) and isinstance(s.value, ast.Constant) and isinstance(s.value.value, str))]
    multi_ret = None
    nrets = [x for s_ in body for x in ast.walk(s_) if isinstance(x, ast.Return)]
    if nrets and not (len(nrets) == 1 and nrets[0] is body[-1]):
        # guard clauses / case splits: make the body fall off its end, the result (if any) in a fresh local
        if not _returns_eliminable(body):
            body = _push_tails(body)
        has_value = any(r.value is not None for r in nrets)
        multi_ret = "ret" if has_value else None
        body = _eliminate_returns(body, multi_ret)
        if multi_ret:
            body.append(ast.Return(value=ast.Name(id=multi_ret, ctx=ast.Load())))
    # rename locals (Store-bound names that are not parameters)
    bound = set()
    for s in body:
        for x in ast.walk(s):
            if isinstance(x, ast.Name) and isinstance(x.ctx, ast.Store):
                bound.add(x.id)
    bound -= set(env)
    ret = None
    out = []
    for s in body:
        for x in ast.walk(s):
            if isinstance(x, ast.Name) and x.id in bound:
                x.id = f"{x.id}__{tag}"
        s = norm.Subst({k: v for k, v in env.items()}).visit(s)
        if isinstance(s, ast.Return):
            ret = s.value
            continue
        out.append(s)
    return out, ret


_INLINE_CACHE: Dict = {}


def inline_helpers(P: Program, f: Func, depth: int = 2) -> Func:
    k = (id(P), id(f.node))
    hit = _INLINE_CACHE.get(k)
    if hit is None or hit[0] is not P or hit[1] is not f.node:
        from .erase import erase
        f0 = f
        f = _walrus(f)                               # `if not (x := E):` is `x = E; if not x:`
        f = _dict_splat(f)                           # `x = {**d, 'k': v}` is `x = d.copy(); x['k'] = v`
        f = _inline_new_properties(P, f)             # `c.ram` (a new read-only property) is `c.assignment.ram`
        v = _inline_helpers(P, f, depth)
        if v is not f:
            v2 = _walrus(v)                          # ... also inside what was looked through
            if v2 is not v:
                v = _inline_helpers(P, v2, depth)
        v = _inline_new_properties(P, v)             # ... also where it came in with a looked-through method (`self.ram` with self := c)
        if v is not f:
            v = _search_result_flow(v)               # what an Optional-returning search helper leaves behind
            v = _list_copy_alias(v)                  # `xs = list(<materialised generator>)`
        v = _plain_assignments(v)
        v = _local_tuples(P, v)                      # `x = R(a, b)` read only as x.f: the record is never built
        v = _local_objects(P, v)                     # a never-escaping instance of a small new class is a bundle of locals
        v = _plain_assignments(v)
        v = _bucket_reads(v)                         # group-by-field dict + lookup  ==  filter by that field
        from .partition import partition_lists, exit_flag_flow, filter_writeback
        v = filter_writeback(P, v)                   # select / process / filter with the complementary test  ==  drain the selection
        v = exit_flag_flow(P, v)                     # single exit with a result flag  ==  the early exits it stands for
        v = partition_lists(v)                       # kept/removed partition + `L[:] = kept`  ==  deferred removal of the removed members
        v = _named_literals(P, v)                    # a module constant the pinned tree does not have stands for its literal
        v = unroll_const_loops(P, v)                 # a loop over a constant table of literals is the sequence of its bodies
        v = _local_dict_views(v)                     # a local dict display that is only looked at as a whole is the tuples of its keys / values
        v = _fold_literals(P, v)                     # Cls._fields, list(<literal>), comprehension over a literal tuple, class-level literals: written out
        v = inline_predicates(P, v)                  # side-effect-free one-expression helpers, wherever they are called (loop tests, arguments, ...)
        v = _fold_literals(P, v)                     # ... and what became constant through them
        v = erase(P, v)                              # local records (NamedTuples) written back as tuples / separate locals
        v = _propagate_literals(_plain_assignments(v))
        hit = (P, f0.node, dealias(_loop_field_aliases(_index_loops(_genexp_loops(v))), subscripts=False))
        _INLINE_CACHE[k] = hit
    return hit[2]


def _loop_field_aliases(f: Func) -> Func:
    """Inside `for c in L:` a per-iteration local that merely names a field of the loop variable (`alloc = c.assignment`) is written out at
    its uses (`alloc.cpu` -> `c.assignment.cpu`): only plain attribute chains rooted at the loop's own target, bound once in the loop, with
    stable operands (loop_env) — reads and stores through the name are reads and stores of that field."""
    loops = [n for n in own_nodes(f.node) if isinstance(n, (ast.For, ast.AsyncFor))]
    plan = []
    for lp in loops:
        tnames = {x.id for x in ast.walk(lp.target) if isinstance(x, ast.Name)}
        env = {}
        for k, v in loop_env(lp).items():
            r = v
            ok = isinstance(v, ast.Attribute)
            while isinstance(r, ast.Attribute):
                r = r.value
            if ok and isinstance(r, ast.Name) and r.id in tnames and k not in tnames:
                env[k] = v
        if env:
            plan.append((lp, env))
    if not plan:
        return f
    node = norm.clone(f.node)
    by_orig = {id(a): b for a, b in zip(ast.walk(f.node), ast.walk(node))}    # the copy is structurally identical: same walk order
    for lp, env in plan:
        lp2 = by_orig.get(id(lp))
        if lp2 is None:
            continue

        class T(ast.NodeTransformer):
            def visit_Name(self, n: ast.Name):
                if isinstance(n.ctx, ast.Load) and n.id in env:
                    return ast.copy_location(norm.clone(env[n.id]), n)
                return n

            def visit_Lambda(self, n):
                return n
        lp2.body = [T().visit(st) for st in lp2.body]
    ast.fix_missing_locations(node)
    for n in ast.walk(node):
        for ch in ast.iter_child_nodes(n):
            ch._parent = n  # type: ignore[attr-defined]
    node._parent = getattr(f.node, "_parent", None)  # type: ignore[attr-defined]
    return Func(f.mod, f.qual, node, f.cls)


def _index_loops(f: Func) -> Func:
    """`for i in range(len(L)): x = L[i]; ...`  is  `for i, x in enumerate(L): ...`  when neither i, x nor L is bound again in the body and L is
    not changed there (the index loop reads the length once, like enumerate would stop on the list it walks)."""
    cands = []
    for lp in [n for n in own_nodes(f.node) if isinstance(n, ast.For) and isinstance(n.target, ast.Name) and not n.orelse]:
        it = lp.iter
        if not (isinstance(it, ast.Call) and norm.is_name(it.func, "range") and len(it.args) == 1 and not it.keywords and isinstance(it.args[0], ast.Call)
                and norm.is_name(it.args[0].func, "len") and len(it.args[0].args) == 1 and isinstance(it.args[0].args[0], ast.Name)):
            continue
        L, i = it.args[0].args[0].id, lp.target.id
        st0 = lp.body[0] if lp.body else None
        if not (isinstance(st0, ast.Assign) and len(st0.targets) == 1 and isinstance(st0.targets[0], ast.Name) and isinstance(st0.value, ast.Subscript)
                and norm.is_name(st0.value.value, L) and norm.is_name(st0.value.slice, i)):
            continue
        x = st0.targets[0].id
        if x in (L, i):
            continue
        bad = False
        for st in lp.body[1:]:
            for n in ast.walk(st):
                if isinstance(n, ast.Name) and isinstance(n.ctx, (ast.Store, ast.Del)) and n.id in (L, i, x):
                    bad = True
                if isinstance(n, ast.Call) and isinstance(n.func, ast.Attribute) and norm.is_name(n.func.value, L) and n.func.attr in MUTATORS:
                    bad = True
                if isinstance(n, ast.Subscript) and norm.is_name(n.value, L) and isinstance(n.ctx, (ast.Store, ast.Del)):
                    bad = True
        if not bad:
            cands.append(lp)
    if not cands:
        return f
    node = norm.clone(f.node)
    m = {id(a): b for a, b in zip(ast.walk(f.node), ast.walk(node))}
    for lp in cands:
        lp2 = m[id(lp)]
        L, i, x = lp.iter.args[0].args[0].id, lp.target.id, lp.body[0].targets[0].id
        lp2.target = ast.Tuple(elts=[ast.Name(id=i, ctx=ast.Store()), ast.Name(id=x, ctx=ast.Store())], ctx=ast.Store())
        lp2.iter = ast.Call(func=ast.Name(id="enumerate", ctx=ast.Load()), args=[ast.Name(id=L, ctx=ast.Load())], keywords=[])
        lp2.body = lp2.body[1:] or [ast.Pass()]
    ast.fix_missing_locations(node)
    for n in ast.walk(node):
        for ch in ast.iter_child_nodes(n):
            ch._parent = n  # type: ignore[attr-defined]
    node._parent = getattr(f.node, "_parent", None)  # type: ignore[attr-defined]
    return Func(f.mod, f.qual, node, f.cls)


def _block_lists(n: ast.AST):
    for fld in ("body", "orelse", "finalbody"):
        b = getattr(n, fld, None)
        if isinstance(b, list) and b and isinstance(b[0], ast.stmt):
            yield fld, b
    if isinstance(n, ast.Try):
        for h in n.handlers:
            yield "body", h.body


def _has_loop_jump(stmts: List[ast.stmt]) -> bool:
    """a break / continue that would bind to a loop outside these statements"""
    def walk(st, depth):
        if isinstance(st, (ast.Break, ast.Continue)) and depth == 0:
            return True
        if isinstance(st, (ast.FunctionDef, ast.AsyncFunctionDef, ast.ClassDef, ast.Lambda)):
            return False
        d2 = depth + 1 if isinstance(st, (ast.For, ast.While, ast.AsyncFor)) else depth
        for fld, b in _block_lists(st):
            dd = depth if (isinstance(st, (ast.For, ast.While, ast.AsyncFor)) and fld == "orelse") else d2
            if any(walk(x, dd) for x in b):
                return True
        return False
    return any(walk(st, 0) for st in stmts)


def _search_result_flow(f: Func) -> Func:
    """to a fixed point (a copy that is coalesced can bring a search result next to its guard)"""
    for _ in range(3):
        g = _search_result_flow_once(f)
        if g is f or ast.dump(g.node) == ast.dump(f.node):
            return g
        f = g
    return f


def _search_result_flow_once(f: Func) -> Func:
    """What an Optional-returning search helper leaves behind once it is looked through:

        while ..:                                   while ..:
            ...                                         ...
            X = V; break                                X = V; REST; break
        else:                          ==           else:
            X = None                                    X = None; JUMP
        if X is None: JUMP
        REST                       (REST to the end of the block, without break/continue of its own level; JUMP = continue / return / raise)

    followed by  `a, b = X` right after `X = (va, vb)`  ->  `a = va; b = vb`,  and a copy `x = h__iN` of a looked-through helper's local into a
    name that has no other binding -> the helper's local is called x from the start."""
    node = norm.clone(f.node)
    changed = False
    again = True
    rounds = 0
    while again and rounds < 6:
        again = False
        rounds += 1
        for owner in list(ast.walk(node)):
            for fld, blk in list(_block_lists(owner)):
                for i, lp in enumerate(blk):
                    if not (isinstance(lp, (ast.While, ast.For)) and lp.orelse and i + 1 < len(blk)):
                        continue
                    guard = blk[i + 1]
                    if not (isinstance(guard, ast.If) and not guard.orelse and isinstance(guard.test, ast.Compare) and len(guard.test.ops) == 1
                            and isinstance(guard.test.ops[0], ast.Is) and isinstance(guard.test.left, ast.Name)
                            and isinstance(guard.test.comparators[0], ast.Constant) and guard.test.comparators[0].value is None
                            and len(guard.body) >= 1 and isinstance(guard.body[-1], (ast.Continue, ast.Return, ast.Raise))
                            and not _has_loop_jump(guard.body[:-1])):
                        continue
                    X = guard.test.left.id
                    # else clause: ends with X = None, nothing else binds X there
                    el = lp.orelse
                    if not (isinstance(el[-1], ast.Assign) and len(el[-1].targets) == 1 and norm.is_name(el[-1].targets[0], X)
                            and isinstance(el[-1].value, ast.Constant) and el[-1].value.value is None):
                        continue
                    # body: exactly one `X = V; break`, V visibly not None; no other break of this loop; no other binding of X in the loop
                    sites = []

                    def scan(stmts, depth):
                        for k, st in enumerate(stmts):
                            if isinstance(st, ast.Break) and depth == 0:
                                prev = stmts[k - 1] if k > 0 else None
                                sites.append((stmts, k, prev))
                            if isinstance(st, (ast.FunctionDef, ast.AsyncFunctionDef, ast.ClassDef)):
                                continue
                            for fl2, b2 in _block_lists(st):
                                d2 = depth + 1 if isinstance(st, (ast.For, ast.While, ast.AsyncFor)) and fl2 != "orelse" else depth
                                scan(b2, d2)
                    scan(lp.body, 0)
                    if len(sites) != 1:
                        continue
                    stmts_b, kb, prev = sites[0]
                    if not (isinstance(prev, ast.Assign) and len(prev.targets) == 1 and norm.is_name(prev.targets[0], X)):
                        continue
                    visibly = isinstance(prev.value, (ast.Tuple, ast.List, ast.Dict, ast.Call, ast.JoinedStr)) \
                        and not (isinstance(prev.value, ast.Call) and not (isinstance(prev.value.func, ast.Name) and prev.value.func.id[:1].isupper()))
                    if not visibly and not isinstance(guard.body[-1], (ast.Return, ast.Raise)):
                        continue          # the found value may itself be None: the guard has to stay, and only a return / raise means the same inside the loop
                    binds = [x for x in ast.walk(lp) if isinstance(x, ast.Name) and x.id == X and isinstance(x.ctx, (ast.Store, ast.Del))]
                    if len(binds) != 2:
                        continue
                    rest = blk[i + 2:]
                    if _has_loop_jump(rest):
                        continue
                    if not visibly and not (rest and isinstance(rest[-1], ast.Return)):
                        continue          # only the early-return search (`for ..: if hit: ...; return R` / `return None` after it) is written back in this case
                    # move
                    stmts_b[kb:kb] = rest if visibly else [norm.clone(guard)] + rest
                    dead = isinstance(guard.body[-1], (ast.Return, ast.Raise)) and not any(isinstance(x, ast.Name) and x.id == X for b_ in guard.body for x in ast.walk(b_))
                    lp.orelse = (el[:-1] if dead else el) + guard.body          # `X = None` right before leaving the function without reading X is dropped
                    del blk[i + 1:]
                    again = changed = True
                    break
                if again:
                    break
            if again:
                break
    # the same after a case split instead of a search loop (a looked-through helper with guard-clause returns):
    #     if c: X = None              if c: X = None; JUMP
    #     else: ...; X = V      ==    else: ...; X = V; REST
    #     if X is None: JUMP
    #     REST
    def leaves(stmts, X):
        """[(block, position)]: the places at which the statement list ends, if each of them is right after an assignment to X (block[position - 1]);
        else None.  A search loop `while ..: ..; X = V; break  else: X = None` ends in two places: before its `break` and at the end of its else."""
        if not stmts:
            return None
        last = stmts[-1]
        if isinstance(last, ast.Assign) and len(last.targets) == 1 and norm.is_name(last.targets[0], X):
            return [(stmts, len(stmts))]
        if isinstance(last, ast.If) and last.orelse:
            a, b = leaves(last.body, X), leaves(last.orelse, X)
            if a is not None and b is not None:
                return a + b
        if isinstance(last, (ast.While, ast.For)) and last.orelse and isinstance(last.orelse[-1], ast.Assign) and len(last.orelse[-1].targets) == 1 \
                and norm.is_name(last.orelse[-1].targets[0], X):
            sites = []

            def scan(ss, depth):
                for k, st in enumerate(ss):
                    if isinstance(st, ast.Break) and depth == 0:
                        sites.append((ss, k))
                    if isinstance(st, (ast.FunctionDef, ast.AsyncFunctionDef, ast.ClassDef)):
                        continue
                    for fl2, b2 in _block_lists(st):
                        scan(b2, depth + 1 if isinstance(st, (ast.For, ast.While, ast.AsyncFor)) and fl2 != "orelse" else depth)
            scan(last.body, 0)
            binds = [x for x in ast.walk(last) if isinstance(x, ast.Name) and x.id == X and isinstance(x.ctx, (ast.Store, ast.Del))]
            if len(sites) == 1 and sites[0][1] > 0 and len(binds) == 2:
                ss, k = sites[0]
                pv = ss[k - 1]
                if isinstance(pv, ast.Assign) and len(pv.targets) == 1 and norm.is_name(pv.targets[0], X):
                    return [(ss, k), (last.orelse, len(last.orelse))]
        return None
    again = True
    rounds = 0
    while again and rounds < 6:
        again = False
        rounds += 1
        for owner in list(ast.walk(node)):
            for fld, blk in list(_block_lists(owner)):
                for i, cs in enumerate(blk):
                    if not (isinstance(cs, ast.If) and cs.orelse and i + 1 < len(blk)):
                        continue
                    guard = blk[i + 1]
                    positive = isinstance(guard, ast.If) and not guard.orelse and isinstance(guard.test, ast.Compare) and len(guard.test.ops) == 1 \
                        and isinstance(guard.test.ops[0], ast.IsNot) and isinstance(guard.test.left, ast.Name) and isinstance(guard.test.comparators[0], ast.Constant) \
                        and guard.test.comparators[0].value is None and i + 2 == len(blk)
                    # `if X is not None: REST` as the last statement of the block: REST runs for the branches that made a value, nothing for the others
                    if not positive and not (isinstance(guard, ast.If) and not guard.orelse and isinstance(guard.test, ast.Compare) and len(guard.test.ops) == 1
                                             and isinstance(guard.test.ops[0], ast.Is) and isinstance(guard.test.left, ast.Name)
                                             and isinstance(guard.test.comparators[0], ast.Constant) and guard.test.comparators[0].value is None
                                             and guard.body and isinstance(guard.body[-1], (ast.Continue, ast.Return, ast.Raise, ast.Break))):
                        continue
                    X = guard.test.left.id
                    lv = leaves([cs], X)
                    if lv is None or len(lv) > 8:
                        continue
                    rest = blk[i + 2:] if not positive else guard.body
                    if positive:
                        guard = ast.If(test=guard.test, body=[ast.copy_location(ast.Pass(), guard)], orelse=[])
                    if any(pos_ != len(blk_) for blk_, pos_ in lv) and _has_loop_jump(rest):
                        continue          # REST would move into a search loop: its own break / continue would bind there
                    kinds = []
                    for blk_, pos_ in lv:
                        val = blk_[pos_ - 1].value
                        if isinstance(val, ast.Constant) and val.value is None:
                            kinds.append("none")
                        elif isinstance(val, (ast.Tuple, ast.List, ast.Dict, ast.JoinedStr, ast.BinOp)) or (isinstance(val, ast.Constant) and val.value is not None) \
                                or (isinstance(val, ast.Call) and isinstance(val.func, ast.Name) and val.func.id[:1].isupper()):
                            kinds.append("value")        # (an arithmetic result is never None)
                        else:
                            kinds.append("unknown")
                    if "unknown" in kinds or "none" not in kinds:
                        continue
                    x_loads_elsewhere = [n_ for n_ in ast.walk(node) if isinstance(n_, ast.Name) and n_.id == X and isinstance(n_.ctx, ast.Load)
                                         and not any(n_ is y for b_ in blk[i + 1:] for y in ast.walk(b_))]
                    for (blk_, pos_), kd in zip(lv, kinds):
                        if positive and kd == "none" and not x_loads_elsewhere:
                            blk_[pos_ - 1] = ast.copy_location(ast.Pass(), blk_[pos_ - 1])       # `X = None` that nobody reads any more
                            continue
                        blk_[pos_:pos_] = [norm.clone(x) for x in (guard.body if kd == "none" else rest)]
                    del blk[i + 1:]
                    again = changed = True
                    break
                if again:
                    break
            if again:
                break
    # `a, b = X` after a case split every live branch of which ends with `X = (va, vb)`: unpacked where the pair is made
    def live_leaves(stmts, X):
        if not stmts:
            return None
        last = stmts[-1]
        if isinstance(last, (ast.Continue, ast.Break, ast.Return, ast.Raise)):
            return []
        if isinstance(last, ast.Assign) and len(last.targets) == 1 and norm.is_name(last.targets[0], X):
            return [stmts]
        if isinstance(last, ast.If) and last.orelse:
            a, b = live_leaves(last.body, X), live_leaves(last.orelse, X)
            if a is not None and b is not None:
                return a + b
        return None
    for owner in list(ast.walk(node)):
        for fld, blk in list(_block_lists(owner)):
            k = 1
            while k < len(blk):
                st, pv = blk[k], blk[k - 1]
                if isinstance(st, ast.Assign) and len(st.targets) == 1 and isinstance(st.targets[0], ast.Tuple) and isinstance(st.value, ast.Name) \
                        and all(isinstance(t, ast.Name) for t in st.targets[0].elts) and isinstance(pv, ast.If):
                    X = st.value.id
                    lv = live_leaves([pv], X)
                    tnames = {t.id for t in st.targets[0].elts}
                    def _safe(leaf):
                        """element-wise assignment means the same as the parallel one: an element is the target itself (nothing to do) or reads no target"""
                        if not (isinstance(leaf[-1].value, ast.Tuple) and len(leaf[-1].value.elts) == len(st.targets[0].elts)):
                            return False
                        for t, v_ in zip(st.targets[0].elts, leaf[-1].value.elts):
                            if isinstance(v_, ast.Name) and v_.id == t.id:
                                continue
                            if tnames & {x.id for x in ast.walk(v_) if isinstance(x, ast.Name)}:
                                return False
                        return True
                    if lv and len(lv) <= 8 and all(_safe(leaf) for leaf in lv):
                        for leaf in lv:
                            vals = leaf[-1].value.elts
                            leaf.extend([ast.copy_location(ast.Assign(targets=[norm.clone(t)], value=norm.clone(v_)), st) for t, v_ in zip(st.targets[0].elts, vals)
                                         if not (isinstance(v_, ast.Name) and v_.id == t.id)])
                        del blk[k]
                        changed = True
                        continue
                k += 1
    # a, b = (va, vb)  with plain operands that are none of the targets  ->  a = va; b = vb
    for owner in list(ast.walk(node)):
        for fld, blk in list(_block_lists(owner)):
            k = 0
            while k < len(blk):
                st = blk[k]
                if isinstance(st, ast.Assign) and len(st.targets) == 1 and isinstance(st.targets[0], ast.Tuple) and isinstance(st.value, ast.Tuple) \
                        and len(st.targets[0].elts) == len(st.value.elts) and all(isinstance(t, ast.Name) for t in st.targets[0].elts) \
                        and all(isinstance(v, (ast.Name, ast.Constant)) for v in st.value.elts) and any(isinstance(v, ast.Name) and "__i" in v.id for v in st.value.elts) \
                        and not ({t.id for t in st.targets[0].elts} & {v.id for v in st.value.elts if isinstance(v, ast.Name)}):
                    new = [ast.copy_location(ast.Assign(targets=[t], value=v), st) for t, v in zip(st.targets[0].elts, st.value.elts)]
                    blk[k:k + 1] = new
                    changed = True
                    k += len(new)
                    continue
                k += 1
    # a, b = X  right after  X = (va, vb)
    for owner in list(ast.walk(node)):
        for fld, blk in list(_block_lists(owner)):
            k = 1
            while k < len(blk):
                st, pv = blk[k], blk[k - 1]
                if isinstance(st, ast.Assign) and len(st.targets) == 1 and isinstance(st.targets[0], ast.Tuple) and isinstance(st.value, ast.Name) \
                        and isinstance(pv, ast.Assign) and len(pv.targets) == 1 and norm.is_name(pv.targets[0], st.value.id) and isinstance(pv.value, ast.Tuple) \
                        and len(pv.value.elts) == len(st.targets[0].elts) and all(isinstance(t, ast.Name) for t in st.targets[0].elts) \
                        and all(isinstance(v, (ast.Name, ast.Constant)) or norm.attr_chain(v) is not None or (isinstance(v, ast.Subscript) and norm.attr_chain(v.value) is not None)
                                for v in pv.value.elts) \
                        and not ({t.id for t in st.targets[0].elts} & {x.id for v in pv.value.elts for x in ast.walk(v) if isinstance(x, ast.Name)}):
                    new = [ast.copy_location(ast.Assign(targets=[t], value=norm.clone(v)), st) for t, v in zip(st.targets[0].elts, pv.value.elts)]
                    blk[k:k + 1] = new
                    changed = True
                    k += len(new)
                    continue
                k += 1
    if not changed and not any(isinstance(n, ast.Assign) and len(n.targets) == 1 and isinstance(n.targets[0], ast.Name) and isinstance(n.value, ast.Name) and "__i" in n.value.id
                               for n in ast.walk(node)):
        return f
    # copies of helper locals:  x = h__iN   (x bound nowhere else, every load of x after the copy)  ->  h__iN is x
    ast.fix_missing_locations(node)
    order = source_order(node)
    for cp in [n for n in ast.walk(node) if isinstance(n, ast.Assign) and len(n.targets) == 1 and isinstance(n.targets[0], ast.Name)
               and isinstance(n.value, ast.Name) and "__i" in n.value.id]:
        x, y = cp.targets[0].id, cp.value.id
        xs = [n for n in ast.walk(node) if isinstance(n, ast.Name) and n.id == x]
        if x in f.params():
            continue
        if sum(1 for n in xs if isinstance(n.ctx, (ast.Store, ast.Del))) != 1:
            # x is bound again later (a count-down `x -= 1`): still the same variable when nothing mentions x before the copy, the helper's local is
            # not looked at after it, and the copy is not inside a branch or loop of its own relative to the later uses (it dominates them by position)
            here = order.get(id(cp), (0, 0))[0]
            if any(n is not cp.targets[0] and order.get(id(n), (0, 0))[0] < here for n in xs):
                continue
            if any(isinstance(n, ast.Name) and n.id == y and n is not cp.value and order.get(id(n), (0, 0))[0] > here for n in ast.walk(node)):
                continue
            if any(isinstance(n, (ast.Global, ast.Nonlocal)) for n in ast.walk(node)):
                continue
        if any(isinstance(n.ctx, ast.Load) and order.get(id(n), (0, 0))[0] < order.get(id(cp), (0, 0))[0] for n in xs):
            continue
        for n in ast.walk(node):
            if isinstance(n, ast.Name) and n.id == y:
                n.id = x
        # the copy became  x = x: drop it
        for owner in ast.walk(node):
            for fld, blk in _block_lists(owner):
                if any(b is cp for b in blk):
                    blk[:] = [b for b in blk if b is not cp] or [ast.Pass()]
    ast.fix_missing_locations(node)
    for n in ast.walk(node):
        for ch in ast.iter_child_nodes(n):
            ch._parent = n  # type: ignore[attr-defined]
    node._parent = getattr(f.node, "_parent", None)  # type: ignore[attr-defined]
    return Func(f.mod, f.qual, node, f.cls)


def _list_copy_alias(f: Func) -> Func:
    """`M = list(L)` (or L[:], L.copy(), plain L) where L is a local list filled by appends that is not looked at again, and M is bound nowhere
    else: M is L (the copy only changes the name under which the finished list goes on)."""
    order = None
    for st in [n for n in own_nodes(f.node) if isinstance(n, ast.Assign) and len(n.targets) == 1 and isinstance(n.targets[0], ast.Name)]:
        v = st.value
        L = None
        if isinstance(v, ast.Call) and isinstance(v.func, ast.Name) and v.func.id == "list" and len(v.args) == 1 and isinstance(v.args[0], ast.Name) and not v.keywords:
            L = v.args[0]
        elif isinstance(v, ast.Subscript) and isinstance(v.value, ast.Name) and isinstance(v.slice, ast.Slice) and v.slice.lower is None and v.slice.upper is None and v.slice.step is None:
            L = v.value
        elif isinstance(v, ast.Call) and isinstance(v.func, ast.Attribute) and v.func.attr == "copy" and isinstance(v.func.value, ast.Name) and not v.args:
            L = v.func.value
        if L is None or "__" not in L.id:
            continue      # only lists the view itself introduced (materialised generators, helper locals): a programmer's own copy may be there for a reason
        M = st.targets[0].id
        if M == L.id or M in f.params() or L.id in f.params():
            continue
        inits = [n for n in own_nodes(f.node) if isinstance(n, ast.Assign) and len(n.targets) == 1 and norm.is_name(n.targets[0], L.id)]
        if len(inits) != 1 or not (isinstance(inits[0].value, ast.List) and not inits[0].value.elts):
            continue
        if order is None:
            order = source_order(f.node)
        here = order.get(id(L), (0, 0))[0]
        if any(isinstance(n, ast.Name) and n.id == L.id and n is not L and order.get(id(n), (0, 0))[0] > here for n in own_nodes(f.node)):
            continue
        if sum(1 for n in own_nodes(f.node) if isinstance(n, ast.Name) and n.id == M and isinstance(n.ctx, (ast.Store, ast.Del))) != 1:
            continue
        if any(isinstance(n, ast.Name) and n.id == M and isinstance(n.ctx, ast.Load) and order.get(id(n), (0, 0))[0] < here for n in own_nodes(f.node)):
            continue
        node = norm.clone(f.node)
        m = {id(a): b for a, b in zip(ast.walk(f.node), ast.walk(node))}
        cst = m[id(st)]
        par = m[id(parent(st))]
        for fld in ("body", "orelse", "finalbody"):
            b = getattr(par, fld, None)
            if isinstance(b, list) and any(x is cst for x in b):
                setattr(par, fld, [x for x in b if x is not cst] or [ast.Pass()])
        for n in ast.walk(node):
            if isinstance(n, ast.Name) and n.id == L.id:
                n.id = M
        ast.fix_missing_locations(node)
        for n in ast.walk(node):
            for ch in ast.iter_child_nodes(n):
                ch._parent = n  # type: ignore[attr-defined]
        node._parent = getattr(f.node, "_parent", None)  # type: ignore[attr-defined]
        return _list_copy_alias(Func(f.mod, f.qual, node, f.cls))
    return f


def _local_objects(P: Program, f: Func) -> Func:
    """`v = C(..)` where C is a small class the pinned tree does not have, v is bound once and never escapes (after C's methods were looked through,
    v occurs only as `v.<field>`): the object is a bundle of locals — C.__init__ written out with `v__<field>` for `self.<field>`, and every
    `v.<field>` read or stored as that local."""
    pinned = pinned_class_names()
    for st in [n for n in own_nodes(f.node) if isinstance(n, ast.Assign) and len(n.targets) == 1 and isinstance(n.targets[0], ast.Name) and isinstance(n.value, ast.Call)
               and isinstance(n.value.func, ast.Name) and n.value.func.id not in pinned]:
        cname, v = st.value.func.id, st.targets[0].id
        cls = None
        for m in P.real_modules():
            if cname in m.classes:
                cls = m.classes[cname]
        if cls is None or "__init__" not in cls.methods or v in f.params():
            continue
        if any(isinstance(b, ast.Name) and b.id not in ("object",) for b in cls.node.bases) or cls.node.bases and not all(isinstance(b, ast.Name) and b.id == "object" for b in cls.node.bases):
            continue
        ini = cls.methods["__init__"]
        ia = ini.node.args
        if ia.vararg or ia.kwarg or ia.kwonlyargs or any(isinstance(x, (ast.Return, ast.Yield, ast.YieldFrom)) and getattr(x, "value", None) is not None for x in own_nodes(ini.node)):
            continue
        occ = [n for n in own_nodes(f.node) if isinstance(n, ast.Name) and n.id == v]
        if sum(1 for n in occ if isinstance(n.ctx, (ast.Store, ast.Del))) != 1:
            continue
        fields: Set[str] = set()
        ok = True
        for n in occ:
            if n is st.targets[0]:
                continue
            p_ = parent(n)
            if isinstance(p_, ast.Attribute) and p_.value is n and p_.attr not in cls.methods:
                fields.add(p_.attr)
            else:
                ok = False
        if not ok:
            continue
        # C.__init__ with self := the bundle
        selfn = ini.params()[0]
        params = ini.params()[1:]
        call = st.value
        if any(isinstance(a, ast.Starred) for a in call.args) or any(k.arg is None for k in call.keywords) or len(call.args) > len(params):
            continue
        env: Dict[str, ast.expr] = {}
        for p_, a in zip(params, call.args):
            env[p_] = a
        for k in call.keywords:
            if k.arg in params:
                env[k.arg] = k.value
        defaults = ia.defaults
        dmap = dict(zip(params[len(params) - len(defaults):], defaults)) if defaults else {}
        for p_ in params:
            if p_ not in env and p_ in dmap:
                env[p_] = dmap[p_]
        if any(p_ not in env for p_ in params):
            continue
        body = [norm.clone(s_) for s_ in ini.node.body if not (isinstance(s_, ast.Expr) and isinstance(s_.value, ast.Constant))]
        if any(isinstance(x, ast.Name) and x.id == selfn and not (isinstance(getattr(x, "_parent", None), ast.Attribute)) for s_ in ini.node.body for x in ast.walk(s_)):
            continue      # self escapes from the constructor

        def fld(name):
            return f"{v}__{name}"

        class T(ast.NodeTransformer):
            def __init__(self, sname):
                self.sname = sname

            def visit_Attribute(self, a):
                self.generic_visit(a)
                if isinstance(a.value, ast.Name) and a.value.id == self.sname:
                    return ast.copy_location(ast.Name(id=fld(a.attr), ctx=a.ctx), a)
                return a

            def visit_AnnAssign(self, n):
                self.generic_visit(n)
                if isinstance(n.target, ast.Name) and n.value is not None:
                    return ast.copy_location(ast.Assign(targets=[n.target], value=n.value), n)
                return n
        new_init = []
        for s_ in body:
            s2 = T(selfn).visit(s_)
            s2 = norm.Subst(env).visit(s2)
            new_init.append(s2)
        node = norm.clone(f.node)
        m_ = {id(a): b for a, b in zip(ast.walk(f.node), ast.walk(node))}
        cst = m_[id(st)]
        par = m_[id(parent(st))]
        for s2 in new_init:
            for x in ast.walk(s2):
                ast.copy_location(x, cst) if not hasattr(x, "lineno") else None
        for fldn in ("body", "orelse", "finalbody"):
            b = getattr(par, fldn, None)
            if isinstance(b, list) and any(x is cst for x in b):
                i_ = [k for k, x in enumerate(b) if x is cst][0]
                b[i_:i_ + 1] = new_init or [ast.Pass()]
        node = T(v).visit(node)
        ast.fix_missing_locations(node)
        for n in ast.walk(node):
            for ch in ast.iter_child_nodes(n):
                ch._parent = n  # type: ignore[attr-defined]
        node._parent = getattr(f.node, "_parent", None)  # type: ignore[attr-defined]
        return _local_objects(P, Func(f.mod, f.qual, node, f.cls))
    return f


def _bucket_reads(f: Func) -> Func:
    """`D = {}; for c in SRC: D.setdefault(c.key, []).append(c)` ... `D.get(k, [])`  is  `[c for c in SRC if c.key == k]`: grouping a list by a
    field in one pass and looking a group up is the same selection as filtering the list for that value of the field (same elements, same
    order).  Also the pre-filled (`{k: [] for k in range(n)}` + `D.get(c.key)` / `D[c.key]`) and defaultdict(list) spellings."""
    for init in [n for n in own_nodes(f.node) if isinstance(n, ast.Assign) and len(n.targets) == 1 and isinstance(n.targets[0], ast.Name)]:
        D = init.targets[0].id
        v = init.value
        kind = None
        if isinstance(v, ast.Dict) and not v.keys:
            kind = "plain"
        elif isinstance(v, ast.DictComp) and isinstance(v.value, ast.List) and not v.value.elts:
            kind = "prefilled"
        elif isinstance(v, ast.Call) and norm.call_name(v) == "defaultdict" and len(v.args) == 1 and norm.is_name(v.args[0], "list"):
            kind = "default"
        if kind is None:
            continue
        occ = [n for n in own_nodes(f.node) if isinstance(n, ast.Name) and n.id == D]
        if sum(1 for n in occ if isinstance(n.ctx, (ast.Store, ast.Del))) != 1:
            continue
        # the fill loop
        fill = None
        for lp in [n for n in own_nodes(f.node) if isinstance(n, ast.For) and isinstance(n.target, ast.Name) and isinstance(n.iter, ast.Name) and not n.orelse]:
            c, SRC = lp.target.id, lp.iter.id
            body = lp.body
            key = None
            if len(body) == 1 and isinstance(body[0], ast.Expr) and isinstance(body[0].value, ast.Call):
                call = body[0].value
                if isinstance(call.func, ast.Attribute) and call.func.attr == "append" and len(call.args) == 1 and norm.is_name(call.args[0], c):
                    recv = call.func.value
                    if isinstance(recv, ast.Call) and isinstance(recv.func, ast.Attribute) and recv.func.attr == "setdefault" and norm.is_name(recv.func.value, D) \
                            and len(recv.args) == 2 and isinstance(recv.args[1], ast.List) and not recv.args[1].elts:
                        key = recv.args[0]
                    elif isinstance(recv, ast.Subscript) and norm.is_name(recv.value, D) and kind in ("prefilled", "default"):
                        key = recv.slice
            elif len(body) == 2 and isinstance(body[0], ast.Assign) and len(body[0].targets) == 1 and isinstance(body[0].targets[0], ast.Name) \
                    and isinstance(body[0].value, ast.Call) and isinstance(body[0].value.func, ast.Attribute) and body[0].value.func.attr == "get" \
                    and norm.is_name(body[0].value.func.value, D) and len(body[0].value.args) == 1 and isinstance(body[1], ast.If) and not body[1].orelse \
                    and norm.nnf(body[1].test) == ("cmp", "isnot", body[0].targets[0].id, "None") and len(body[1].body) == 1 and isinstance(body[1].body[0], ast.Expr) \
                    and norm.U(body[1].body[0].value) == f"{body[0].targets[0].id}.append({c})" and kind == "prefilled":
                key = body[0].value.args[0]
            if key is not None and isinstance(key, ast.Attribute) and norm.is_name(key.value, c):
                fill = (lp, c, SRC, key.attr)
                break
        if fill is None:
            continue
        lp, c, SRC, attr = fill
        inside = {id(x) for x in ast.walk(lp)}
        reads = []
        ok = True
        for n in occ:
            if id(n) in inside or not isinstance(n.ctx, ast.Load):
                continue
            p_ = parent(n)
            pp = parent(p_) if p_ is not None else None
            if isinstance(p_, ast.Attribute) and p_.attr == "get" and isinstance(pp, ast.Call) and pp.func is p_ and len(pp.args) == 2 \
                    and isinstance(pp.args[1], ast.List) and not pp.args[1].elts:
                reads.append((pp, pp.args[0]))
            elif isinstance(p_, ast.Subscript) and p_.value is n and isinstance(p_.ctx, ast.Load) and kind in ("prefilled", "default") and not isinstance(p_.slice, ast.Slice):
                reads.append((p_, p_.slice))
            else:
                ok = False
        if not ok or not reads:
            continue
        if SRC not in f.params() and sum(1 for n in own_nodes(f.node) if isinstance(n, ast.Name) and n.id == SRC and isinstance(n.ctx, ast.Store)) != 1:
            continue
        node = norm.clone(f.node)
        m = {id(a): b for a, b in zip(ast.walk(f.node), ast.walk(node))}
        k = 0
        for rd, keyexpr in reads:
            k += 1
            cv = f"{c}__b{k}"
            comp = ast.ListComp(elt=ast.Name(id=cv, ctx=ast.Load()),
                                generators=[ast.comprehension(target=ast.Name(id=cv, ctx=ast.Store()), iter=ast.Name(id=SRC, ctx=ast.Load()),
                                                              ifs=[ast.Compare(left=ast.Attribute(value=ast.Name(id=cv, ctx=ast.Load()), attr=attr, ctx=ast.Load()), ops=[ast.Eq()],
                                                                               comparators=[norm.clone(m[id(keyexpr)])])], is_async=0)])
            tgt = m[id(rd)]
            par = m[id(parent(rd))]
            for fld, val in ast.iter_fields(par):
                if val is tgt:
                    setattr(par, fld, comp)
                elif isinstance(val, list):
                    for i_, x in enumerate(val):
                        if x is tgt:
                            val[i_] = comp
        for dead in (init, lp):
            cd = m[id(dead)]
            par = m[id(parent(dead))]
            for fld in ("body", "orelse", "finalbody"):
                b = getattr(par, fld, None)
                if isinstance(b, list) and any(x is cd for x in b):
                    setattr(par, fld, [x for x in b if x is not cd] or [ast.Pass()])
        ast.fix_missing_locations(node)
        for n in ast.walk(node):
            for ch in ast.iter_child_nodes(n):
                ch._parent = n  # type: ignore[attr-defined]
        node._parent = getattr(f.node, "_parent", None)  # type: ignore[attr-defined]
        return _bucket_reads(Func(f.mod, f.qual, node, f.cls))
    return f


def _genexp_loops(f: Func) -> Func:
    """`X = (E(v) for v in it)` bound once and consumed by exactly one `for r in X:` loop (no other use of X) is that loop over `it` with
    `r = E(v)` as its first statement: the generator expression only delays the evaluation to the moment the loop asks for the element."""
    todo = []
    for d in [n for n in own_nodes(f.node) if isinstance(n, ast.Assign) and len(n.targets) == 1 and isinstance(n.targets[0], ast.Name) and isinstance(n.value, ast.GeneratorExp)]:
        X = d.targets[0].id
        ge = d.value
        if len(ge.generators) != 1 or ge.generators[0].ifs or ge.generators[0].is_async:
            continue
        stores = [n for n in own_nodes(f.node) if isinstance(n, ast.Name) and n.id == X and isinstance(n.ctx, (ast.Store, ast.Del))]
        loads = [n for n in own_nodes(f.node) if isinstance(n, ast.Name) and n.id == X and isinstance(n.ctx, ast.Load)]
        if len(stores) != 1 or len(loads) != 1:
            continue
        lp = parent(loads[0])
        if not (isinstance(lp, ast.For) and lp.iter is loads[0] and isinstance(lp.target, ast.Name) and not lp.orelse):
            continue
        # the loop must not sit inside another loop that the definition is outside of (the generator would be exhausted the second time round)
        anc_l, q = [], parent(lp)
        while q is not None and q is not f.node:
            if isinstance(q, (ast.For, ast.While)):
                anc_l.append(q)
            q = parent(q)
        anc_d, q = [], parent(d)
        while q is not None and q is not f.node:
            if isinstance(q, (ast.For, ast.While)):
                anc_d.append(q)
            q = parent(q)
        if [id(x) for x in anc_l] != [id(x) for x in anc_d]:
            continue
        gnames = {x.id for x in ast.walk(ge.generators[0].target) if isinstance(x, ast.Name)}
        used = {x.id for x in own_nodes(f.node) if isinstance(x, ast.Name) and not any(x is y for y in ast.walk(ge))}
        if gnames & used:
            continue    # the comprehension variable would leak into the function's scope under a name that is in use
        todo.append((d, lp))
    if not todo:
        return f
    node = norm.clone(f.node)
    m = {id(a): b for a, b in zip(ast.walk(f.node), ast.walk(node))}
    for d, lp in todo:
        d2, lp2 = m[id(d)], m[id(lp)]
        ge = d2.value
        first = ast.copy_location(ast.Assign(targets=[ast.Name(id=lp2.target.id, ctx=ast.Store())], value=ge.elt), lp2)
        lp2.target = ge.generators[0].target
        for x in ast.walk(lp2.target):
            if isinstance(x, (ast.Name, ast.Tuple, ast.List)):
                x.ctx = ast.Store()
        lp2.iter = ge.generators[0].iter
        lp2.body = [first] + lp2.body
        par = m[id(parent(d))]
        for fld in ("body", "orelse", "finalbody"):
            b = getattr(par, fld, None)
            if isinstance(b, list) and any(x is d2 for x in b):
                setattr(par, fld, [x for x in b if x is not d2] or [ast.Pass()])
    ast.fix_missing_locations(node)
    for n in ast.walk(node):
        for ch in ast.iter_child_nodes(n):
            ch._parent = n  # type: ignore[attr-defined]
    node._parent = getattr(f.node, "_parent", None)  # type: ignore[attr-defined]
    return Func(f.mod, f.qual, node, f.cls)


def _local_tuples(P: Program, f: Func) -> Func:
    """`x = R(a, b)` with R a NamedTuple of the package (also one the pinned tree has), x bound once and only ever read as `x.<field>`, the arguments plain
    names / fields / constants that are not bound again afterwards: every `x.<field>` is that argument and the record is never built."""
    nts = {}
    for m in P.real_modules():
        for cname, c in m.classes.items():
            if any(isinstance(b, ast.Name) and b.id == "NamedTuple" for b in c.node.bases):
                nts[cname] = [st.target.id for st in c.node.body if isinstance(st, ast.AnnAssign) and isinstance(st.target, ast.Name)]
    cands = [n for n in own_nodes(f.node) if isinstance(n, ast.Assign) and len(n.targets) == 1 and isinstance(n.targets[0], ast.Name) and isinstance(n.value, ast.Call)
             and isinstance(n.value.func, ast.Name) and n.value.func.id in nts]
    if not cands:
        return f
    stores: Dict[str, int] = {}
    for x in own_nodes(f.node):
        if isinstance(x, ast.Name) and isinstance(x.ctx, (ast.Store, ast.Del)):
            stores[x.id] = stores.get(x.id, 0) + 1
    order = source_order(f.node)
    for d in cands:
        x, fields = d.targets[0].id, nts[d.value.func.id]
        call = d.value
        if stores.get(x) != 1 or x in f.params() or len(call.args) > len(fields) or any(k.arg is None or k.arg not in fields for k in call.keywords):
            continue
        vals = dict(zip(fields, call.args))
        vals.update({k.arg: k.value for k in call.keywords})
        if set(vals) != set(fields) or not all(isinstance(v, (ast.Name, ast.Constant)) or norm.attr_chain(v) is not None for v in vals.values()):
            continue
        loads = [n for n in own_nodes(f.node) if isinstance(n, ast.Name) and n.id == x and isinstance(n.ctx, ast.Load)]
        if not loads or not all(isinstance(parent(n), ast.Attribute) and parent(n).value is n and parent(n).attr in fields and isinstance(parent(n).ctx, ast.Load) for n in loads):
            continue
        if any(order.get(id(n), (0, 0))[0] < order.get(id(d), (0, 0))[1] for n in loads):
            continue
        # operands stay what they were: every name they read is bound at most once in the function, or is a loop variable of a loop around the definition
        roots = {y.id for v in vals.values() for y in ast.walk(v) if isinstance(y, ast.Name)}
        around = {t.id for l_ in _loops_around(d, f.node) if isinstance(l_, (ast.For, ast.AsyncFor)) for t in ast.walk(l_.target) if isinstance(t, ast.Name)}
        if any(stores.get(r, 0) > (0 if r in f.params() else 1) and r not in around for r in roots):
            continue
        if any(r in around and any(not any(n is y for l_ in _loops_around(d, f.node) for y in ast.walk(l_)) for n in loads) for r in roots):
            continue
        node = norm.clone(f.node)
        m = {id(a): b for a, b in zip(ast.walk(f.node), ast.walk(node))}
        cd = m[id(d)]
        for n in loads:
            at = m[id(parent(n))]
            new = norm.clone(m[id(vals[at.attr])])
            keep = {k2: getattr(at, k2) for k2 in ("lineno", "col_offset", "end_lineno", "end_col_offset") if hasattr(at, k2)}
            at.__class__ = new.__class__
            at.__dict__.clear()
            at.__dict__.update(new.__dict__)
            at.__dict__.update(keep)
        par = m[id(parent(d))]
        for _fld, blk in _block_lists(par):
            if any(b is cd for b in blk):
                blk[:] = [b for b in blk if b is not cd] or [ast.copy_location(ast.Pass(), cd)]
        ast.fix_missing_locations(node)
        for n in ast.walk(node):
            for ch in ast.iter_child_nodes(n):
                ch._parent = n  # type: ignore[attr-defined]
        node._parent = getattr(f.node, "_parent", None)  # type: ignore[attr-defined]
        return _local_tuples(P, Func(f.mod, f.qual, node, f.cls))
    return f


def _walrus(f: Func) -> Func:
    """`if (x := E) ..:` / `if not (x := E):` / `if (x := E) is None:` (the assignment expression is the first thing the test evaluates) is
    `x = E` followed by the test on x;  `X = [ELT for v in IT if (w := E) TEST]` is the loop `X = []; for v in IT: w = E; if w TEST: X.append(ELT)`."""
    if not any(isinstance(n, ast.NamedExpr) for n in own_nodes(f.node)):
        return f
    node = norm.clone(f.node)
    changed = False

    def first_evaluated(t):
        """the NamedExpr that is evaluated before anything else in test t (as the holder attribute path), else None"""
        if isinstance(t, ast.NamedExpr):
            return t
        if isinstance(t, ast.UnaryOp) and isinstance(t.op, ast.Not):
            return first_evaluated(t.operand)
        if isinstance(t, ast.Compare):
            return first_evaluated(t.left)
        if isinstance(t, ast.BoolOp):
            return first_evaluated(t.values[0])
        return None

    def replace(t, ne):
        for x in ast.walk(t):
            for fld, val in ast.iter_fields(x):
                if val is ne:
                    setattr(x, fld, ast.copy_location(ast.Name(id=ne.target.id, ctx=ast.Load()), ne))
                elif isinstance(val, list):
                    for i_, v_ in enumerate(val):
                        if v_ is ne:
                            val[i_] = ast.copy_location(ast.Name(id=ne.target.id, ctx=ast.Load()), ne)
    for owner in list(ast.walk(node)):
        for fld, blk in _block_lists(owner):
            i = 0
            while i < len(blk):
                st = blk[i]
                if isinstance(st, ast.If):
                    ne = first_evaluated(st.test)
                    if ne is not None and isinstance(ne.target, ast.Name) and sum(1 for x in ast.walk(st.test) if isinstance(x, ast.NamedExpr)) == 1:
                        asg = ast.copy_location(ast.Assign(targets=[ast.Name(id=ne.target.id, ctx=ast.Store())], value=ne.value), st)
                        if st.test is ne:
                            st.test = ast.copy_location(ast.Name(id=ne.target.id, ctx=ast.Load()), ne)
                        else:
                            replace(st.test, ne)
                        blk[i:i] = [asg]
                        changed = True
                        i += 2
                        continue
                if isinstance(st, ast.Assign) and len(st.targets) == 1 and isinstance(st.targets[0], ast.Name) and isinstance(st.value, ast.ListComp) \
                        and len(st.value.generators) == 1 and len(st.value.generators[0].ifs) == 1 and not st.value.generators[0].is_async:
                    gen = st.value.generators[0]
                    ne = first_evaluated(gen.ifs[0])
                    if ne is not None and isinstance(ne.target, ast.Name) and sum(1 for x in ast.walk(st.value) if isinstance(x, ast.NamedExpr)) == 1 \
                            and st.targets[0].id not in {x.id for x in ast.walk(st.value) if isinstance(x, ast.Name)}:
                        X = st.targets[0].id
                        asg = ast.Assign(targets=[ast.Name(id=ne.target.id, ctx=ast.Store())], value=ne.value)
                        test = gen.ifs[0]
                        if test is ne:
                            test = ast.Name(id=ne.target.id, ctx=ast.Load())
                        else:
                            replace(test, ne)
                        app = ast.Expr(value=ast.Call(func=ast.Attribute(value=ast.Name(id=X, ctx=ast.Load()), attr="append", ctx=ast.Load()), args=[st.value.elt], keywords=[]))
                        tgt = gen.target
                        for x in ast.walk(tgt):
                            if isinstance(x, ast.Name):
                                x.ctx = ast.Store()
                        lp = ast.For(target=tgt, iter=gen.iter, body=[asg, ast.If(test=test, body=[app], orelse=[])], orelse=[], type_comment=None)
                        init = ast.Assign(targets=[ast.Name(id=X, ctx=ast.Store())], value=ast.List(elts=[], ctx=ast.Load()))
                        for z in (init, lp):
                            for x in ast.walk(z):
                                if not hasattr(x, "lineno"):
                                    ast.copy_location(x, st)
                        blk[i:i + 1] = [init, lp]
                        changed = True
                        i += 2
                        continue
                i += 1
    if not changed:
        return f
    ast.fix_missing_locations(node)
    for n in ast.walk(node):
        for ch in ast.iter_child_nodes(n):
            ch._parent = n  # type: ignore[attr-defined]
    node._parent = getattr(f.node, "_parent", None)  # type: ignore[attr-defined]
    return Func(f.mod, f.qual, node, f.cls)


def _dict_splat(f: Func) -> Func:
    """`x = {**d, 'k1': v1, ..}` (one leading unpacked mapping named by a plain name or attribute path, then constant keys; no vi reads x) is
    `x = d.copy(); x['k1'] = v1; ..` — the copy-then-store idiom the rules about configuration dicts are stated on."""
    def _is(n):
        return isinstance(n, ast.Assign) and len(n.targets) == 1 and isinstance(n.targets[0], ast.Name) and isinstance(n.value, ast.Dict) \
            and len(n.value.keys) >= 2 and n.value.keys[0] is None and isinstance(n.value.values[0], (ast.Name, ast.Attribute)) \
            and all(isinstance(k, ast.Constant) for k in n.value.keys[1:]) \
            and not any(isinstance(x, ast.Name) and x.id == n.targets[0].id for v in n.value.values for x in ast.walk(v)) \
            and not any(isinstance(x, (ast.NamedExpr, ast.Yield, ast.YieldFrom, ast.Await)) for x in ast.walk(n.value))
    if not any(_is(n) for n in own_nodes(f.node)):
        return f
    node = norm.clone(f.node)
    for owner in list(ast.walk(node)):
        for _fld, blk in _block_lists(owner):
            i = 0
            while i < len(blk):
                st = blk[i]
                if _is(st):
                    x = st.targets[0].id
                    new = [ast.Assign(targets=[ast.Name(id=x, ctx=ast.Store())],
                                      value=ast.Call(func=ast.Attribute(value=st.value.values[0], attr="copy", ctx=ast.Load()), args=[], keywords=[]))]
                    for k, v in zip(st.value.keys[1:], st.value.values[1:]):
                        new.append(ast.Assign(targets=[ast.Subscript(value=ast.Name(id=x, ctx=ast.Load()), slice=k, ctx=ast.Store())], value=v))
                    for z in new:
                        for y in ast.walk(z):
                            if not hasattr(y, "lineno"):
                                ast.copy_location(y, st)
                    blk[i:i + 1] = new
                    i += len(new)
                    continue
                i += 1
    ast.fix_missing_locations(node)
    for n in ast.walk(node):
        for ch in ast.iter_child_nodes(n):
            ch._parent = n  # type: ignore[attr-defined]
    node._parent = getattr(f.node, "_parent", None)  # type: ignore[attr-defined]
    return Func(f.mod, f.qual, node, f.cls)


def _plain_assignments(f: Func) -> Func:
    """`x: T = e` on a local name is `x = e` for the rules (a bare `x: T` declares nothing at run time and is dropped)."""
    def _pair(n):
        return isinstance(n, ast.Assign) and len(n.targets) == 1 and isinstance(n.targets[0], ast.Tuple) and isinstance(n.value, ast.Tuple) \
            and len(n.targets[0].elts) == len(n.value.elts) and all(isinstance(t, ast.Name) for t in n.targets[0].elts) \
            and not any(isinstance(e, ast.Starred) for e in n.value.elts) \
            and not ({t.id for t in n.targets[0].elts} & {x.id for e in n.value.elts for x in ast.walk(e) if isinstance(x, ast.Name)}) \
            and len({t.id for t in n.targets[0].elts}) == len(n.targets[0].elts)
    if not any((isinstance(n, ast.AnnAssign) and isinstance(n.target, ast.Name)) or _pair(n) for n in own_nodes(f.node)):
        return f
    node = norm.clone(f.node) if not getattr(f.node, "_is_view_copy", False) else f.node
    # `a, b = (e1, e2)` where no ei reads a target: `a = e1; b = e2`
    for owner in list(ast.walk(node)):
        for _fld, blk in _block_lists(owner):
            k_ = 0
            while k_ < len(blk):
                st_ = blk[k_]
                if _pair(st_):
                    new_ = [ast.copy_location(ast.Assign(targets=[t], value=v), st_) for t, v in zip(st_.targets[0].elts, st_.value.elts)]
                    blk[k_:k_ + 1] = new_
                    k_ += len(new_)
                    continue
                k_ += 1

    class T(ast.NodeTransformer):
        def visit_AnnAssign(self, n: ast.AnnAssign):
            if isinstance(n.target, ast.Name):
                if n.value is None:
                    return ast.copy_location(ast.Pass(), n)
                return ast.copy_location(ast.Assign(targets=[n.target], value=n.value), n)
            return n

        def visit_FunctionDef(self, n):
            return n if n is not node else self.generic_visit(n)

        def visit_Lambda(self, n):
            return n

        def visit_ClassDef(self, n):
            return n
    node = T().visit(node)
    ast.fix_missing_locations(node)
    for n in ast.walk(node):
        for ch in ast.iter_child_nodes(n):
            ch._parent = n  # type: ignore[attr-defined]
    node._parent = getattr(f.node, "_parent", None)  # type: ignore[attr-defined]
    return Func(f.mod, f.qual, node, f.cls)


def _merge_branch_yields(stmts: List[ast.stmt], var: str) -> List[ast.stmt]:
    """`if c: yield A  else: yield B`  (every branch of the case split ends with a yield, there are at least two)  ->  `if c: v = A else: v = B; yield v`:
    one place where the value is handed over, so the consumer's loop body is written out once and not once per branch"""
    def leaves(st) -> Optional[List[List[ast.stmt]]]:
        if not (isinstance(st, ast.If) and st.orelse):
            return None
        out = []
        for br in (st.body, st.orelse):
            last = br[-1]
            if isinstance(last, ast.Expr) and isinstance(last.value, ast.Yield) and last.value.value is not None:
                out.append(br)
            else:
                sub = leaves(last)
                if sub is None:
                    return None
                out.extend(sub)
        return out
    res: List[ast.stmt] = []
    for st in stmts:
        lv = leaves(st)
        if lv is not None and len(lv) >= 2 and not any(isinstance(x, (ast.Yield, ast.YieldFrom)) for br in lv for z in br[:-1] for x in ast.walk(z)):
            for br in lv:
                y = br[-1]
                br[-1] = ast.copy_location(ast.Assign(targets=[ast.copy_location(ast.Name(id=var, ctx=ast.Store()), y)], value=y.value.value), y)
            res.append(st)
            res.append(ast.copy_location(ast.Expr(value=ast.copy_location(ast.Yield(value=ast.copy_location(ast.Name(id=var, ctx=ast.Load()), st)), st)), st))
            continue
        for fld in ("body", "orelse", "finalbody"):
            b = getattr(st, fld, None)
            if isinstance(b, list) and b and isinstance(b[0], ast.stmt):
                setattr(st, fld, _merge_branch_yields(b, var))
        res.append(st)
    return res


def _bounded_generator(body: List[ast.stmt], tag: str, acc: str, n: ast.expr) -> bool:
    """see the islice case of the materialisation; rewrites the loop test in place when the shape fits"""
    if not body or not isinstance(body[-1], ast.While) or body[-1].orelse:
        return False
    w = body[-1]
    suffix = f"__{tag}"

    def local_target(t) -> bool:
        while isinstance(t, (ast.Subscript, ast.Attribute)):
            t = t.value
        return isinstance(t, ast.Name) and t.id.endswith(suffix)

    def quiet(st) -> bool:
        """binds generator locals only, calls nothing that could be observed"""
        if not isinstance(st, (ast.Assign, ast.AugAssign, ast.AnnAssign)):
            return False
        tg = st.targets if isinstance(st, ast.Assign) else [st.target]
        if not all(isinstance(t, ast.Name) and t.id.endswith(suffix) or (isinstance(t, ast.Subscript) and local_target(t)) for t in tg):
            return False
        return all(_pure_call(c) or norm.call_name(c) == "iter" for c in ast.walk(st) if isinstance(c, ast.Call))
    if any(isinstance(x, (ast.Yield, ast.YieldFrom)) for s_ in body[:-1] for x in ast.walk(s_)) or not all(quiet(s_) for s_ in body[:-1]):
        return False
    ys = [x for x in ast.walk(w) if isinstance(x, (ast.Yield, ast.YieldFrom))]
    if len(ys) != 1 or isinstance(ys[0], ast.YieldFrom):
        return False
    # the yield is not inside a nested loop, and what follows its top-level statement in the iteration is quiet
    top = None
    for i, s_ in enumerate(w.body):
        if any(x is ys[0] for x in ast.walk(s_)):
            top = i
    if top is None:
        return False
    holder = w.body[top]
    for x in ast.walk(holder):
        if isinstance(x, (ast.For, ast.While, ast.AsyncFor)) and any(y is ys[0] for y in ast.walk(x)):
            return False
    if any(isinstance(x, (ast.Break, ast.Return)) for x in ast.walk(w)):
        return False

    def after_yield_quiet(stmts) -> bool:
        """in the statement list that (transitively) holds the yield: everything after it is quiet"""
        for i, s_ in enumerate(stmts):
            if isinstance(s_, ast.Expr) and s_.value is ys[0]:
                return all(quiet(z) for z in stmts[i + 1:])
            if any(x is ys[0] for x in ast.walk(s_)):
                for fld in ("body", "orelse", "finalbody"):
                    b_ = getattr(s_, fld, None)
                    if isinstance(b_, list) and any(x is ys[0] for z in b_ for x in ast.walk(z)):
                        if not after_yield_quiet(b_):
                            return False
                return all(quiet(z) for z in stmts[i + 1:])
        return True
    if not after_yield_quiet(w.body):
        return False
    bound = ast.Compare(left=ast.Call(func=ast.Name(id="len", ctx=ast.Load()), args=[ast.Name(id=acc, ctx=ast.Load())], keywords=[]), ops=[ast.Lt()], comparators=[norm.clone(n)])
    w.test = ast.copy_location(ast.BoolOp(op=ast.And(), values=[bound, w.test]), w.test)
    ast.fix_missing_locations(w)
    return True


def _inline_helpers(P: Program, f: Func, depth: int = 2) -> Func:
    """A copy of f in which statement-level calls of single-use private helpers are replaced by the helper's body.
    Recognised call positions:  `self._m(...)` / `_f(...)` as a statement,  `x = <call>`,  `return <call>`."""
    changed_any = False
    node = norm.clone(f.node)
    counter = [0]

    def expand(stmts: List[ast.stmt], d: int) -> List[ast.stmt]:
        nonlocal changed_any
        out: List[ast.stmt] = []
        queue = list(stmts)
        while queue:
            st = queue.pop(0)
            # return [helper(v) for v in it]   ==   acc = [helper(v) for v in it]; return acc
            if d > 0 and isinstance(st, ast.Return) and isinstance(st.value, ast.ListComp) and len(st.value.generators) == 1 and not st.value.generators[0].is_async \
                    and any(isinstance(x, ast.Call) and _inlinable(P, f, x) is not None for x in ast.walk(st.value.elt)):
                counter[0] += 1
                accn = f"listed__i{counter[0]}"
                a_ = ast.copy_location(ast.Assign(targets=[ast.Name(id=accn, ctx=ast.Store())], value=st.value), st)
                r_ = ast.copy_location(ast.Return(value=ast.Name(id=accn, ctx=ast.Load())), st)
                for x in list(ast.walk(a_)) + list(ast.walk(r_)):
                    if not hasattr(x, "lineno"):
                        ast.copy_location(x, st)
                queue[:0] = [a_, r_]
                changed_any = True
                continue
            # X = [helper(v) for v in it]   ==   X = []; for v in it: X.append(helper(v))      (only when there is a helper to look into)
            if d > 0 and isinstance(st, ast.Assign) and len(st.targets) == 1 and isinstance(st.targets[0], ast.Name) and isinstance(st.value, ast.ListComp) \
                    and len(st.value.generators) == 1 and not st.value.generators[0].is_async \
                    and any(isinstance(x, ast.Call) and _inlinable(P, f, x) is not None for x in ast.walk(st.value.elt)) \
                    and st.targets[0].id not in norm.names_in(st.value):
                gen = st.value.generators[0]
                body: List[ast.stmt] = [ast.Expr(value=ast.Call(func=ast.Attribute(value=ast.Name(id=st.targets[0].id, ctx=ast.Load()), attr="append", ctx=ast.Load()),
                                                               args=[st.value.elt], keywords=[]))]
                for c_ in reversed(gen.ifs):
                    body = [ast.If(test=c_, body=body, orelse=[])]
                tgt = norm.clone(gen.target)
                for x in ast.walk(tgt):
                    if isinstance(x, ast.Name):
                        x.ctx = ast.Store()
                init = ast.Assign(targets=[st.targets[0]], value=ast.List(elts=[], ctx=ast.Load()))
                lp_ = ast.For(target=tgt, iter=gen.iter, body=body, orelse=[], type_comment=None)
                for x in list(ast.walk(init)) + list(ast.walk(lp_)):
                    if not hasattr(x, "lineno"):
                        ast.copy_location(x, st)
                ast.copy_location(init, st)
                ast.copy_location(lp_, st)
                queue[:0] = [init, lp_]
                changed_any = True
                continue
            # with helper(..) as X: BODY   where helper is a new @contextmanager generator `PRE; yield E; POST` (one yield): the helper's body with
            # `X = E; BODY` where the yield stands (an exception in BODY is re-raised at the yield, inside whatever `with` / `try` surrounds it there)
            if d > 0 and isinstance(st, ast.With) and len(st.items) == 1 and isinstance(st.items[0].context_expr, ast.Call) and isinstance(st.items[0].context_expr.func, ast.Name) \
                    and (st.items[0].optional_vars is None or isinstance(st.items[0].optional_vars, ast.Name)):
                cm_call = st.items[0].context_expr
                cands = [t_ for t_ in ([f.mod.funcs[cm_call.func.id]] if cm_call.func.id in f.mod.funcs else _new_public_defs(P)[1].get(cm_call.func.id, []))]
                tcm = cands[0] if len(cands) == 1 else None
                if tcm is not None and (tcm.name.startswith("_") or tcm.name not in pinned_public_names()) \
                        and [norm.U(d_).split(".")[-1] for d_ in tcm.decorators()] == ["contextmanager"] and not cm_call.keywords or False:
                    ys_ = [x for x in own_nodes(tcm.node) if isinstance(x, (ast.Yield, ast.YieldFrom))]
                    if len(ys_) == 1 and isinstance(ys_[0], ast.Yield) and isinstance(parent(ys_[0]), ast.Expr) and not any(isinstance(x, ast.Return) for x in own_nodes(tcm.node)) \
                            and len(tcm.params()) == len(cm_call.args):
                        counter[0] += 1
                        cbody, _r = _instantiate(tcm, cm_call, f"i{counter[0]}")
                        done = [False]

                        def at_cm_yield(stmts_):
                            res = []
                            for s_ in stmts_:
                                if isinstance(s_, ast.Expr) and isinstance(s_.value, ast.Yield):
                                    if st.items[0].optional_vars is not None:
                                        res.append(ast.copy_location(ast.Assign(targets=[norm.clone(st.items[0].optional_vars)],
                                                                                value=s_.value.value if s_.value.value is not None else ast.Constant(None)), st))
                                    res.extend(st.body)
                                    done[0] = True
                                    continue
                                for fld_ in ("body", "orelse", "finalbody"):
                                    b_ = getattr(s_, fld_, None)
                                    if isinstance(b_, list) and b_ and isinstance(b_[0], ast.stmt):
                                        setattr(s_, fld_, at_cm_yield(b_))
                                if isinstance(s_, ast.Try):
                                    for h_ in s_.handlers:
                                        h_.body = at_cm_yield(h_.body)
                                res.append(s_)
                            return res
                        merged = at_cm_yield(cbody)
                        if done[0]:
                            for x in merged:
                                for y in ast.walk(x):
                                    if not hasattr(y, "lineno"):
                                        ast.copy_location(y, st)
                            queue[:0] = merged
                            changed_any = True
                            continue
            # X = sorted(gen(..), key=..) / list(gen(..)) / sum(gen(..)) ...: a generator helper that is consumed completely, on the spot, by a
            # builtin is the list of what it yields:  acc = []; <body of gen with `yield v` -> acc.append(v)>; X = sorted(acc, key=..)
            sliced = None
            if d > 0 and isinstance(st, (ast.Expr, ast.Return, ast.Assign)) and isinstance(st.value, ast.Call) and isinstance(st.value.func, ast.Name) \
                    and st.value.func.id in ("sorted", "list", "tuple", "set", "frozenset", "sum", "max", "min") and st.value.args \
                    and isinstance(st.value.args[0], ast.Call) and norm.call_name(st.value.args[0]) == "islice" and len(st.value.args[0].args) == 2 and not st.value.args[0].keywords \
                    and isinstance(st.value.args[0].args[0], ast.Call) and isinstance(st.value.args[0].args[1], (ast.Name, ast.Constant)) \
                    and _inlinable(P, f, st.value.args[0].args[0], allow_yield=True) is not None:
                sliced = st.value.args[0]          # list(islice(gen(..), n)): the first n of what gen yields (see below)
            if d > 0 and isinstance(st, (ast.Expr, ast.Return, ast.Assign)) and isinstance(st.value, ast.Call) and isinstance(st.value.func, ast.Name) \
                    and st.value.func.id in ("sorted", "list", "tuple", "set", "frozenset", "sum", "max", "min") and st.value.args \
                    and isinstance(st.value.args[0], ast.Call) and (sliced is not None or _inlinable(P, f, st.value.args[0], allow_yield=True) is not None):
                hc = st.value.args[0] if sliced is None else sliced.args[0]
                t2 = _inlinable(P, f, hc, allow_yield=True)
                counter[0] += 1
                tag = f"i{counter[0]}"
                body2, _ret = _instantiate(t2, hc, tag)
                acc = f"yielded__{tag}"
                okm = True
                if sliced is not None:
                    # islice(gen, n) stops the generator right after its n-th yield.  When the generator is `PRELUDE; while T: BODY` with one yield per
                    # iteration, a PRELUDE that only builds locals, and nothing but updates of the generator's own locals after the yield, that is
                    # `while len(acc) < n and T: BODY` — the rest of the last iteration only changes state that is thrown away with the generator.
                    okm = _bounded_generator(body2, tag, acc, sliced.args[1])

                def to_append(stmts_):
                    nonlocal okm
                    res = []
                    for s_ in stmts_:
                        if isinstance(s_, ast.Expr) and isinstance(s_.value, ast.Yield):
                            v_ = s_.value.value if s_.value.value is not None else ast.Constant(None)
                            res.append(ast.copy_location(ast.Expr(value=ast.Call(func=ast.Attribute(value=ast.Name(id=acc, ctx=ast.Load()), attr="append", ctx=ast.Load()),
                                                                                 args=[v_], keywords=[])), s_))
                            continue
                        if any(isinstance(x, (ast.Yield, ast.YieldFrom)) for x in ast.walk(s_)) and not any(isinstance(s_, t) for t in (ast.If, ast.For, ast.While, ast.With, ast.Try)):
                            okm = False
                        for fld in ("body", "orelse", "finalbody"):
                            b_ = getattr(s_, fld, None)
                            if isinstance(b_, list) and b_ and isinstance(b_[0], ast.stmt):
                                setattr(s_, fld, to_append(b_))
                        if isinstance(s_, ast.Try):
                            for h_ in s_.handlers:
                                h_.body = to_append(h_.body)
                        if isinstance(s_, ast.Return):
                            okm = False
                        res.append(s_)
                    return res
                body3 = to_append(body2)
                if okm:
                    init = ast.copy_location(ast.Assign(targets=[ast.Name(id=acc, ctx=ast.Store())], value=ast.List(elts=[], ctx=ast.Load())), st)
                    body3 = expand(body3, d - 1)
                    for b in [init] + body3:
                        for x in ast.walk(b):
                            if not hasattr(x, "lineno"):
                                ast.copy_location(x, st)
                    out.append(init)
                    out.extend(body3)
                    st.value.args[0] = ast.copy_location(ast.Name(id=acc, ctx=ast.Load()), hc)
                    queue.insert(0, st)
                    changed_any = True
                    continue
                elif sliced is not None:
                    out.append(st)
                    continue
            # recv.m(a, helper(..), b): the helper runs before the outer call; its body may be placed before the statement when
            # everything evaluated before it is a plain name / attribute / constant
            if d > 0 and isinstance(st, (ast.Expr, ast.Return, ast.Assign)) and isinstance(st.value, ast.Call) and _inlinable(P, f, st.value) is None \
                    and norm.attr_chain(st.value.func) is not None and not st.value.keywords \
                    and (not isinstance(st, ast.Assign) or (len(st.targets) == 1 and isinstance(st.targets[0], ast.Name))):
                idx = [i_ for i_, a_ in enumerate(st.value.args) if isinstance(a_, ast.Call) and _inlinable(P, f, a_) is not None]
                if len(idx) == 1 and all(isinstance(a_, (ast.Name, ast.Constant)) or norm.attr_chain(a_) is not None for a_ in st.value.args[:idx[0]]):
                    hc = st.value.args[idx[0]]
                    t2 = _inlinable(P, f, hc)
                    counter[0] += 1
                    body2, ret2 = _instantiate(t2, hc, f"i{counter[0]}")
                    if ret2 is not None:
                        body2 = expand(body2, d - 1)
                        for b in body2:
                            ast.copy_location(b, b if hasattr(b, "lineno") else st)
                        out.extend(body2)
                        st.value.args[idx[0]] = ret2
                        out.append(st)
                        changed_any = True
                        continue
                # the same one level down:  recv.m((helper(..), x))  — the elements of the display are evaluated in order, the helper first
                if not idx and len(st.value.args) == 1 and isinstance(st.value.args[0], (ast.Tuple, ast.List)):
                    disp = st.value.args[0]
                    jdx = [j_ for j_, e_ in enumerate(disp.elts) if isinstance(e_, ast.Call) and _inlinable(P, f, e_) is not None]
                    if len(jdx) == 1 and all(isinstance(e_, (ast.Name, ast.Constant)) or norm.attr_chain(e_) is not None for e_ in disp.elts[:jdx[0]]) \
                            and not any(isinstance(x, ast.Call) for e_ in disp.elts[jdx[0] + 1:] for x in ast.walk(e_)):
                        hc = disp.elts[jdx[0]]
                        t2 = _inlinable(P, f, hc)
                        counter[0] += 1
                        body2, ret2 = _instantiate(t2, hc, f"i{counter[0]}")
                        if ret2 is not None:
                            body2 = expand(body2, d - 1)
                            for b in body2:
                                ast.copy_location(b, b if hasattr(b, "lineno") else st)
                            out.extend(body2)
                            disp.elts[jdx[0]] = ret2
                            out.append(st)
                            changed_any = True
                            continue
            call = None
            kind = None
            if isinstance(st, ast.Expr) and isinstance(st.value, ast.Call):
                call, kind = st.value, "expr"
            elif isinstance(st, ast.Assign) and len(st.targets) == 1 and isinstance(st.value, ast.Call):
                call, kind = st.value, "assign"
            elif isinstance(st, ast.Return) and isinstance(st.value, ast.Call):
                call, kind = st.value, "return"
            elif isinstance(st, ast.Expr) and isinstance(st.value, ast.Yield) and isinstance(st.value.value, ast.Call):
                call, kind = st.value.value, "yield"
            elif isinstance(st, ast.Expr) and isinstance(st.value, ast.YieldFrom) and isinstance(st.value.value, ast.Call) and d > 0 \
                    and _inlinable(P, f, st.value.value, allow_yield=True) is not None:
                # `yield from self._sub_generator(..)` used as a statement: the sub-generator's body runs right here, its yields are ours
                tg_ = _inlinable(P, f, st.value.value, allow_yield=True)
                counter[0] += 1
                body_, _ret = _instantiate(tg_, st.value.value, f"i{counter[0]}")
                body_ = expand(body_, d - 1)
                for b in body_:
                    ast.copy_location(b, b if hasattr(b, "lineno") else st)
                out.extend(body_)
                changed_any = True
                continue
            target = _inlinable(P, f, call) if (call is not None and d > 0) else None
            if target is not None:
                counter[0] += 1
                body, ret = _instantiate(target, call, f"i{counter[0]}")
                body = expand(body, d - 1)
                for b in body:
                    ast.copy_location(b, b if hasattr(b, "lineno") else st)
                out.extend(body)
                if kind == "assign" and isinstance(st.targets[0], ast.Name) and isinstance(ret, ast.Name) and ret.id.endswith(f"__i{counter[0]}") \
                        and not any(isinstance(x, ast.Name) and x.id == st.targets[0].id for a_ in list(call.args) + [k.value for k in call.keywords] for x in ast.walk(a_)):
                    # `x = helper()` where the helper returns one of its own locals: that local *is* x from now on (no alias statement)
                    for b in body:
                        for x in ast.walk(b):
                            if isinstance(x, ast.Name) and x.id == ret.id:
                                x.id = st.targets[0].id
                elif kind == "assign" and isinstance(st.targets[0], ast.Tuple) and isinstance(ret, ast.Tuple) and len(ret.elts) == len(st.targets[0].elts) \
                        and all(isinstance(t_, ast.Name) for t_ in st.targets[0].elts) and all(isinstance(r_, ast.Name) and r_.id.endswith(f"__i{counter[0]}") for r_ in ret.elts) \
                        and len({r_.id for r_ in ret.elts}) == len(ret.elts) and len({t_.id for t_ in st.targets[0].elts}) == len(ret.elts) \
                        and not any(isinstance(x, ast.Name) and x.id in {t_.id for t_ in st.targets[0].elts} for a_ in list(call.args) + [k.value for k in call.keywords] for x in ast.walk(a_)):
                    # `a, b = helper()` where the helper returns a tuple of its own locals: those locals *are* a and b from now on
                    ren = {r_.id: t_.id for r_, t_ in zip(ret.elts, st.targets[0].elts)}
                    for b in body:
                        for x in ast.walk(b):
                            if isinstance(x, ast.Name) and x.id in ren:
                                x.id = ren[x.id]
                elif kind == "assign":
                    out.append(ast.copy_location(ast.Assign(targets=st.targets, value=ret if ret is not None else ast.Constant(None)), st))
                elif kind == "return":
                    out.append(ast.copy_location(ast.Return(value=ret), st))
                elif kind == "yield":
                    out.append(ast.copy_location(ast.Expr(value=ast.copy_location(ast.Yield(value=ret), st)), st))
                changed_any = True
                continue
            # X.writerows(G)  ==  for r in G: X.writerow(r)      (csv writers write each row as it is pulled from the iterable)
            if d > 0 and isinstance(st, ast.Expr) and isinstance(st.value, ast.Call) and isinstance(st.value.func, ast.Attribute) and st.value.func.attr == "writerows" \
                    and len(st.value.args) == 1 and not st.value.keywords and isinstance(st.value.args[0], ast.Call) \
                    and _inlinable(P, f, st.value.args[0], allow_yield=True) is not None:
                counter[0] += 1
                rv = f"row__w{counter[0]}"
                wr = ast.Expr(value=ast.Call(func=ast.Attribute(value=st.value.func.value, attr="writerow", ctx=ast.Load()), args=[ast.Name(id=rv, ctx=ast.Load())], keywords=[]))
                lp_ = ast.For(target=ast.Name(id=rv, ctx=ast.Store()), iter=st.value.args[0], body=[wr], orelse=[], type_comment=None)
                for x in ast.walk(lp_):
                    if not hasattr(x, "lineno"):
                        ast.copy_location(x, st)
                ast.copy_location(lp_, st)
                queue.insert(0, lp_)
                changed_any = True
                continue
            # for X in gen_helper(..): BODY   (optionally enumerate(gen_helper(..), start=k)):  the helper's body with every `yield E` replaced by
            # `X = E; BODY` — the consumer runs once per value produced, at the point where it is produced
            if d > 0 and isinstance(st, ast.For) and not st.orelse and isinstance(st.iter, ast.Call):
                it = st.iter
                enum_start = None
                cnt_name = None
                val_target = st.target
                if isinstance(it.func, ast.Name) and it.func.id == "enumerate" and it.args and isinstance(it.args[0], ast.Call) and isinstance(st.target, ast.Tuple) and len(st.target.elts) == 2 \
                        and isinstance(st.target.elts[0], ast.Name):
                    sv = it.args[1] if len(it.args) > 1 else norm.kwarg(it, "start")
                    if sv is None or (isinstance(sv, ast.Constant) and isinstance(sv.value, int)):
                        enum_start = sv.value if sv is not None else 0
                        cnt_name = st.target.elts[0].id
                        val_target = st.target.elts[1]
                        it = it.args[0]
                tgen = _inlinable(P, f, it, allow_yield=True) if isinstance(it, ast.Call) else None
                body_ok = not _has_loop_jump(st.body)      # no break / continue of the loop itself (a `return` leaves the function either way: the generator is dropped)
                if tgen is not None and body_ok and (enum_start is not None or st.target is val_target) \
                        and not any(isinstance(x, ast.YieldFrom) or (isinstance(x, ast.Yield) and not isinstance(parent(x), ast.Expr)) for x in own_nodes(tgen.node)):
                    counter[0] += 1
                    gbody, _r = _instantiate(tgen, it, f"i{counter[0]}")
                    gbody = _merge_branch_yields(gbody, f"yielded__i{counter[0]}")
                    renames = {}

                    def at_yield(stmts_: List[ast.stmt]) -> List[ast.stmt]:
                        res: List[ast.stmt] = []
                        for s_ in stmts_:
                            if isinstance(s_, ast.Expr) and isinstance(s_.value, ast.Yield):
                                if cnt_name is not None:
                                    res.append(ast.copy_location(ast.AugAssign(target=ast.Name(id=cnt_name, ctx=ast.Store()), op=ast.Add(), value=ast.Constant(1)), s_))
                                yv = s_.value.value
                                tnames = [t_.id for t_ in val_target.elts] if isinstance(val_target, ast.Tuple) and all(isinstance(t_, ast.Name) for t_ in val_target.elts) \
                                    else ([val_target.id] if isinstance(val_target, ast.Name) else None)
                                ynames = [y_.id for y_ in yv.elts] if isinstance(yv, ast.Tuple) and all(isinstance(y_, ast.Name) for y_ in yv.elts) \
                                    else ([yv.id] if isinstance(yv, ast.Name) else None)
                                suffix = f"__i{counter[0]}"
                                if tnames and ynames and len(tnames) == len(ynames) and all(y_.endswith(suffix) for y_ in ynames) and len(set(ynames)) == len(ynames) \
                                        and all(renames.get(y_, t_) == t_ for y_, t_ in zip(ynames, tnames)):
                                    # the generator yields its own locals: they *are* the loop variables of the consumer
                                    renames.update(dict(zip(ynames, tnames)))
                                else:
                                    tg_ = norm.clone(val_target)
                                    res.append(ast.copy_location(ast.Assign(targets=[tg_], value=yv if yv is not None else ast.Constant(None)), s_))
                                res.extend(norm.clone(b) for b in st.body)
                                continue
                            for fld_ in ("body", "orelse", "finalbody"):
                                b_ = getattr(s_, fld_, None)
                                if isinstance(b_, list) and b_ and isinstance(b_[0], ast.stmt):
                                    setattr(s_, fld_, at_yield(b_))
                            if isinstance(s_, ast.Try):
                                for h_ in s_.handlers:
                                    h_.body = at_yield(h_.body)
                            res.append(s_)
                        return res
                    fused = at_yield(gbody)
                    for x in fused:
                        for y in ast.walk(x):
                            if isinstance(y, ast.Name) and y.id in renames:
                                y.id = renames[y.id]
                    pre = []
                    if cnt_name is not None:
                        pre.append(ast.copy_location(ast.Assign(targets=[ast.Name(id=cnt_name, ctx=ast.Store())], value=ast.Constant(enum_start - 1)), st))
                    for x in pre + fused:
                        for y in ast.walk(x):
                            if not hasattr(y, "lineno"):
                                ast.copy_location(y, st)
                    queue[:0] = pre + fused
                    changed_any = True
                    continue
            # `for x in helper(...)` / `if helper(...)`: the call is evaluated exactly once, before the statement
            pos = "iter" if isinstance(st, ast.For) else ("test" if isinstance(st, ast.If) else None)
            if pos and isinstance(getattr(st, pos), ast.Call) and d > 0:
                t2 = _inlinable(P, f, getattr(st, pos))
                if t2 is not None:
                    counter[0] += 1
                    body, ret = _instantiate(t2, getattr(st, pos), f"i{counter[0]}")
                    if ret is not None:
                        body = expand(body, d - 1)
                        for b in body:
                            ast.copy_location(b, b if hasattr(b, "lineno") else st)
                        out.extend(body)
                        setattr(st, pos, ret)
                        changed_any = True
            for fld in ("body", "orelse", "finalbody"):
                b = getattr(st, fld, None)
                if isinstance(b, list) and b and isinstance(b[0], ast.stmt):
                    setattr(st, fld, expand(b, d))
            if isinstance(st, ast.Try):
                for h in st.handlers:
                    h.body = expand(h.body, d)
            out.append(st)
        return out

    node.body = expand(node.body, depth)
    if not changed_any:
        return f
    ast.fix_missing_locations(node)
    for n in ast.walk(node):
        for ch in ast.iter_child_nodes(n):
            ch._parent = n  # type: ignore[attr-defined]
    node._parent = getattr(f.node, "_parent", None)  # type: ignore[attr-defined]
    g = Func(f.mod, f.qual, node, f.cls)
    g.inlined = True  # type: ignore[attr-defined]
    return g


def private_closure(P: Program, f: Func, depth: int = 3) -> Set[str]:
    """Qualified names of f and of the single-use private helpers it (transitively) inlines."""
    out = {f.qual}
    work = [(f, depth)]
    cand: Dict[str, Func] = {}
    while work:
        g, d = work.pop()
        if d <= 0:
            continue
        for c in own_nodes(g.node):
            if isinstance(c, ast.Call):
                t = _inlinable(P, g, c) or (_inlinable(P, g, c, allow_yield=True) if isinstance(parent(c), ast.YieldFrom) else None)
                if t is not None and t.qual not in out:
                    out.add(t.qual)
                    cand[t.qual] = t
                    work.append((t, d - 1))
    # a helper belongs to the closure only if every call site of it in the package lies inside the closure
    changed = True
    while changed:
        changed = False
        for q, t in list(cand.items()):
            if q not in out:
                continue
            for m in P.real_modules():
                for g in m.funcs.values():
                    if g.qual in out and g.mod is t.mod:
                        continue
                    if any(isinstance(x, ast.Call) and norm.call_name(x) == t.name for x in own_nodes(g.node)):
                        out.discard(q)
                        changed = True
    return out


# ---------------------------------------------------------------------------------------------------------------------
# `xs.extend(e for v in it)`  ==  `for v in it: xs.append(e)`   (same elements, same order, same evaluation order)

_DESUGAR_CACHE: Dict = {}


def desugar_extend(f: Func, lists: bool = False) -> Func:
    """A copy of f in which statement-level `X.extend(<one-generator comprehension>)` (and `X += [<comprehension>]`) is written
    as the element-wise loop it abbreviates; f itself if there is nothing to rewrite."""
    k = (id(f.node), lists)
    if k in _DESUGAR_CACHE and _DESUGAR_CACHE[k][0] is f.node:
        return _DESUGAR_CACHE[k][1]
    node = norm.clone(f.node)
    changed = False

    def loop_of(recv: ast.expr, comp, st: ast.stmt) -> Optional[ast.stmt]:
        if not (isinstance(comp, (ast.GeneratorExp, ast.ListComp)) and len(comp.generators) == 1 and not comp.generators[0].is_async):
            return None
        gen = comp.generators[0]
        body: List[ast.stmt] = [ast.Expr(value=ast.Call(func=ast.Attribute(value=norm.clone(recv), attr="append", ctx=ast.Load()), args=[comp.elt], keywords=[]))]
        for c in reversed(gen.ifs):
            body = [ast.If(test=c, body=body, orelse=[])]
        lp = ast.For(target=gen.target, iter=gen.iter, body=body, orelse=[], type_comment=None)
        for x in ast.walk(lp):
            ast.copy_location(x, st)
        for x in ast.walk(lp.target):
            if isinstance(x, ast.Name):
                x.ctx = ast.Store()
        return lp

    def rewrite(stmts: List[ast.stmt]) -> List[ast.stmt]:
        nonlocal changed
        out = []
        for st in stmts:
            new = None
            if isinstance(st, ast.Expr) and isinstance(st.value, ast.Call) and isinstance(st.value.func, ast.Attribute) and st.value.func.attr == "extend" \
                    and len(st.value.args) == 1 and not st.value.keywords and isinstance(st.value.func.value, (ast.Name, ast.Attribute)):
                new = loop_of(st.value.func.value, st.value.args[0], st)
            elif isinstance(st, ast.AugAssign) and isinstance(st.op, ast.Add) and isinstance(st.target, (ast.Name, ast.Attribute)) and isinstance(st.value, ast.ListComp):
                new = loop_of(st.target, st.value, st)
            elif isinstance(st, ast.Assign) and len(st.targets) == 1 and isinstance(st.targets[0], ast.Name) and isinstance(st.value, ast.DictComp) \
                    and len(st.value.generators) == 1 and not st.value.generators[0].is_async and st.targets[0].id not in norm.names_in(st.value):
                # D = {k: v for i in it}   ==   D = {}; for i in it: D[k] = v
                gen = st.value.generators[0]
                store = ast.Assign(targets=[ast.Subscript(value=ast.Name(id=st.targets[0].id, ctx=ast.Load()), slice=st.value.key, ctx=ast.Store())], value=st.value.value)
                body: List[ast.stmt] = [store]
                for c in reversed(gen.ifs):
                    body = [ast.If(test=c, body=body, orelse=[])]
                tgt = norm.clone(gen.target)
                for x in ast.walk(tgt):
                    if isinstance(x, ast.Name):
                        x.ctx = ast.Store()
                init = ast.Assign(targets=[st.targets[0]], value=ast.Dict(keys=[], values=[]))
                lp2 = ast.For(target=tgt, iter=gen.iter, body=body, orelse=[], type_comment=None)
                for x in list(ast.walk(init)) + list(ast.walk(lp2)):
                    if not hasattr(x, "lineno"):
                        ast.copy_location(x, st)
                changed = True
                out.extend([init, lp2])
                continue
            elif lists and isinstance(st, ast.Assign) and len(st.targets) == 1 and isinstance(st.targets[0], ast.Name) and isinstance(st.value, ast.ListComp) \
                    and len(st.value.generators) == 1 and st.targets[0].id not in norm.names_in(st.value):
                # X = [e for v in it]   ==   X = []; for v in it: X.append(e)
                lp3 = loop_of(ast.Name(id=st.targets[0].id, ctx=ast.Load()), st.value, st)
                if lp3 is not None:
                    init = ast.copy_location(ast.Assign(targets=[st.targets[0]], value=ast.copy_location(ast.List(elts=[], ctx=ast.Load()), st)), st)
                    changed = True
                    out.extend([init, lp3])
                    continue
            if new is not None:
                changed = True
                out.append(new)
                continue
            for fld in ("body", "orelse", "finalbody"):
                b = getattr(st, fld, None)
                if isinstance(b, list) and b and isinstance(b[0], ast.stmt):
                    setattr(st, fld, rewrite(b))
            if isinstance(st, ast.Try):
                for h in st.handlers:
                    h.body = rewrite(h.body)
            out.append(st)
        return out

    node.body = rewrite(node.body)
    if not changed:
        _DESUGAR_CACHE[k] = (f.node, f)
        return f
    ast.fix_missing_locations(node)
    for n in ast.walk(node):
        for ch in ast.iter_child_nodes(n):
            ch._parent = n  # type: ignore[attr-defined]
    node._parent = getattr(f.node, "_parent", None)  # type: ignore[attr-defined]
    g = Func(f.mod, f.qual, node, f.cls)
    _DESUGAR_CACHE[k] = (f.node, g)
    return g


# ---------------------------------------------------------------------------------------------------------------------
# expression-level look-through of private predicates:  `self._parents_completed(op)`  ->  all(... for p in op.parents)

_PRED_CACHE: Dict = {}


def _body_as_expression(body: List[ast.stmt]) -> Optional[ast.expr]:
    """`(name = <pure expr>)*  (if c: return a)*  return b`  as the one expression it computes:  `a if c else b`  with the locals written out.
    Only for side-effect-free right-hand sides (they are duplicated)."""
    loc: Dict[str, ast.expr] = {}
    i = 0
    while i < len(body) and isinstance(body[i], ast.Assign) and len(body[i].targets) == 1 and isinstance(body[i].targets[0], ast.Name) and body[i].targets[0].id not in loc:
        v = norm.subst(body[i].value, loc)
        if any(isinstance(x, ast.Call) and not (_pure_call(x) or norm.call_name(x) == "getattr") for x in ast.walk(v)):
            return None
        loc[body[i].targets[0].id] = v
        i += 1
    rest = body[i:]
    if not rest or not isinstance(rest[-1], ast.Return) or rest[-1].value is None:
        return None
    out = norm.subst(rest[-1].value, loc)
    for g_ in reversed(rest[:-1]):
        if not (isinstance(g_, ast.If) and not g_.orelse and len(g_.body) == 1 and isinstance(g_.body[0], ast.Return) and g_.body[0].value is not None):
            return None
        t_ = norm.subst(g_.test, loc)
        if any(isinstance(x, ast.Call) and not (_pure_call(x) or norm.call_name(x) == "getattr") for x in ast.walk(t_)):
            return None
        out = ast.copy_location(ast.IfExp(test=t_, body=norm.subst(g_.body[0].value, loc), orelse=out), g_)
    if not loc and len(rest) == 1:
        return None
    return ast.fix_missing_locations(out)


def inline_predicates(P: Program, f: Func, depth: int = 2) -> Func:
    """A copy of f in which calls of private, side-effect-free helpers of the same class / module whose body is a single
    `return <expr>` are replaced by that expression (parameters -> arguments, comprehension variables renamed apart)."""
    k = (id(P), id(f.node))
    if k in _PRED_CACHE and _PRED_CACHE[k][0] is f.node and _PRED_CACHE[k][1] is P:
        return _PRED_CACHE[k][2]
    changed = [False]
    cnt = [0]

    class T(ast.NodeTransformer):
        def visit_Call(self, c: ast.Call):
            c = self.generic_visit(c)
            fn = c.func
            target = resolve_helper(P, f, c)
            if target is None or target.name in KEEP_CALLS:
                return c
            if c.keywords or any(isinstance(a, ast.Starred) for a in c.args) or _kind_of_method(target) == "other":
                return c
            body = [s for s in target.node.body if not (isinstance(s, ast.Expr) and isinstance(s.value, ast.Constant)) and not isinstance(s, ast.Pass)]
            if len(body) != 1 or not isinstance(body[0], ast.Return) or body[0].value is None:
                e = _body_as_expression(body)
                if e is None:
                    return c
            else:
                e = body[0].value
            if any(isinstance(x, (ast.Yield, ast.YieldFrom, ast.Await, ast.NamedExpr, ast.Lambda)) for x in ast.walk(e)):
                return c
            impure = any(isinstance(x, ast.Call) and not _pure_call(x) for x in ast.walk(e))
            params = target.params()
            if impure:
                # `return cls(a=d["a"], ..)` / `return Foo(x).bar()`: the expression takes the place of the call as it stands, so nothing is evaluated
                # more or less often than before — provided no argument expression is duplicated or dropped by the substitution
                simple = all(isinstance(a, (ast.Name, ast.Constant)) or norm.attr_chain(a) is not None for a in c.args)
                once = all(sum(1 for x in ast.walk(e) if isinstance(x, ast.Name) and x.id == p_) == 1 for p_ in params[(1 if isinstance(fn, ast.Attribute) else 0):])
                if not (simple or once):
                    return c
            env: Dict[str, ast.expr] = {}
            if isinstance(fn, ast.Attribute) and _kind_of_method(target) != "staticmethod":
                env[params[0]] = fn.value
                params = params[1:]
            if len(params) != len(c.args):
                return c
            for p_, a in zip(params, c.args):
                env[p_] = a
            cnt[0] += 1
            e2 = norm.clone(e)
            bound = {x.id for comp in ast.walk(e2) if isinstance(comp, ast.comprehension) for x in ast.walk(comp.target) if isinstance(x, ast.Name)}
            for x in ast.walk(e2):
                if isinstance(x, ast.Name) and x.id in bound:
                    x.id = f"{x.id}__p{cnt[0]}"
            changed[0] = True
            return norm.Subst(env).visit(e2)

    node = norm.clone(f.node)
    for _ in range(depth):
        before = ast.dump(node)
        node = T().visit(node)
        if ast.dump(node) == before:
            break
    if not changed[0]:
        _PRED_CACHE[k] = (f.node, P, f)
        return f
    ast.fix_missing_locations(node)
    for n in ast.walk(node):
        for ch in ast.iter_child_nodes(n):
            ch._parent = n  # type: ignore[attr-defined]
    node._parent = getattr(f.node, "_parent", None)  # type: ignore[attr-defined]
    g = Func(f.mod, f.qual, node, f.cls)
    _PRED_CACHE[k] = (f.node, P, g)
    return g



# ---------------------------------------------------------------------------------------------------------------------
# the package as the rules see it: every function with its private helpers inlined, minus the helpers that were absorbed

_VIEW_CACHE: Dict = {}


def view_funcs(P: Program, m) -> List[Func]:
    """Functions of module m in the form P.fn() hands them out (helpers inlined); a private helper that is inlined at every one
    of its call sites is not listed on its own (its statements are already seen inside its callers)."""
    k = id(P)
    if k not in _VIEW_CACHE or _VIEW_CACHE[k][0] is not P:
        views: Dict[str, List[Tuple[Func, Func]]] = {}
        still_called: Set[str] = set()
        inlined_somewhere: Set[str] = set()
        for mm in P.modules.values():
            lst = []
            for f in mm.funcs.values():
                v = inline_helpers(P, f)
                lst.append((f, v))
                raw_calls = {norm.call_name(c) for c in own_nodes(f.node) if isinstance(c, ast.Call)}
                view_calls = {norm.call_name(c) for c in own_nodes(v.node) if isinstance(c, ast.Call)}
                still_called |= {n for n in view_calls if n}
                inlined_somewhere |= {n for n in raw_calls - view_calls if n}
            mf = _module_level_func(mm)
            still_called |= {norm.call_name(c) for c in _module_nodes(mm) if isinstance(c, ast.Call)} - {None}
            views[mm.rel] = lst
        absorbed = {n for n in inlined_somewhere if n not in still_called and not n.startswith("__") and (n.startswith("_") or n not in pinned_public_names())}
        _VIEW_CACHE[k] = (P, {rel: [v for f, v in lst if f.name not in absorbed] for rel, lst in views.items()})
    return _VIEW_CACHE[k][1].get(m.rel, [])


# ---------------------------------------------------------------------------------------------------------------------
# object aliases:  stats = pool_stats[pool_id]  ...  stats["avail_cpu"] -= x      ==      pool_stats[pool_id]["avail_cpu"] -= x

_DEALIAS_CACHE: Dict = {}


def _is_alias_term(e: ast.expr) -> bool:
    if isinstance(e, ast.Name):
        return True
    if isinstance(e, ast.Attribute):
        return _is_alias_term(e.value)
    if isinstance(e, ast.Subscript):
        return _is_alias_term(e.value) and (isinstance(e.slice, ast.Constant) or isinstance(e.slice, ast.Name))
    return False


def _root_depth(e: ast.expr) -> Tuple[Optional[str], int]:
    dp = 0
    while isinstance(e, (ast.Subscript, ast.Attribute)):
        e = e.value
        dp += 1
    return (e.id if isinstance(e, ast.Name) else None), dp


def prefix_counter_to_list(f: Func) -> Func:
    """`n = 0; for x in Q: ...; n += 1; ...; del Q[:n]`  ==  `D = []; for x in Q: ...; D.append(x); ...; for y in D: Q.remove(y)` when the
    count is stepped in every iteration that reaches it (no `continue` before it: the iterations that are counted are the first n) and Q is not
    touched in between.  The deferred-removal rules are stated on the list form; the counter form is rewritten into it."""
    from .cfg import CFG
    hit = _PREFIX_CACHE.get(id(f.node))
    if hit is not None and hit[0] is f.node:
        return hit[1]
    out = _prefix_counter_to_list(f)
    _PREFIX_CACHE[id(f.node)] = (f.node, out)
    return out


_PREFIX_CACHE: Dict = {}


def _prefix_counter_to_list(f: Func) -> Func:
    from .cfg import CFG
    todo = []
    for lp in [n for n in own_nodes(f.node) if isinstance(n, ast.For) and isinstance(n.iter, ast.Name) and isinstance(n.target, ast.Name) and not n.orelse]:
        blk = None
        par = parent(lp)
        for fld in ("body", "orelse", "finalbody"):
            b = getattr(par, fld, None)
            if isinstance(b, list) and any(x is lp for x in b):
                blk = b
        if blk is None:
            continue
        i = [k for k, x in enumerate(blk) if x is lp][0]
        Q = lp.iter.id
        # del Q[:n] after the loop, in the same block
        dels = [(k, x) for k, x in enumerate(blk[i + 1:], i + 1) if isinstance(x, ast.Delete) and len(x.targets) == 1 and isinstance(x.targets[0], ast.Subscript)
                and norm.is_name(x.targets[0].value, Q) and isinstance(x.targets[0].slice, ast.Slice) and x.targets[0].slice.lower is None
                and x.targets[0].slice.step is None and isinstance(x.targets[0].slice.upper, ast.Name)]
        if len(dels) != 1:
            continue
        kdel, dl = dels[0]
        n = dl.targets[0].slice.upper.id
        inits = [(k, x) for k, x in enumerate(blk[:i]) if isinstance(x, ast.Assign) and len(x.targets) == 1 and norm.is_name(x.targets[0], n)
                 and isinstance(x.value, ast.Constant) and x.value.value == 0 and not isinstance(x.value.value, bool)]
        if len(inits) != 1:
            continue
        kinit, ini = inits[0]
        writes = [x for x in own_nodes(f.node) if isinstance(x, ast.Name) and x.id == n and isinstance(x.ctx, ast.Store)]
        incs = [x for x in lp.body if isinstance(x, ast.AugAssign) and norm.is_name(x.target, n) and isinstance(x.op, ast.Add) and isinstance(x.value, ast.Constant) and x.value.value == 1]
        loads = [x for x in own_nodes(f.node) if isinstance(x, ast.Name) and x.id == n and isinstance(x.ctx, ast.Load)]
        if len(incs) != 1 or len(writes) != 2 or len(loads) != 1:     # init + the step (an AugAssign target is one Store); read only by the del
            continue
        inc = incs[0]
        # Q untouched in the loop and between loop and del; statements between init and loop do not matter for n (no other writes)
        def touches_q(stmts):
            for st in stmts:
                for x in ast.walk(st):
                    if isinstance(x, ast.Call) and isinstance(x.func, ast.Attribute) and norm.is_name(x.func.value, Q) and x.func.attr in MUTATORS:
                        return True
                    if isinstance(x, (ast.Subscript,)) and norm.is_name(x.value, Q) and isinstance(x.ctx, (ast.Store, ast.Del)):
                        return True
                    if isinstance(x, ast.Name) and x.id == Q and isinstance(x.ctx, ast.Store):
                        return True
            return False
        if touches_q(lp.body) or touches_q(blk[i + 1:kdel]):
            continue
        # every iteration that does not leave the loop before the step passes the step: no path header -> header (next iteration) avoiding it
        try:
            g = CFG(f.node)
            hid = g.node_of(lp).id
            inside = set()
            for st in ast.walk(lp):
                if isinstance(st, ast.stmt) and st is not lp:
                    try:
                        inside.add(g.node_of(st).id)
                    except Exception:
                        pass
            outside = {nd.id for nd in g.nodes} - inside - {hid}
            skip = g.path_avoiding(hid, {hid}, {g.node_of(inc).id} | outside, edge_ok=lambda a, b, lab, hid=hid: not (a == hid and lab == "done"))
        except Exception:
            continue
        if skip is not None:
            continue
        todo.append((lp, ini, inc, dl, n, Q))
    if not todo:
        return f
    node = norm.clone(f.node)
    m = {id(a): b for a, b in zip(ast.walk(f.node), ast.walk(node))}
    for lp, ini, inc, dl, n, Q in todo:
        lp2, ini2, inc2, dl2 = m[id(lp)], m[id(ini)], m[id(inc)], m[id(dl)]
        D = f"{n}__taken"
        ini2.value = ast.List(elts=[], ctx=ast.Load())
        ini2.targets = [ast.Name(id=D, ctx=ast.Store())]
        new_inc = ast.copy_location(ast.Expr(value=ast.Call(func=ast.Attribute(value=ast.Name(id=D, ctx=ast.Load()), attr="append", ctx=ast.Load()),
                                                             args=[ast.Name(id=lp2.target.id, ctx=ast.Load())], keywords=[])), inc2)
        lp2.body = [new_inc if x is inc2 else x for x in lp2.body]
        rl = ast.copy_location(ast.For(target=ast.Name(id=f"{n}__j", ctx=ast.Store()), iter=ast.Name(id=D, ctx=ast.Load()),
                                       body=[ast.Expr(value=ast.Call(func=ast.Attribute(value=ast.Name(id=Q, ctx=ast.Load()), attr="remove", ctx=ast.Load()),
                                                                     args=[ast.Name(id=f"{n}__j", ctx=ast.Load())], keywords=[]))], orelse=[]), dl2)
        par2 = m[id(parent(dl))]
        for fld in ("body", "orelse", "finalbody"):
            b = getattr(par2, fld, None)
            if isinstance(b, list) and any(x is dl2 for x in b):
                setattr(par2, fld, [rl if x is dl2 else x for x in b])
    ast.fix_missing_locations(node)
    for x in ast.walk(node):
        for ch in ast.iter_child_nodes(x):
            ch._parent = x  # type: ignore[attr-defined]
    node._parent = getattr(f.node, "_parent", None)  # type: ignore[attr-defined]
    return Func(f.mod, f.qual, node, f.cls)


def _pure_attr_chain_of_param(e: ast.expr, params: Set[str]) -> bool:
    while isinstance(e, ast.Attribute):
        e = e.value
    return isinstance(e, ast.Name) and e.id in params


def dealias(f: Func, subscripts: bool = True) -> Func:
    """A copy of f in which a local bound once to an existing object (`d = table[i]`, `pool = self.pools[i]`, operands not re-bound
    before the uses) is replaced by that expression at every use, so that reads and stores through the alias are seen as reads and
    stores of the object itself; f if there is no such local."""
    k = (id(f.node), subscripts)
    if k in _DEALIAS_CACHE and _DEALIAS_CACHE[k][0] is f.node:
        return _DEALIAS_CACHE[k][1]
    binds: Dict[str, List[ast.AST]] = {}
    for n in own_nodes(f.node):
        tgts = []
        if isinstance(n, ast.Assign):
            tgts = n.targets
        elif isinstance(n, (ast.AugAssign, ast.AnnAssign)):
            tgts = [n.target]
        elif isinstance(n, (ast.For, ast.AsyncFor)):
            tgts = [n.target]
        elif isinstance(n, (ast.With, ast.AsyncWith)):
            tgts = [it.optional_vars for it in n.items if it.optional_vars is not None]
        elif isinstance(n, ast.NamedExpr):
            tgts = [n.target]
        for t in tgts:
            for x in ast.walk(t):
                if isinstance(x, ast.Name) and isinstance(x.ctx, ast.Store):
                    binds.setdefault(x.id, []).append(n)
    loc_stores: List[Tuple[str, int, ast.AST]] = []
    for n in own_nodes(f.node):
        tg = []
        if isinstance(n, (ast.Assign, ast.Delete)):
            tg = n.targets
        elif isinstance(n, (ast.AugAssign, ast.AnnAssign)):
            tg = [n.target]
        for t in tg:
            for x in (t.elts if isinstance(t, (ast.Tuple, ast.List)) else [t]):
                if isinstance(x, (ast.Subscript, ast.Attribute)):
                    r_, dp = _root_depth(x)
                    if r_:
                        loc_stores.append((r_, dp, n))
        if isinstance(n, ast.Call) and isinstance(n.func, ast.Attribute) and n.func.attr in MUTATORS:
            r_, dp = _root_depth(n.func.value)
            if r_:
                loc_stores.append((r_, dp, n))
    params = set(f.params())
    env: Dict[str, ast.expr] = {}
    for name, sites in binds.items():
        if len(sites) != 1 or name in params:
            continue
        d = sites[0]
        if not (isinstance(d, ast.Assign) and len(d.targets) == 1 and norm.is_name(d.targets[0], name)):
            continue
        v = d.value
        if isinstance(v, ast.Attribute) and _pure_attr_chain_of_param(v, params) and name not in norm.names_in(v):
            # `tracked = s.other_pipelines` used as a container (filled / emptied through the name): the object the parameter carries.
            # Only when the name is mutated through (otherwise it is a value and single_defs serves), and the field itself is never re-bound here.
            vt = norm.U(v)
            mutated_through = any(r_ == name for (r_, dp, st) in loc_stores)
            rebound = any(isinstance(n, (ast.Assign, ast.AugAssign, ast.AnnAssign, ast.Delete)) and any(
                norm.U(t) == vt or vt.startswith(norm.U(t) + ".") for t in (n.targets if isinstance(n, (ast.Assign, ast.Delete)) else [n.target]))
                for n in own_nodes(f.node))
            if mutated_through and not rebound:
                env[name] = v
            continue
        if not subscripts or not (isinstance(v, ast.Subscript) and _is_alias_term(v)) or name in norm.names_in(v):
            continue     # only element lookups `table[i]` / `a.b[i]`: plain `x = y.z` locals are values more often than objects
        # the location read must not be stored to (directly, or by re-binding / mutating a container on the way to it) between the
        # definition and a use; stores *below* it (table[i]["k"] -= 1 for the alias table[i]) go through the alias and are fine
        b2 = dict(binds)
        root, depth_v = _root_depth(v)
        b2[root] = list(binds.get(root, [])) + [st for (r_, dp, st) in loc_stores if r_ == root and dp <= depth_v]
        if not _operands_stable(f, name, v, b2):
            continue
        env[name] = v
    # aliases of aliases
    for _ in range(3):
        env = {k_: norm.subst(v_, {a: b for a, b in env.items() if a != k_}) for k_, v_ in env.items()}
    if not env:
        _DEALIAS_CACHE[k] = (f.node, f)
        return f
    node = norm.clone(f.node)

    class T(ast.NodeTransformer):
        def visit_Name(self, n: ast.Name):
            if isinstance(n.ctx, ast.Load) and n.id in env:
                return norm.clone(env[n.id])
            return n

        def visit_FunctionDef(self, n):
            return self.generic_visit(n) if n is node else n

        def visit_Lambda(self, n):
            return n
    node = T().visit(node)
    ast.fix_missing_locations(node)
    for n in ast.walk(node):
        for ch in ast.iter_child_nodes(n):
            ch._parent = n  # type: ignore[attr-defined]
    node._parent = getattr(f.node, "_parent", None)  # type: ignore[attr-defined]
    g = Func(f.mod, f.qual, node, f.cls)
    _DEALIAS_CACHE[k] = (f.node, g)
    return g


# ---------------------------------------------------------------------------------------------------------------------
# table-driven case splits:  for bound, a, b in _TABLE: if x < bound: return F(a, b)      ==      the unrolled if-chain

def _literal(e: ast.expr, recs=()) -> bool:
    if isinstance(e, ast.Constant):
        return True
    if isinstance(e, ast.UnaryOp) and isinstance(e.op, (ast.USub, ast.UAdd)) and isinstance(e.operand, ast.Constant):
        return True
    if isinstance(e, (ast.Tuple, ast.List)):
        return all(_literal(x, recs) for x in e.elts)
    if isinstance(e, ast.Call) and isinstance(e.func, ast.Name) and e.func.id in recs:          # a record (new NamedTuple) built from literals
        return all(_literal(x, recs) for x in e.args) and all(k.arg is not None and _literal(k.value, recs) for k in e.keywords)
    return False


def class_constants(P: Program, f: Func) -> Dict[str, ast.expr]:
    """class-level names of f's class bound once in the class body to a literal (scalars, tuples of them, records built from them) and stored
    nowhere in the package (no `<x>.NAME = ..` anywhere):  {'self.NAME': value, 'Cls.NAME': value}"""
    if not (f.cls and f.cls in f.mod.classes):
        return {}
    k = (id(P), f.mod.rel, f.cls)
    hit = _CLSCONST_CACHE.get(k)
    if hit is not None and hit[0] is P:
        return hit[1]
    from .erase import records
    recs = set(records(P))
    out: Dict[str, ast.expr] = {}
    body = f.mod.classes[f.cls].node.body
    cnt: Dict[str, int] = {}
    for st in body:
        if isinstance(st, (ast.Assign, ast.AnnAssign, ast.AugAssign)):
            for t in (st.targets if isinstance(st, ast.Assign) else [st.target]):
                for x in ast.walk(t):
                    if isinstance(x, ast.Name):
                        cnt[x.id] = cnt.get(x.id, 0) + 1
    pinned = pinned_constant_names()
    for st in body:
        flds_ = _record_fields(P, st.value) if isinstance(st, ast.Assign) and len(st.targets) == 1 and isinstance(st.targets[0], ast.Name) else None
        if isinstance(st, ast.Assign) and len(st.targets) == 1 and isinstance(st.targets[0], ast.Name) and cnt.get(st.targets[0].id) == 1 \
                and ((isinstance(st.value, (ast.Tuple, ast.Constant, ast.UnaryOp, ast.Call)) and _literal(st.value, recs)) or flds_ is not None) and st.targets[0].id not in pinned:
            nm = st.targets[0].id
            stored = False
            for m in P.real_modules():
                for x in ast.walk(m.tree):
                    if isinstance(x, ast.Attribute) and x.attr == nm and isinstance(x.ctx, (ast.Store, ast.Del)):
                        stored = True
                    if isinstance(x, ast.Call) and isinstance(x.func, ast.Name) and x.func.id in ("setattr", "delattr"):
                        stored = True
            if not stored:
                val_ = flds_ if flds_ is not None else st.value
                out[f"self.{nm}"] = val_
                out[f"{f.cls}.{nm}"] = val_
                out[f"cls.{nm}"] = val_
    _CLSCONST_CACHE[k] = (P, out)
    return out


_CLSCONST_CACHE: Dict = {}


def unroll_const_loops(P: Program, f: Func, limit: int = 24) -> Func:
    """A copy of f in which every `for <targets> in <NAME>` over a module-level (or class-level) constant table of literals is written out:
    one copy of the body per row, the loop variables replaced by the row's literals.  Only loops without break / continue / else."""
    tables: Dict[str, ast.expr] = {k: v for k, v in f.mod.module_assigns().items() if isinstance(v, (ast.Tuple, ast.List)) and _literal(v) and len(v.elts) <= limit}
    for k_, v_ in class_constants(P, f).items():
        if isinstance(v_, ast.Tuple) and len(v_.elts) <= limit:
            tables[k_] = v_
    if f.cls and f.cls in f.mod.classes:
        for st in f.mod.classes[f.cls].node.body:
            if isinstance(st, ast.Assign) and len(st.targets) == 1 and isinstance(st.targets[0], ast.Name) and isinstance(st.value, (ast.Tuple, ast.List)) and _literal(st.value) \
                    and len(st.value.elts) <= limit:
                tables[f"self.{st.targets[0].id}"] = st.value
                tables[f"{f.cls}.{st.targets[0].id}"] = st.value
    if not tables:
        return f
    changed = [False]

    def expand(stmts: List[ast.stmt]) -> List[ast.stmt]:
        out: List[ast.stmt] = []
        for st in stmts:
            key = norm.U(st.iter) if isinstance(st, ast.For) else None
            if isinstance(st, ast.For) and key in tables and not st.orelse \
                    and not any(isinstance(x, (ast.Break, ast.Continue)) for b in st.body for x in ast.walk(b)):
                rows = tables[key].elts
                tg = st.target
                names = [t.id for t in tg.elts] if isinstance(tg, ast.Tuple) and all(isinstance(t, ast.Name) for t in tg.elts) else ([tg.id] if isinstance(tg, ast.Name) else None)
                # the loop variables must not be used after the loop
                if names is not None and all((len(r.elts) == len(names)) if isinstance(tg, ast.Tuple) else True for r in rows if isinstance(r, (ast.Tuple, ast.List)) or not isinstance(tg, ast.Tuple)):
                    for r in rows:
                        vals = list(r.elts) if isinstance(tg, ast.Tuple) else [r]
                        env = dict(zip(names, vals))
                        for b in st.body:
                            nb = norm.Subst(env).visit(norm.clone(b))
                            out.append(nb)
                    changed[0] = True
                    continue
            for fld in ("body", "orelse", "finalbody"):
                b = getattr(st, fld, None)
                if isinstance(b, list) and b and isinstance(b[0], ast.stmt):
                    setattr(st, fld, expand(b))
            out.append(st)
        return out

    node = norm.clone(f.node)
    node.body = expand(node.body)
    if not changed[0]:
        return f
    ast.fix_missing_locations(node)
    for n in ast.walk(node):
        for ch in ast.iter_child_nodes(n):
            ch._parent = n  # type: ignore[attr-defined]
    node._parent = getattr(f.node, "_parent", None)  # type: ignore[attr-defined]
    return Func(f.mod, f.qual, node, f.cls)
