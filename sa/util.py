"""Shared analyses: A4 single-definition environments, K1 writer inventory, call location, helper look-through."""
from __future__ import annotations

import ast
from typing import Callable, Dict, Iterable, Iterator, List, Optional, Set, Tuple

from . import norm
from .cfg import CFG, MUTATORS
from .model import Func, Program, own_nodes, parent, ancestors, AnalysisError, stmt_text, same_fn

_CFG_CACHE: Dict = {}


def cfg_of(f: Func, subst_env: bool = True) -> CFG:
    k = (id(f.node), subst_env)
    hit = _CFG_CACHE.get(k)
    if hit is None or hit[0] is not f.node:      # ids are reused once a program is freed: keep the node alive and compare identity
        hit = (f.node, CFG(f.node, single_defs(f) if subst_env else None))
        _CFG_CACHE[k] = hit
    return hit[1]


def single_defs(f: Func) -> Dict[str, ast.expr]:
    """Locals bound exactly once by `name = <expr>` (A4) whose defining expression reads only stable names."""
    binds: Dict[str, int] = {}
    defs: Dict[str, ast.expr] = {}
    params = set(f.params()) if not isinstance(f.node, ast.Lambda) else set()
    a = f.node.args
    if a.vararg:
        params.add(a.vararg.arg)
    if a.kwarg:
        params.add(a.kwarg.arg)

    rebinds: Dict[str, List[ast.AST]] = {}
    cur_stmt: List[ast.AST] = [f.node]

    def bind(t, val=None):
        if isinstance(t, ast.Name):
            rebinds.setdefault(t.id, []).append(cur_stmt[0])
            binds[t.id] = binds.get(t.id, 0) + 1
            if val is not None:
                defs[t.id] = val
            else:
                defs.pop(t.id, None)
                binds[t.id] += 1  # force "not single"
        elif isinstance(t, (ast.Tuple, ast.List)):
            for e in t.elts:
                bind(e)
        elif isinstance(t, ast.Starred):
            bind(t.value)

    for n in own_nodes(f.node):
        cur_stmt[0] = n
        if isinstance(n, ast.Assign):
            for t in n.targets:
                bind(t, n.value if len(n.targets) == 1 else None)
        elif isinstance(n, ast.AnnAssign):
            if n.value is not None:
                bind(n.target, n.value)
        elif isinstance(n, ast.AugAssign):
            bind(n.target)
        elif isinstance(n, (ast.For, ast.AsyncFor)):
            bind(n.target)
        elif isinstance(n, ast.comprehension):
            pass  # comprehension scopes are separate
        elif isinstance(n, (ast.With, ast.AsyncWith)):
            for it in n.items:
                if it.optional_vars is not None:
                    bind(it.optional_vars)
        elif isinstance(n, ast.NamedExpr):
            bind(n.target)
        elif isinstance(n, ast.ExceptHandler) and n.name:
            binds[n.name] = binds.get(n.name, 0) + 2
        elif isinstance(n, (ast.Global, ast.Nonlocal)):
            for nm in n.names:
                binds[nm] = binds.get(nm, 0) + 2
    mutated: Set[str] = set()
    for n in own_nodes(f.node):
        if isinstance(n, (ast.Assign, ast.AugAssign, ast.Delete)):
            for t in (n.targets if isinstance(n, (ast.Assign, ast.Delete)) else [n.target]):
                for x in ast.walk(t):
                    if isinstance(x, ast.Subscript) and isinstance(x.value, ast.Name):
                        mutated.add(x.value.id)
        if isinstance(n, ast.Call) and isinstance(n.func, ast.Attribute) and n.func.attr in MUTATORS:
            r = n.func.value
            while isinstance(r, (ast.Subscript, ast.Attribute)):
                r = r.value
            if isinstance(r, ast.Name):
                mutated.add(r.id)
    env = {}
    for name, e in defs.items():
        if name in mutated:
            continue  # a container that is filled later is not its initialiser
        if binds.get(name) == 1 and name not in params:
            # no self reference; no calls with side effects assumed pure readers
            if name in norm.names_in(e):
                continue
            if any(isinstance(x, (ast.Yield, ast.YieldFrom, ast.Await, ast.Lambda, ast.NamedExpr)) for x in ast.walk(e)):
                continue
            if any(isinstance(x, ast.Call) and not _pure_call(x) for x in ast.walk(e)):
                continue  # substituting a side-effecting call (queue.pop(0), rng.normal(..)) would change its meaning
            if not _operands_stable(f, name, e, rebinds):
                continue  # an operand is re-bound between the definition and a use: the name and its defining expression differ there
            env[name] = e
    return env


def source_order(root: ast.AST) -> Dict[int, Tuple[int, int]]:
    """id(node) -> (start, end) in a depth-first numbering of root in execution-text order.  Unlike line numbers this is meaningful in a
    function into which helpers were inlined (their statements keep the line numbers of the helper's own definition)."""
    cached = getattr(root, "_order", None)
    if cached is not None:
        return cached
    out: Dict[int, Tuple[int, int]] = {}
    k = [0]

    def visit(n):
        k[0] += 1
        s0 = k[0]
        for ch in ast.iter_child_nodes(n):
            visit(ch)
        k[0] += 1
        out[id(n)] = (s0, k[0])
    visit(root)
    try:
        root._order = out  # type: ignore[attr-defined]
    except Exception:
        pass
    return out


def _loops_around(n: ast.AST, root: ast.AST) -> List[ast.AST]:
    out = []
    p_ = parent(n)
    while p_ is not None and p_ is not root:
        if isinstance(p_, (ast.For, ast.While, ast.AsyncFor)):
            out.append(p_)
        p_ = parent(p_)
    return out


def _operands_stable(f: Func, name: str, e: ast.expr, rebinds: Dict[str, List[ast.AST]]) -> bool:
    """`name = e` may stand for e at every use of name: no local read by e is bound again on a way from the definition to a use.
    Decided by position: a re-binding r of an operand is harmless if it lies before the definition in the source (the
    definition runs again after it in every iteration that reaches a use) or if no use lies after r / in a loop with r."""
    ops = {x.id for x in ast.walk(e) if isinstance(x, ast.Name)} & set(rebinds)
    if not ops:
        return True
    d = None
    uses = []
    for n in own_nodes(f.node):
        if isinstance(n, ast.Assign) and len(n.targets) == 1 and norm.is_name(n.targets[0], name):
            d = n
        elif isinstance(n, ast.AnnAssign) and norm.is_name(n.target, name):
            d = n
        elif isinstance(n, ast.Name) and n.id == name and isinstance(n.ctx, ast.Load):
            uses.append(n)
    if d is None:
        return False
    dl = _loops_around(d, f.node)
    order = source_order(f.node)

    def before(a, b) -> bool:
        """a starts before b in the text of the function (or a is b)"""
        return order.get(id(a), (0, 0))[0] <= order.get(id(b), (0, 0))[0]

    def after_binding(u, r) -> bool:
        """the use u comes after the point where r binds: after the whole statement, or — for a loop header — anywhere after its start"""
        ou, orr = order.get(id(u), (0, 0)), order.get(id(r), (0, 0))
        return ou[0] > orr[0] if isinstance(r, (ast.For, ast.AsyncFor, ast.While)) else ou[0] > orr[1]
    for v in ops:
        for r in rebinds[v]:
            if isinstance(r, (ast.For, ast.AsyncFor)) and any(r is l_ for l_ in dl):
                continue   # the loop variable of a loop around the definition: bound at the header, before the definition, in every iteration
            if before(r, d) and not isinstance(r, (ast.For, ast.AsyncFor, ast.While)):
                # textually before the definition; harmless if it shares all loops with the definition (the definition re-runs after it)
                rl = _loops_around(r, f.node)
                if all(any(a is b for b in dl) for a in rl):
                    continue
            rl = [r] + _loops_around(r, f.node) if isinstance(r, (ast.For, ast.AsyncFor)) else _loops_around(r, f.node)
            shared_extra = [l_ for l_ in rl if not any(l_ is x for x in dl)]   # loops around r that do not contain the definition
            for u in uses:
                if after_binding(u, r) and not before(r, d):
                    return False
                ul = _loops_around(u, f.node)
                if any(any(l_ is x for x in ul) for l_ in shared_extra):
                    return False
    return True


_PURE_FUNCS = {"len", "sum", "all", "any", "str", "list", "tuple", "isinstance", "max", "min", "int", "float", "bool", "sorted",
               "enumerate", "range", "zip", "repr", "abs", "round", "set", "frozenset", "dict", "floor", "ceil", "sqrt", "log", "power",
               "Path", "array", "iter", "defaultdict"}


def _pure_call(c: ast.Call) -> bool:
    from . import cfg as _cfg
    n = norm.call_name(c)
    if n in _cfg.PURE_METHODS or n in _PURE_FUNCS or n in ("mean", "percentile"):
        return True
    if n in _cfg.MOD_ATTRS and not _cfg.MOD_ATTRS[n] and n not in ("pop", "next"):
        return True   # a package function that stores to no attribute (transitively): re-evaluating it changes nothing
    if isinstance(c.func, ast.Attribute) and n in ("get", "keys", "values", "items", "copy", "strip", "split", "format", "join", "exists", "resolve", "index", "count"):
        return True
    if isinstance(c.func, ast.Name) and n in ("Priority", "Fraction", "Decimal", "RetryStats", "WaitingQueueJob", "PipelineStats", "CSVOperatorRow", "PipelineArrival"):
        return True   # constructor of a value object (objects with identity, e.g. Executor(...), are never substituted)
    return False


# -- K1: who writes a field ----------------------------------------------------------------------------

class Write:
    def __init__(self, fn: Func, node: ast.AST, how: str, target: ast.expr):
        self.fn, self.node, self.how, self.target = fn, node, how, target

    def __repr__(self):
        return f"{self.fn.mod.rel}::{self.fn.qual}:{self.fn.mod.line(self.node)} {self.how} {norm.U(self.target)}"


def _module_level_func(m) -> Func:
    return Func(m, "<module>", m.tree, None)


def attr_writes(P: Program, attr: str, include_mutation: bool = True, include_template: bool = True) -> List[Write]:
    """Every site in the package that stores to `<anything>.attr` (Assign/AugAssign/AnnAssign/Delete, subscript stores
    `x.attr[k] = v`, `del x.attr[k]`, and — if include_mutation — mutating method calls `x.attr.append(..)`).
    setattr/__dict__ writes are reported with how='dynamic'."""
    out: List[Write] = []
    for m in P.modules.values():
        if m.virtual and not include_template:
            continue
        scopes: List[Func] = view_funcs(P, m) + [_module_level_func(m)]
        for f in scopes:
            it = list(own_nodes(f.node)) if f.qual != "<module>" else list(_module_nodes(m))
            # local aliases of the field:  x = <obj>.attr   (then x[k] = v / x.append(..) write the field)
            aliases = {n.targets[0].id for n in it if isinstance(n, ast.Assign) and len(n.targets) == 1 and isinstance(n.targets[0], ast.Name)
                       and isinstance(n.value, ast.Attribute) and n.value.attr == attr}
            for n in it:
                if aliases:
                    if isinstance(n, (ast.Assign, ast.AugAssign, ast.Delete)):
                        for t in (n.targets if isinstance(n, (ast.Assign, ast.Delete)) else [n.target]):
                            if isinstance(t, ast.Subscript) and isinstance(t.value, ast.Name) and t.value.id in aliases:
                                out.append(Write(f, n, "item-via-alias", t.value))
                    if include_mutation and isinstance(n, ast.Call) and isinstance(n.func, ast.Attribute) and n.func.attr in MUTATORS \
                            and isinstance(n.func.value, ast.Name) and n.func.value.id in aliases:
                        out.append(Write(f, n, "mutate-via-alias:" + n.func.attr, n.func.value))
                tg: List[Tuple[ast.expr, str]] = []
                if isinstance(n, ast.Assign):
                    for t in n.targets:
                        for tt in _flatten(t):
                            tg.append((tt, "assign"))
                elif isinstance(n, ast.AugAssign):
                    tg.append((n.target, "augassign"))
                elif isinstance(n, ast.AnnAssign):
                    tg.append((n.target, "assign" if n.value is not None else "annotate"))
                elif isinstance(n, ast.Delete):
                    for t in n.targets:
                        tg.append((t, "delete"))
                elif isinstance(n, (ast.For, ast.AsyncFor)):
                    for tt in _flatten(n.target):
                        tg.append((tt, "assign"))
                elif isinstance(n, ast.Call):
                    cn = norm.call_name(n)
                    if cn == "setattr" and len(n.args) >= 2:
                        a1 = n.args[1]
                        if not (isinstance(a1, ast.Constant) and a1.value != attr):
                            out.append(Write(f, n, "dynamic", n))
                    if include_mutation and isinstance(n.func, ast.Attribute) and n.func.attr in MUTATORS:
                        r = n.func.value
                        if isinstance(r, ast.Attribute) and r.attr == attr:
                            out.append(Write(f, n, "mutate:" + n.func.attr, r))
                for t, how in tg:
                    if isinstance(t, ast.Attribute) and t.attr == attr:
                        if how == "annotate":
                            continue
                        out.append(Write(f, n, how, t))
                    elif isinstance(t, ast.Subscript):
                        b = t.value
                        if isinstance(b, ast.Attribute) and b.attr == attr:
                            out.append(Write(f, n, "item-" + how, b))
                        if isinstance(b, ast.Attribute) and b.attr == "__dict__":
                            out.append(Write(f, n, "dynamic", t))
    return out


def _module_nodes(m) -> Iterator[ast.AST]:
    stack = list(m.tree.body)
    while stack:
        n = stack.pop()
        yield n
        if isinstance(n, (ast.FunctionDef, ast.AsyncFunctionDef)):
            continue
        if isinstance(n, ast.ClassDef):
            # class-level statements belong to the module scope for our purposes
            stack.extend(n.body)
            continue
        stack.extend(ast.iter_child_nodes(n))


def _flatten(t: ast.expr) -> Iterator[ast.expr]:
    if isinstance(t, (ast.Tuple, ast.List)):
        for e in t.elts:
            yield from _flatten(e)
    elif isinstance(t, ast.Starred):
        yield from _flatten(t.value)
    else:
        yield t


def writer_funcs(ws: Iterable[Write]) -> Set[str]:
    return {f"{w.fn.mod.rel}::{w.fn.qual}" for w in ws}


# -- calls ---------------------------------------------------------------------------------------------

def calls_named(f: Func, name: str) -> List[ast.Call]:
    out = [n for n in own_nodes(f.node) if isinstance(n, ast.Call) and norm.call_name(n) == name]
    out.sort(key=lambda n: (n.lineno, n.col_offset))
    return out


def package_calls(P: Program, name: str, include_template: bool = True) -> List[Tuple[Func, ast.Call]]:
    out = []
    for m in P.modules.values():
        if m.virtual and not include_template:
            continue
        for f in view_funcs(P, m) + [_module_level_func(m)]:
            it = own_nodes(f.node) if f.qual != "<module>" else _module_nodes(m)
            for n in it:
                if isinstance(n, ast.Call) and norm.call_name(n) == name:
                    out.append((f, n))
    return out


def resolve_callee(P: Program, f: Func, c: ast.Call) -> List[Func]:
    """Light callee resolution: self.m() -> method of the same class; bare name -> function in the same module or
    imported by name from a package module; x.m() -> every method named m in the package (CHA by name)."""
    fn = c.func
    if isinstance(fn, ast.Name):
        m = f.mod
        if fn.id in m.funcs:
            return [m.funcs[fn.id]]
        # nested function of the enclosing function
        q = f.qual + "." + fn.id
        if q in m.funcs:
            return [m.funcs[q]]
        hits = []
        for st in m.tree.body:
            if isinstance(st, ast.ImportFrom):
                for al in st.names:
                    if (al.asname or al.name) == fn.id:
                        for mm in P.real_modules():
                            if al.name in mm.funcs:
                                hits.append(mm.funcs[al.name])
                            if al.name in mm.classes and "__init__" in mm.classes[al.name].methods:
                                hits.append(mm.classes[al.name].methods["__init__"])
        if not hits:
            for mm in P.real_modules():
                if fn.id in mm.classes and "__init__" in mm.classes[fn.id].methods and (mm is m or _imports_name(m, fn.id)):
                    hits.append(mm.classes[fn.id].methods["__init__"])
        return hits
    if isinstance(fn, ast.Attribute):
        if isinstance(fn.value, ast.Name) and fn.value.id == "self" and f.cls:
            c_ = f.mod.classes.get(f.cls)
            if c_ and fn.attr in c_.methods:
                return [c_.methods[fn.attr]]
        hits = []
        for mm in P.real_modules():
            for cl in mm.classes.values():
                if fn.attr in cl.methods:
                    hits.append(cl.methods[fn.attr])
        # module attribute call  mod.func(...)
        if not hits and isinstance(fn.value, ast.Name):
            for mm in P.real_modules():
                if fn.attr in mm.funcs and mm.rel.endswith("/" + fn.value.id + ".py"):
                    hits.append(mm.funcs[fn.attr])
        return hits
    return []


def _imports_name(m, name: str) -> bool:
    for st in ast.walk(m.tree):
        if isinstance(st, ast.ImportFrom):
            for al in st.names:
                if (al.asname or al.name) == name or al.name == "*":
                    return True
    return False


def reachable_funcs(P: Program, roots: List[Func], extra_edges: Optional[Callable[[Func], List[Func]]] = None,
                    limit: int = 2000) -> List[Func]:
    seen: Dict[int, Func] = {}
    work = list(roots)
    while work and len(seen) < limit:
        f = work.pop()
        if id(f.node) in seen:
            continue
        seen[id(f.node)] = f
        for c in own_nodes(f.node):
            if isinstance(c, ast.Call):
                for g in resolve_callee(P, f, c):
                    if id(g.node) not in seen:
                        work.append(g)
        # nested functions/lambdas defined inside are considered called
        for q, g in f.mod.funcs.items():
            if q.startswith(f.qual + ".") and id(g.node) not in seen:
                work.append(g)
        if extra_edges:
            for g in extra_edges(f):
                if id(g.node) not in seen:
                    work.append(g)
    return list(seen.values())


# -- helper look-through (must-summaries) ----------------------------------------------------------------

def must_execute(P: Program, f: Func, pred: Callable[[Func, ast.AST], bool], depth: int = 3,
                 _seen: Optional[Set[int]] = None) -> bool:
    """True if every normal path through f executes a node satisfying pred (directly or in a same-package helper that
    must-executes it, up to `depth` calls deep)."""
    _seen = _seen or set()
    if id(f.node) in _seen:
        return False
    _seen = _seen | {id(f.node)}
    g = cfg_of(f)
    hit: Set[int] = set()
    for n in g.nodes:
        if n.ast is None:
            continue
        tops = _node_exprs(n)
        for top in tops:
            for x in [top] + list(own_nodes(top)):
                if pred(f, x):
                    hit.add(n.id)
                elif depth > 0 and isinstance(x, ast.Call):
                    for callee in resolve_callee(P, f, x):
                        if callee.mod.rel.startswith("eudoxia") and must_execute(P, callee, pred, depth - 1, _seen):
                            hit.add(n.id)
    if not hit:
        return False
    return g.path_avoiding(g.entry.id, {g.exit.id}, hit) is None


def _node_exprs(n) -> List[ast.AST]:
    a = n.ast
    if n.kind == "test":
        return [a.test]
    if n.kind == "for":
        return [a.iter]
    if n.kind == "assert":
        return [a.test]
    if n.kind == "with":
        return [it.context_expr for it in a.items]
    if isinstance(a, (ast.FunctionDef, ast.AsyncFunctionDef, ast.ClassDef, ast.ExceptHandler)):
        return []
    return [a]


def stmts_matching(f: Func, pred: Callable[[ast.AST], bool]) -> List[ast.AST]:
    out = [n for n in own_nodes(f.node) if pred(n)]
    out.sort(key=lambda n: (getattr(n, "lineno", 0), getattr(n, "col_offset", 0)))
    return out


def enclosing_loops(n: ast.AST, stop: ast.AST) -> List[ast.AST]:
    out = []
    for a in ancestors(n):
        if a is stop:
            break
        if isinstance(a, (ast.For, ast.While, ast.AsyncFor)):
            out.append(a)
    return out


def in_body(n: ast.AST, holder: ast.AST, fieldname: str = "body") -> bool:
    """Is n inside holder.<fieldname> (transitively)?"""
    cur = n
    while cur is not None and parent(cur) is not holder:
        cur = parent(cur)
    if cur is None:
        return False
    return any(cur is s for s in getattr(holder, fieldname, []))


def write_once_fields(P: Program, rel: str, cls: str, selfname: str = "self") -> Dict[str, ast.expr]:
    """A4: fields of `cls` whose only stores in the whole package are single plain assignments in __init__.
    Returns {'self.<field>': defining expression} (in terms of the constructor's parameters and other fields)."""
    c = P.cls(rel, cls)
    init = c.methods.get("__init__")
    if init is None:
        return {}
    cand: Dict[str, List[ast.expr]] = {}
    for n in own_nodes(init.node):
        if isinstance(n, (ast.Assign, ast.AnnAssign)):
            tg = n.targets if isinstance(n, ast.Assign) else [n.target]
            if len(tg) == 1 and isinstance(tg[0], ast.Attribute) and norm.is_name(tg[0].value, selfname) and n.value is not None:
                cand.setdefault(tg[0].attr, []).append(n.value)
    out = {}
    for attr, vals in cand.items():
        if len(vals) != 1:
            continue
        ws = []
        for w in attr_writes(P, attr):
            if same_fn(w.fn, init):
                continue
            recv = w.target.value if isinstance(w.target, ast.Attribute) else None
            if isinstance(recv, ast.Name) and recv.id == selfname and w.fn.cls and w.fn.cls != cls:
                continue  # another class's own field of the same name
            # same class outside __init__, or a receiver of unknown type: counts as a writer (conservative)
            ws.append(w)
        if ws:
            continue
        out[f"{selfname}.{attr}"] = vals[0]
    return out


def inline_simple_calls(P: Program, e: ast.expr, depth: int = 3) -> ast.expr:
    """Replace calls  X.m(a1..)  of package methods whose body is a single `return <expr>` (docstring allowed) by that
    expression with self -> X and parameters -> arguments.  Methods defined under several classes are inlined only if
    all definitions are textually identical."""
    import copy

    class T(ast.NodeTransformer):
        def visit_Call(self, c: ast.Call):
            c = self.generic_visit(c)
            if not isinstance(c.func, ast.Attribute) or c.keywords:
                return c
            name = c.func.attr
            defs = [cl.methods[name] for m in P.real_modules() for cl in m.classes.values() if name in cl.methods]
            if not defs or len({ast.dump(d.node) for d in defs}) != 1:
                return c
            d = defs[0]
            if any(isinstance(x, ast.Name) and x.id == "property" for x in d.decorators()):
                return c
            body = [s for s in d.node.body if not (isinstance(s, ast.Expr) and isinstance(s.value, ast.Constant)) and not isinstance(s, ast.Pass)]
            # straight-line body:  (name = expr)*  return expr
            if not body or not isinstance(body[-1], ast.Return) or body[-1].value is None:
                return c
            loc = {}
            for st in body[:-1]:
                if isinstance(st, ast.Assign) and len(st.targets) == 1 and isinstance(st.targets[0], ast.Name) and st.targets[0].id not in loc:
                    loc[st.targets[0].id] = norm.subst(st.value, loc)
                else:
                    return c
            params = d.params()
            if len(params) != len(c.args) + 1:
                return c
            env = {params[0]: c.func.value}
            for p_, a in zip(params[1:], c.args):
                env[p_] = a
            return norm.Subst(env).visit(norm.clone(norm.subst(body[-1].value, loc)))

    out = norm.clone(e)
    for _ in range(depth):
        new = T().visit(norm.clone(out))
        if ast.dump(new) == ast.dump(out):
            break
        out = new
    return out


def inline_properties(P: Program, e: ast.expr, rel: str, cls: str, selfname: str = "self") -> ast.expr:
    """self.<prop> -> body of the @property (single return)."""
    import copy
    c = P.cls(rel, cls)
    env = {}
    for name, m in c.methods.items():
        if any(isinstance(x, ast.Name) and x.id == "property" for x in m.decorators()):
            body = [s for s in m.node.body if not (isinstance(s, ast.Expr) and isinstance(s.value, ast.Constant)) and not isinstance(s, ast.Pass)]
            if len(body) == 1 and isinstance(body[0], ast.Return) and body[0].value is not None:
                env[f"{selfname}.{name}"] = norm.Subst({"self": ast.Name(selfname, ast.Load())}).visit(norm.clone(body[0].value))
    return norm.subst(e, env)


def loop_env(lp: Optional[ast.AST]) -> Dict[str, ast.expr]:
    """Per-iteration temporaries: names assigned exactly once (plain `name = expr`) inside the loop, whose right-hand side has
    no side-effecting call and which are not containers filled later (subscript stores / mutator calls on them)."""
    if lp is None:
        return {}
    cnt: Dict[str, int] = {}
    env: Dict[str, ast.expr] = {}
    mutated: Set[str] = set()
    for n in ast.walk(lp):
        if isinstance(n, ast.Assign) and len(n.targets) == 1 and isinstance(n.targets[0], ast.Name):
            cnt[n.targets[0].id] = cnt.get(n.targets[0].id, 0) + 1
            env[n.targets[0].id] = n.value
        elif isinstance(n, ast.AugAssign) and isinstance(n.target, ast.Name):
            cnt[n.target.id] = cnt.get(n.target.id, 0) + 2
        elif isinstance(n, (ast.For, ast.comprehension)) and n is not lp:
            for x in ast.walk(n.target):
                if isinstance(x, ast.Name):
                    cnt[x.id] = cnt.get(x.id, 0) + 2
        if isinstance(n, (ast.Assign, ast.AugAssign, ast.Delete)):
            for t in (n.targets if isinstance(n, (ast.Assign, ast.Delete)) else [n.target]):
                for x in ast.walk(t):
                    if isinstance(x, ast.Subscript):
                        r = x.value
                        while isinstance(r, (ast.Subscript, ast.Attribute)):
                            r = r.value
                        if isinstance(r, ast.Name):
                            mutated.add(r.id)
        if isinstance(n, ast.Call) and isinstance(n.func, ast.Attribute) and n.func.attr in MUTATORS:
            r = n.func.value
            while isinstance(r, (ast.Subscript, ast.Attribute)):
                r = r.value
            if isinstance(r, ast.Name):
                mutated.add(r.id)
    out = {k: v for k, v in env.items() if cnt[k] == 1 and k not in mutated
           and not any(isinstance(x, ast.Call) and not _pure_call(x) for x in ast.walk(v))}
    # operand stability inside the iteration: `failures = [r for r in results if ..]` does not stand for its defining expression after
    # `results = executor.run_one_tick(..)` has re-bound the operand (the definition runs again only in the next iteration)
    binds: Dict[str, List[ast.AST]] = {}
    defs: Dict[str, ast.AST] = {}
    for n in ast.walk(lp):
        tg = []
        if isinstance(n, ast.Assign):
            tg = n.targets
            if len(n.targets) == 1 and isinstance(n.targets[0], ast.Name):
                defs[n.targets[0].id] = n
        elif isinstance(n, (ast.AugAssign, ast.AnnAssign)):
            tg = [n.target]
        elif isinstance(n, (ast.For, ast.AsyncFor)) and n is not lp:
            tg = [n.target]
        for t in tg:
            for x in ast.walk(t):
                if isinstance(x, ast.Name) and isinstance(x.ctx, ast.Store):
                    binds.setdefault(x.id, []).append(n)
    order = source_order(lp)
    for k in list(out):
        d = defs.get(k)
        ops = {x.id for x in ast.walk(out[k]) if isinstance(x, ast.Name)} & set(binds)
        uses = [x for x in ast.walk(lp) if isinstance(x, ast.Name) and x.id == k and isinstance(x.ctx, ast.Load)]
        bad = False
        for v in ops:
            for r in binds[v]:
                if r is d or order.get(id(r), (0, 0))[0] <= order.get(id(d), (0, 0))[0]:
                    continue      # before the definition in the iteration: the definition sees the new value
                if isinstance(r, (ast.For, ast.AsyncFor)) and any(x is d for x in ast.walk(r)):
                    continue      # loop variable of an inner loop around the definition
                if any(order.get(id(u), (0, 0))[0] > order.get(id(r), (0, 0))[0] for u in uses):
                    bad = True
        if bad:
            del out[k]
    return out


# -- helper inlining ("extract method" robustness) ------------------------------------------------------------

KEEP_PUBLIC = {"mkregression_command", "list_command", "init_command", "gentrace_command", "run_command", "get_param_defaults", "compute_pipeline_stats",
               "parse_args_with_defaults", "jitter_command", "snap_command", "sensitivity_command", "make_assignments", "update_state", "only",
               "try_make_assignment", "get_pool_with_max_avail_ram", "run_simulator", "main"}
KEEP_CALLS = {"_reconcile_consumed_ram", "_run_out_of_memory_killer", "_mark_completed", "_parse_row", "_pipeline_to_rows", "_parse_assignments",
              "_parse_suspensions", "_tick_generator", "_sensitivity_task"}


def _callers_of(P: Program, name: str) -> int:
    n = 0
    for m in P.real_modules():
        for x in ast.walk(m.tree):
            if isinstance(x, ast.Call) and norm.call_name(x) == name:
                n += 1
    return n


def _inlinable(P: Program, f: Func, c: ast.Call, allow_yield: bool = False) -> Optional[Func]:
    """A same-class private method (self._m(...)) or same-module private function (_f(...)) with a single call site in the
    package, positional/keyword arguments only, and `return` only as its last statement."""
    fn = c.func
    target: Optional[Func] = None
    if isinstance(fn, ast.Attribute) and isinstance(fn.value, ast.Name) and f.cls and fn.value.id in ("self", f.cls):
        cl = f.mod.classes.get(f.cls)
        if cl and fn.attr in cl.methods:
            target = cl.methods[fn.attr]
            if fn.value.id == f.cls and not _is_static(target):
                target = None
    elif isinstance(fn, ast.Name) and fn.id in f.mod.funcs and "." not in fn.id:
        target = f.mod.funcs[fn.id]
    if target is None or same_fn(target, f):
        return None
    if target.name.startswith("__"):
        return None
    if not target.name.startswith("_"):
        # a public name is looked through only when it is a plain module-level function called by name that no rule is anchored on:
        # the public functions of today's tree are analysed as functions of their own (KEEP_PUBLIC); a public helper that a change
        # introduces is part of its caller as far as the rules are concerned
        if not isinstance(fn, ast.Name) or target.name in KEEP_PUBLIC or target.decorators():
            return None
    if target.name in KEEP_CALLS:
        return None   # rules anchor on calls of these helpers by name
    if any(isinstance(x, ast.Starred) for x in c.args) or any(k.arg is None for k in c.keywords):
        return None
    a = target.node.args
    if a.vararg or a.kwarg or a.kwonlyargs or (target.decorators() and not _is_static(target)):
        return None
    body = target.node.body
    rets = [x for x in own_nodes(target.node) if isinstance(x, ast.Return)]
    if any(r is not body[-1] for r in rets) and not _returns_eliminable(body):
        return None
    # a parameter that the helper binds again (assignment, loop variable, ...) cannot be replaced by the caller's argument expression:
    # inside the helper the name then means something else (and a shadowing slip there must stay visible)
    pset = set(target.params())
    for x in own_nodes(target.node):
        if isinstance(x, ast.Name) and isinstance(x.ctx, (ast.Store, ast.Del)) and x.id in pset:
            return None
    has_yield = any(isinstance(x, (ast.Yield, ast.YieldFrom)) for x in own_nodes(target.node))
    if any(isinstance(x, (ast.Global, ast.Nonlocal)) for x in own_nodes(target.node)):
        return None
    if has_yield != allow_yield:
        return None      # a generator helper is looked through only where it is delegated to with `yield from`; a plain helper only where it is called
    if has_yield and any(r.value is not None for r in rets):
        return None
    return target


def _is_static(target: Func) -> bool:
    ds = target.decorators()
    return len(ds) == 1 and isinstance(ds[0], ast.Name) and ds[0].id == "staticmethod"


def _contains_return(stmts: List[ast.stmt]) -> bool:
    return any(isinstance(x, ast.Return) for s_ in stmts for x in ast.walk(s_) if not isinstance(x, (ast.FunctionDef, ast.Lambda)))


def _always_returns(stmts: List[ast.stmt]) -> bool:
    if not stmts:
        return False
    last = stmts[-1]
    if isinstance(last, (ast.Return, ast.Raise)):
        return True
    if isinstance(last, ast.If):
        return _always_returns(last.body) and _always_returns(last.orelse)
    return False


def _returns_eliminable(stmts: List[ast.stmt]) -> bool:
    """every `return` sits at the end of the body or of an if/elif/else branch (guard clauses, case splits) — never inside a loop,
    try or with, where leaving the function is not the same as falling to the end of a block"""
    for i, st in enumerate(stmts):
        if isinstance(st, ast.Return):
            return i == len(stmts) - 1
        if isinstance(st, ast.If):
            if _contains_return([st]):
                if not (_returns_eliminable(st.body) and _returns_eliminable(st.orelse)):
                    return False
                # a branch that returns only on some of its paths would need the rest duplicated: allow only "returns on every path or on none"
                for br in (st.body, st.orelse):
                    if _contains_return(br) and not _always_returns(br):
                        return False
        elif isinstance(st, (ast.While, ast.For)) and _contains_return([st]):
            # "search loop": `return e` inside the loop is `ret = e; break`, and what follows the loop is its else clause — sound only when
            # the loop has no break or else of its own and every return sits under plain ifs of this loop (not in a nested loop, try or with)
            return not st.orelse and _loop_returns_plain(st.body) and _returns_eliminable(stmts[i + 1:])
        elif _contains_return([st]):
            return False
    return True


def _loop_returns_plain(stmts: List[ast.stmt]) -> bool:
    for st in stmts:
        if isinstance(st, ast.Break):
            return False
        if isinstance(st, ast.If):
            if not (_loop_returns_plain(st.body) and _loop_returns_plain(st.orelse)):
                return False
        elif isinstance(st, (ast.While, ast.For, ast.Try, ast.With, ast.Match)):
            if _contains_return([st]):
                return False
            if isinstance(st, (ast.Try, ast.With, ast.Match)) and any(isinstance(x, ast.Break) for x in ast.walk(st)):
                return False
    return True


def _returns_to_breaks(stmts: List[ast.stmt], retvar: Optional[str]) -> List[ast.stmt]:
    out: List[ast.stmt] = []
    for st in stmts:
        if isinstance(st, ast.Return):
            if retvar is not None:
                out.append(ast.copy_location(ast.Assign(targets=[ast.Name(id=retvar, ctx=ast.Store())], value=st.value if st.value is not None else ast.Constant(None)), st))
            out.append(ast.copy_location(ast.Break(), st))
            return out
        if isinstance(st, ast.If) and _contains_return([st]):
            new = ast.If(test=st.test, body=_returns_to_breaks(st.body, retvar), orelse=_returns_to_breaks(st.orelse, retvar))
            ast.copy_location(new, st)
            out.append(new)
            continue
        out.append(st)
    for s_ in out:
        for x in ast.walk(s_):
            if not hasattr(x, "lineno"):
                ast.copy_location(x, s_ if hasattr(s_, "lineno") else stmts[0])
    return out


def _eliminate_returns(stmts: List[ast.stmt], retvar: Optional[str]) -> List[ast.stmt]:
    """Rewrite a body whose returns are eliminable so that it falls off its end instead: `return e` becomes `retvar = e` (dropped for a
    helper used as a statement), and what follows a guard clause moves into its else branch."""
    out: List[ast.stmt] = []
    for i, st in enumerate(stmts):
        if isinstance(st, ast.Return):
            if retvar is not None:
                out.append(ast.copy_location(ast.Assign(targets=[ast.Name(id=retvar, ctx=ast.Store())], value=st.value if st.value is not None else ast.Constant(None)), st))
            return out
        if isinstance(st, (ast.While, ast.For)) and _contains_return([st]):
            rest = stmts[i + 1:]
            tail = _eliminate_returns(rest, retvar) if rest else []
            if retvar is not None and not _always_returns(rest):
                tail.append(ast.Assign(targets=[ast.Name(id=retvar, ctx=ast.Store())], value=ast.Constant(None)))
            new = norm.clone(st)
            new.body = _returns_to_breaks(st.body, retvar)
            new.orelse = tail
            for s_ in tail:
                for x in ast.walk(s_):
                    if not hasattr(x, "lineno"):
                        ast.copy_location(x, st)
            out.append(new)
            return out
        if isinstance(st, ast.If) and _contains_return([st]):
            rest = stmts[i + 1:]
            body = _eliminate_returns(st.body, retvar)
            orelse = _eliminate_returns(st.orelse, retvar)
            b_ret, o_ret = _always_returns(st.body) and _contains_return(st.body), _always_returns(st.orelse) and _contains_return(st.orelse)
            tail = _eliminate_returns(rest, retvar) if rest else []
            if b_ret and o_ret:
                new = ast.If(test=st.test, body=body or [ast.Pass()], orelse=orelse)
            elif b_ret:
                new = ast.If(test=st.test, body=body or [ast.Pass()], orelse=orelse + tail)
            else:
                new = ast.If(test=st.test, body=(body + tail) or [ast.Pass()], orelse=orelse)
            ast.copy_location(new, st)
            for x in ast.walk(new):
                if not hasattr(x, "lineno"):
                    ast.copy_location(x, st)
            out.append(new)
            return out
        out.append(st)
    return out


def _instantiate(target: Func, c: ast.Call, tag: str) -> Tuple[List[ast.stmt], Optional[ast.expr]]:
    """Body of target with parameters replaced by the call's arguments and locals renamed; -> (statements, returned expr)."""
    params = target.params()
    env: Dict[str, ast.expr] = {}
    args = list(c.args)
    if isinstance(c.func, ast.Attribute) and not _is_static(target):
        env[params[0]] = c.func.value   # self
        params = params[1:]
    defaults = target.node.args.defaults
    dmap = dict(zip(target.node.args.args[len(target.node.args.args) - len(defaults):], defaults)) if defaults else {}
    for i, p_ in enumerate(params):
        if i < len(args):
            env[p_] = args[i]
    for k in c.keywords:
        env[k.arg] = k.value
    for a_, d_ in dmap.items():
        if a_.arg not in env:
            env[a_.arg] = d_
    body = [norm.clone(s) for s in target.node.body if not (isinstance(s, ast.Expr) and isinstance(s.value, ast.Constant) and isinstance(s.value.value, str))]
    multi_ret = None
    nrets = [x for s_ in body for x in ast.walk(s_) if isinstance(x, ast.Return)]
    if nrets and not (len(nrets) == 1 and nrets[0] is body[-1]):
        # guard clauses / case splits: make the body fall off its end, the result (if any) in a fresh local
        has_value = any(r.value is not None for r in nrets)
        multi_ret = "ret" if has_value else None
        body = _eliminate_returns(body, multi_ret)
        if multi_ret:
            body.append(ast.Return(value=ast.Name(id=multi_ret, ctx=ast.Load())))
    # rename locals (Store-bound names that are not parameters)
    bound = set()
    for s in body:
        for x in ast.walk(s):
            if isinstance(x, ast.Name) and isinstance(x.ctx, ast.Store):
                bound.add(x.id)
    bound -= set(env)
    ret = None
    out = []
    for s in body:
        for x in ast.walk(s):
            if isinstance(x, ast.Name) and x.id in bound:
                x.id = f"{x.id}__{tag}"
        s = norm.Subst({k: v for k, v in env.items()}).visit(s)
        if isinstance(s, ast.Return):
            ret = s.value
            continue
        out.append(s)
    return out, ret


_INLINE_CACHE: Dict = {}


def inline_helpers(P: Program, f: Func, depth: int = 2) -> Func:
    k = (id(P), id(f.node))
    hit = _INLINE_CACHE.get(k)
    if hit is None or hit[0] is not P or hit[1] is not f.node:
        hit = (P, f.node, _inline_helpers(P, f, depth))
        _INLINE_CACHE[k] = hit
    return hit[2]


def _inline_helpers(P: Program, f: Func, depth: int = 2) -> Func:
    """A copy of f in which statement-level calls of single-use private helpers are replaced by the helper's body.
    Recognised call positions:  `self._m(...)` / `_f(...)` as a statement,  `x = <call>`,  `return <call>`."""
    changed_any = False
    node = norm.clone(f.node)
    counter = [0]

    def expand(stmts: List[ast.stmt], d: int) -> List[ast.stmt]:
        nonlocal changed_any
        out: List[ast.stmt] = []
        queue = list(stmts)
        while queue:
            st = queue.pop(0)
            # X = [helper(v) for v in it]   ==   X = []; for v in it: X.append(helper(v))      (only when there is a helper to look into)
            if d > 0 and isinstance(st, ast.Assign) and len(st.targets) == 1 and isinstance(st.targets[0], ast.Name) and isinstance(st.value, ast.ListComp) \
                    and len(st.value.generators) == 1 and not st.value.generators[0].is_async \
                    and any(isinstance(x, ast.Call) and _inlinable(P, f, x) is not None for x in ast.walk(st.value.elt)) \
                    and st.targets[0].id not in norm.names_in(st.value):
                gen = st.value.generators[0]
                body: List[ast.stmt] = [ast.Expr(value=ast.Call(func=ast.Attribute(value=ast.Name(id=st.targets[0].id, ctx=ast.Load()), attr="append", ctx=ast.Load()),
                                                               args=[st.value.elt], keywords=[]))]
                for c_ in reversed(gen.ifs):
                    body = [ast.If(test=c_, body=body, orelse=[])]
                tgt = norm.clone(gen.target)
                for x in ast.walk(tgt):
                    if isinstance(x, ast.Name):
                        x.ctx = ast.Store()
                init = ast.Assign(targets=[st.targets[0]], value=ast.List(elts=[], ctx=ast.Load()))
                lp_ = ast.For(target=tgt, iter=gen.iter, body=body, orelse=[], type_comment=None)
                for x in list(ast.walk(init)) + list(ast.walk(lp_)):
                    if not hasattr(x, "lineno"):
                        ast.copy_location(x, st)
                ast.copy_location(init, st)
                ast.copy_location(lp_, st)
                queue[:0] = [init, lp_]
                changed_any = True
                continue
            # recv.m(a, helper(..), b): the helper runs before the outer call; its body may be placed before the statement when
            # everything evaluated before it is a plain name / attribute / constant
            if d > 0 and isinstance(st, (ast.Expr, ast.Return, ast.Assign)) and isinstance(st.value, ast.Call) and _inlinable(P, f, st.value) is None \
                    and norm.attr_chain(st.value.func) is not None and not st.value.keywords \
                    and (not isinstance(st, ast.Assign) or (len(st.targets) == 1 and isinstance(st.targets[0], ast.Name))):
                idx = [i_ for i_, a_ in enumerate(st.value.args) if isinstance(a_, ast.Call) and _inlinable(P, f, a_) is not None]
                if len(idx) == 1 and all(isinstance(a_, (ast.Name, ast.Constant)) or norm.attr_chain(a_) is not None for a_ in st.value.args[:idx[0]]):
                    hc = st.value.args[idx[0]]
                    t2 = _inlinable(P, f, hc)
                    counter[0] += 1
                    body2, ret2 = _instantiate(t2, hc, f"i{counter[0]}")
                    if ret2 is not None:
                        body2 = expand(body2, d - 1)
                        for b in body2:
                            ast.copy_location(b, b if hasattr(b, "lineno") else st)
                        out.extend(body2)
                        st.value.args[idx[0]] = ret2
                        out.append(st)
                        changed_any = True
                        continue
            call = None
            kind = None
            if isinstance(st, ast.Expr) and isinstance(st.value, ast.Call):
                call, kind = st.value, "expr"
            elif isinstance(st, ast.Assign) and len(st.targets) == 1 and isinstance(st.value, ast.Call):
                call, kind = st.value, "assign"
            elif isinstance(st, ast.Return) and isinstance(st.value, ast.Call):
                call, kind = st.value, "return"
            elif isinstance(st, ast.Expr) and isinstance(st.value, ast.Yield) and isinstance(st.value.value, ast.Call):
                call, kind = st.value.value, "yield"
            elif isinstance(st, ast.Expr) and isinstance(st.value, ast.YieldFrom) and isinstance(st.value.value, ast.Call) and d > 0 \
                    and _inlinable(P, f, st.value.value, allow_yield=True) is not None:
                # `yield from self._sub_generator(..)` used as a statement: the sub-generator's body runs right here, its yields are ours
                tg_ = _inlinable(P, f, st.value.value, allow_yield=True)
                counter[0] += 1
                body_, _ret = _instantiate(tg_, st.value.value, f"i{counter[0]}")
                body_ = expand(body_, d - 1)
                for b in body_:
                    ast.copy_location(b, b if hasattr(b, "lineno") else st)
                out.extend(body_)
                changed_any = True
                continue
            target = _inlinable(P, f, call) if (call is not None and d > 0) else None
            if target is not None:
                counter[0] += 1
                body, ret = _instantiate(target, call, f"i{counter[0]}")
                body = expand(body, d - 1)
                for b in body:
                    ast.copy_location(b, b if hasattr(b, "lineno") else st)
                out.extend(body)
                if kind == "assign" and isinstance(st.targets[0], ast.Name) and isinstance(ret, ast.Name) and ret.id.endswith(f"__i{counter[0]}") \
                        and not any(isinstance(x, ast.Name) and x.id == st.targets[0].id for a_ in list(call.args) + [k.value for k in call.keywords] for x in ast.walk(a_)):
                    # `x = helper()` where the helper returns one of its own locals: that local *is* x from now on (no alias statement)
                    for b in body:
                        for x in ast.walk(b):
                            if isinstance(x, ast.Name) and x.id == ret.id:
                                x.id = st.targets[0].id
                elif kind == "assign" and isinstance(st.targets[0], ast.Tuple) and isinstance(ret, ast.Tuple) and len(ret.elts) == len(st.targets[0].elts) \
                        and all(isinstance(t_, ast.Name) for t_ in st.targets[0].elts) and all(isinstance(r_, ast.Name) and r_.id.endswith(f"__i{counter[0]}") for r_ in ret.elts) \
                        and len({r_.id for r_ in ret.elts}) == len(ret.elts) and len({t_.id for t_ in st.targets[0].elts}) == len(ret.elts) \
                        and not any(isinstance(x, ast.Name) and x.id in {t_.id for t_ in st.targets[0].elts} for a_ in list(call.args) + [k.value for k in call.keywords] for x in ast.walk(a_)):
                    # `a, b = helper()` where the helper returns a tuple of its own locals: those locals *are* a and b from now on
                    ren = {r_.id: t_.id for r_, t_ in zip(ret.elts, st.targets[0].elts)}
                    for b in body:
                        for x in ast.walk(b):
                            if isinstance(x, ast.Name) and x.id in ren:
                                x.id = ren[x.id]
                elif kind == "assign":
                    out.append(ast.copy_location(ast.Assign(targets=st.targets, value=ret if ret is not None else ast.Constant(None)), st))
                elif kind == "return":
                    out.append(ast.copy_location(ast.Return(value=ret), st))
                elif kind == "yield":
                    out.append(ast.copy_location(ast.Expr(value=ast.copy_location(ast.Yield(value=ret), st)), st))
                changed_any = True
                continue
            # X.writerows(G)  ==  for r in G: X.writerow(r)      (csv writers write each row as it is pulled from the iterable)
            if d > 0 and isinstance(st, ast.Expr) and isinstance(st.value, ast.Call) and isinstance(st.value.func, ast.Attribute) and st.value.func.attr == "writerows" \
                    and len(st.value.args) == 1 and not st.value.keywords and isinstance(st.value.args[0], ast.Call) \
                    and _inlinable(P, f, st.value.args[0], allow_yield=True) is not None:
                counter[0] += 1
                rv = f"row__w{counter[0]}"
                wr = ast.Expr(value=ast.Call(func=ast.Attribute(value=st.value.func.value, attr="writerow", ctx=ast.Load()), args=[ast.Name(id=rv, ctx=ast.Load())], keywords=[]))
                lp_ = ast.For(target=ast.Name(id=rv, ctx=ast.Store()), iter=st.value.args[0], body=[wr], orelse=[], type_comment=None)
                for x in ast.walk(lp_):
                    if not hasattr(x, "lineno"):
                        ast.copy_location(x, st)
                ast.copy_location(lp_, st)
                queue.insert(0, lp_)
                changed_any = True
                continue
            # for X in gen_helper(..): BODY   (optionally enumerate(gen_helper(..), start=k)):  the helper's body with every `yield E` replaced by
            # `X = E; BODY` — the consumer runs once per value produced, at the point where it is produced
            if d > 0 and isinstance(st, ast.For) and not st.orelse and isinstance(st.iter, ast.Call):
                it = st.iter
                enum_start = None
                cnt_name = None
                val_target = st.target
                if isinstance(it.func, ast.Name) and it.func.id == "enumerate" and it.args and isinstance(it.args[0], ast.Call) and isinstance(st.target, ast.Tuple) and len(st.target.elts) == 2 \
                        and isinstance(st.target.elts[0], ast.Name):
                    sv = it.args[1] if len(it.args) > 1 else norm.kwarg(it, "start")
                    if sv is None or (isinstance(sv, ast.Constant) and isinstance(sv.value, int)):
                        enum_start = sv.value if sv is not None else 0
                        cnt_name = st.target.elts[0].id
                        val_target = st.target.elts[1]
                        it = it.args[0]
                tgen = _inlinable(P, f, it, allow_yield=True) if isinstance(it, ast.Call) else None
                body_ok = not any(isinstance(x, (ast.Break, ast.Continue, ast.Return)) for b in st.body for x in ast.walk(b) if not isinstance(x, (ast.FunctionDef, ast.Lambda)))
                if tgen is not None and body_ok and (enum_start is not None or st.target is val_target) \
                        and not any(isinstance(x, ast.YieldFrom) or (isinstance(x, ast.Yield) and not isinstance(parent(x), ast.Expr)) for x in own_nodes(tgen.node)):
                    counter[0] += 1
                    gbody, _r = _instantiate(tgen, it, f"i{counter[0]}")
                    renames = {}

                    def at_yield(stmts_: List[ast.stmt]) -> List[ast.stmt]:
                        res: List[ast.stmt] = []
                        for s_ in stmts_:
                            if isinstance(s_, ast.Expr) and isinstance(s_.value, ast.Yield):
                                if cnt_name is not None:
                                    res.append(ast.copy_location(ast.AugAssign(target=ast.Name(id=cnt_name, ctx=ast.Store()), op=ast.Add(), value=ast.Constant(1)), s_))
                                yv = s_.value.value
                                tnames = [t_.id for t_ in val_target.elts] if isinstance(val_target, ast.Tuple) and all(isinstance(t_, ast.Name) for t_ in val_target.elts) \
                                    else ([val_target.id] if isinstance(val_target, ast.Name) else None)
                                ynames = [y_.id for y_ in yv.elts] if isinstance(yv, ast.Tuple) and all(isinstance(y_, ast.Name) for y_ in yv.elts) \
                                    else ([yv.id] if isinstance(yv, ast.Name) else None)
                                suffix = f"__i{counter[0]}"
                                if tnames and ynames and len(tnames) == len(ynames) and all(y_.endswith(suffix) for y_ in ynames) and len(set(ynames)) == len(ynames) \
                                        and all(renames.get(y_, t_) == t_ for y_, t_ in zip(ynames, tnames)):
                                    # the generator yields its own locals: they *are* the loop variables of the consumer
                                    renames.update(dict(zip(ynames, tnames)))
                                else:
                                    tg_ = norm.clone(val_target)
                                    res.append(ast.copy_location(ast.Assign(targets=[tg_], value=yv if yv is not None else ast.Constant(None)), s_))
                                res.extend(norm.clone(b) for b in st.body)
                                continue
                            for fld_ in ("body", "orelse", "finalbody"):
                                b_ = getattr(s_, fld_, None)
                                if isinstance(b_, list) and b_ and isinstance(b_[0], ast.stmt):
                                    setattr(s_, fld_, at_yield(b_))
                            if isinstance(s_, ast.Try):
                                for h_ in s_.handlers:
                                    h_.body = at_yield(h_.body)
                            res.append(s_)
                        return res
                    fused = at_yield(gbody)
                    for x in fused:
                        for y in ast.walk(x):
                            if isinstance(y, ast.Name) and y.id in renames:
                                y.id = renames[y.id]
                    pre = []
                    if cnt_name is not None:
                        pre.append(ast.copy_location(ast.Assign(targets=[ast.Name(id=cnt_name, ctx=ast.Store())], value=ast.Constant(enum_start - 1)), st))
                    for x in pre + fused:
                        for y in ast.walk(x):
                            if not hasattr(y, "lineno"):
                                ast.copy_location(y, st)
                    queue[:0] = pre + fused
                    changed_any = True
                    continue
            # `for x in helper(...)` / `if helper(...)`: the call is evaluated exactly once, before the statement
            pos = "iter" if isinstance(st, ast.For) else ("test" if isinstance(st, ast.If) else None)
            if pos and isinstance(getattr(st, pos), ast.Call) and d > 0:
                t2 = _inlinable(P, f, getattr(st, pos))
                if t2 is not None:
                    counter[0] += 1
                    body, ret = _instantiate(t2, getattr(st, pos), f"i{counter[0]}")
                    if ret is not None:
                        body = expand(body, d - 1)
                        for b in body:
                            ast.copy_location(b, b if hasattr(b, "lineno") else st)
                        out.extend(body)
                        setattr(st, pos, ret)
                        changed_any = True
            for fld in ("body", "orelse", "finalbody"):
                b = getattr(st, fld, None)
                if isinstance(b, list) and b and isinstance(b[0], ast.stmt):
                    setattr(st, fld, expand(b, d))
            if isinstance(st, ast.Try):
                for h in st.handlers:
                    h.body = expand(h.body, d)
            out.append(st)
        return out

    node.body = expand(node.body, depth)
    if not changed_any:
        return f
    ast.fix_missing_locations(node)
    for n in ast.walk(node):
        for ch in ast.iter_child_nodes(n):
            ch._parent = n  # type: ignore[attr-defined]
    node._parent = getattr(f.node, "_parent", None)  # type: ignore[attr-defined]
    g = Func(f.mod, f.qual, node, f.cls)
    g.inlined = True  # type: ignore[attr-defined]
    return g


def private_closure(P: Program, f: Func, depth: int = 3) -> Set[str]:
    """Qualified names of f and of the single-use private helpers it (transitively) inlines."""
    out = {f.qual}
    work = [(f, depth)]
    cand: Dict[str, Func] = {}
    while work:
        g, d = work.pop()
        if d <= 0:
            continue
        for c in own_nodes(g.node):
            if isinstance(c, ast.Call):
                t = _inlinable(P, g, c) or (_inlinable(P, g, c, allow_yield=True) if isinstance(parent(c), ast.YieldFrom) else None)
                if t is not None and t.qual not in out:
                    out.add(t.qual)
                    cand[t.qual] = t
                    work.append((t, d - 1))
    # a helper belongs to the closure only if every call site of it in the package lies inside the closure
    changed = True
    while changed:
        changed = False
        for q, t in list(cand.items()):
            if q not in out:
                continue
            for m in P.real_modules():
                for g in m.funcs.values():
                    if g.qual in out and g.mod is t.mod:
                        continue
                    if any(isinstance(x, ast.Call) and norm.call_name(x) == t.name for x in own_nodes(g.node)):
                        out.discard(q)
                        changed = True
    return out


# ---------------------------------------------------------------------------------------------------------------------
# `xs.extend(e for v in it)`  ==  `for v in it: xs.append(e)`   (same elements, same order, same evaluation order)

_DESUGAR_CACHE: Dict = {}


def desugar_extend(f: Func, lists: bool = False) -> Func:
    """A copy of f in which statement-level `X.extend(<one-generator comprehension>)` (and `X += [<comprehension>]`) is written
    as the element-wise loop it abbreviates; f itself if there is nothing to rewrite."""
    k = (id(f.node), lists)
    if k in _DESUGAR_CACHE and _DESUGAR_CACHE[k][0] is f.node:
        return _DESUGAR_CACHE[k][1]
    node = norm.clone(f.node)
    changed = False

    def loop_of(recv: ast.expr, comp, st: ast.stmt) -> Optional[ast.stmt]:
        if not (isinstance(comp, (ast.GeneratorExp, ast.ListComp)) and len(comp.generators) == 1 and not comp.generators[0].is_async):
            return None
        gen = comp.generators[0]
        body: List[ast.stmt] = [ast.Expr(value=ast.Call(func=ast.Attribute(value=norm.clone(recv), attr="append", ctx=ast.Load()), args=[comp.elt], keywords=[]))]
        for c in reversed(gen.ifs):
            body = [ast.If(test=c, body=body, orelse=[])]
        lp = ast.For(target=gen.target, iter=gen.iter, body=body, orelse=[], type_comment=None)
        for x in ast.walk(lp):
            ast.copy_location(x, st)
        for x in ast.walk(lp.target):
            if isinstance(x, ast.Name):
                x.ctx = ast.Store()
        return lp

    def rewrite(stmts: List[ast.stmt]) -> List[ast.stmt]:
        nonlocal changed
        out = []
        for st in stmts:
            new = None
            if isinstance(st, ast.Expr) and isinstance(st.value, ast.Call) and isinstance(st.value.func, ast.Attribute) and st.value.func.attr == "extend" \
                    and len(st.value.args) == 1 and not st.value.keywords and isinstance(st.value.func.value, (ast.Name, ast.Attribute)):
                new = loop_of(st.value.func.value, st.value.args[0], st)
            elif isinstance(st, ast.AugAssign) and isinstance(st.op, ast.Add) and isinstance(st.target, (ast.Name, ast.Attribute)) and isinstance(st.value, ast.ListComp):
                new = loop_of(st.target, st.value, st)
            elif isinstance(st, ast.Assign) and len(st.targets) == 1 and isinstance(st.targets[0], ast.Name) and isinstance(st.value, ast.DictComp) \
                    and len(st.value.generators) == 1 and not st.value.generators[0].is_async and st.targets[0].id not in norm.names_in(st.value):
                # D = {k: v for i in it}   ==   D = {}; for i in it: D[k] = v
                gen = st.value.generators[0]
                store = ast.Assign(targets=[ast.Subscript(value=ast.Name(id=st.targets[0].id, ctx=ast.Load()), slice=st.value.key, ctx=ast.Store())], value=st.value.value)
                body: List[ast.stmt] = [store]
                for c in reversed(gen.ifs):
                    body = [ast.If(test=c, body=body, orelse=[])]
                tgt = norm.clone(gen.target)
                for x in ast.walk(tgt):
                    if isinstance(x, ast.Name):
                        x.ctx = ast.Store()
                init = ast.Assign(targets=[st.targets[0]], value=ast.Dict(keys=[], values=[]))
                lp2 = ast.For(target=tgt, iter=gen.iter, body=body, orelse=[], type_comment=None)
                for x in list(ast.walk(init)) + list(ast.walk(lp2)):
                    if not hasattr(x, "lineno"):
                        ast.copy_location(x, st)
                changed = True
                out.extend([init, lp2])
                continue
            elif lists and isinstance(st, ast.Assign) and len(st.targets) == 1 and isinstance(st.targets[0], ast.Name) and isinstance(st.value, ast.ListComp) \
                    and len(st.value.generators) == 1 and st.targets[0].id not in norm.names_in(st.value):
                # X = [e for v in it]   ==   X = []; for v in it: X.append(e)
                lp3 = loop_of(ast.Name(id=st.targets[0].id, ctx=ast.Load()), st.value, st)
                if lp3 is not None:
                    init = ast.copy_location(ast.Assign(targets=[st.targets[0]], value=ast.copy_location(ast.List(elts=[], ctx=ast.Load()), st)), st)
                    changed = True
                    out.extend([init, lp3])
                    continue
            if new is not None:
                changed = True
                out.append(new)
                continue
            for fld in ("body", "orelse", "finalbody"):
                b = getattr(st, fld, None)
                if isinstance(b, list) and b and isinstance(b[0], ast.stmt):
                    setattr(st, fld, rewrite(b))
            if isinstance(st, ast.Try):
                for h in st.handlers:
                    h.body = rewrite(h.body)
            out.append(st)
        return out

    node.body = rewrite(node.body)
    if not changed:
        _DESUGAR_CACHE[k] = (f.node, f)
        return f
    ast.fix_missing_locations(node)
    for n in ast.walk(node):
        for ch in ast.iter_child_nodes(n):
            ch._parent = n  # type: ignore[attr-defined]
    node._parent = getattr(f.node, "_parent", None)  # type: ignore[attr-defined]
    g = Func(f.mod, f.qual, node, f.cls)
    _DESUGAR_CACHE[k] = (f.node, g)
    return g


# ---------------------------------------------------------------------------------------------------------------------
# expression-level look-through of private predicates:  `self._parents_completed(op)`  ->  all(... for p in op.parents)

_PRED_CACHE: Dict = {}


def inline_predicates(P: Program, f: Func, depth: int = 2) -> Func:
    """A copy of f in which calls of private, side-effect-free helpers of the same class / module whose body is a single
    `return <expr>` are replaced by that expression (parameters -> arguments, comprehension variables renamed apart)."""
    k = (id(P), id(f.node))
    if k in _PRED_CACHE and _PRED_CACHE[k][0] is f.node and _PRED_CACHE[k][1] is P:
        return _PRED_CACHE[k][2]
    changed = [False]
    cnt = [0]

    class T(ast.NodeTransformer):
        def visit_Call(self, c: ast.Call):
            c = self.generic_visit(c)
            fn = c.func
            target = None
            if isinstance(fn, ast.Attribute) and norm.is_name(fn.value, "self") and f.cls:
                cl = f.mod.classes.get(f.cls)
                if cl and fn.attr in cl.methods:
                    target = cl.methods[fn.attr]
            elif isinstance(fn, ast.Name) and fn.id in f.mod.funcs and "." not in fn.id:
                target = f.mod.funcs[fn.id]
            if target is None or same_fn(target, f) or not target.name.startswith("_") or target.name.startswith("__") or target.name in KEEP_CALLS:
                return c
            if c.keywords or any(isinstance(a, ast.Starred) for a in c.args) or target.decorators():
                return c
            body = [s for s in target.node.body if not (isinstance(s, ast.Expr) and isinstance(s.value, ast.Constant)) and not isinstance(s, ast.Pass)]
            if len(body) != 1 or not isinstance(body[0], ast.Return) or body[0].value is None:
                return c
            e = body[0].value
            if any(isinstance(x, (ast.Yield, ast.YieldFrom, ast.Await, ast.NamedExpr, ast.Lambda)) for x in ast.walk(e)):
                return c
            if any(isinstance(x, ast.Call) and not _pure_call(x) for x in ast.walk(e)):
                return c
            params = target.params()
            env: Dict[str, ast.expr] = {}
            if isinstance(fn, ast.Attribute):
                env[params[0]] = fn.value
                params = params[1:]
            if len(params) != len(c.args):
                return c
            for p_, a in zip(params, c.args):
                env[p_] = a
            cnt[0] += 1
            e2 = norm.clone(e)
            bound = {x.id for comp in ast.walk(e2) if isinstance(comp, ast.comprehension) for x in ast.walk(comp.target) if isinstance(x, ast.Name)}
            for x in ast.walk(e2):
                if isinstance(x, ast.Name) and x.id in bound:
                    x.id = f"{x.id}__p{cnt[0]}"
            changed[0] = True
            return norm.Subst(env).visit(e2)

    node = norm.clone(f.node)
    for _ in range(depth):
        before = ast.dump(node)
        node = T().visit(node)
        if ast.dump(node) == before:
            break
    if not changed[0]:
        _PRED_CACHE[k] = (f.node, P, f)
        return f
    ast.fix_missing_locations(node)
    for n in ast.walk(node):
        for ch in ast.iter_child_nodes(n):
            ch._parent = n  # type: ignore[attr-defined]
    node._parent = getattr(f.node, "_parent", None)  # type: ignore[attr-defined]
    g = Func(f.mod, f.qual, node, f.cls)
    _PRED_CACHE[k] = (f.node, P, g)
    return g



# ---------------------------------------------------------------------------------------------------------------------
# the package as the rules see it: every function with its private helpers inlined, minus the helpers that were absorbed

_VIEW_CACHE: Dict = {}


def view_funcs(P: Program, m) -> List[Func]:
    """Functions of module m in the form P.fn() hands them out (helpers inlined); a private helper that is inlined at every one
    of its call sites is not listed on its own (its statements are already seen inside its callers)."""
    k = id(P)
    if k not in _VIEW_CACHE or _VIEW_CACHE[k][0] is not P:
        views: Dict[str, List[Tuple[Func, Func]]] = {}
        still_called: Set[str] = set()
        inlined_somewhere: Set[str] = set()
        for mm in P.modules.values():
            lst = []
            for f in mm.funcs.values():
                v = inline_helpers(P, f)
                lst.append((f, v))
                raw_calls = {norm.call_name(c) for c in own_nodes(f.node) if isinstance(c, ast.Call)}
                view_calls = {norm.call_name(c) for c in own_nodes(v.node) if isinstance(c, ast.Call)}
                still_called |= {n for n in view_calls if n}
                inlined_somewhere |= {n for n in raw_calls - view_calls if n}
            mf = _module_level_func(mm)
            still_called |= {norm.call_name(c) for c in _module_nodes(mm) if isinstance(c, ast.Call)} - {None}
            views[mm.rel] = lst
        absorbed = {n for n in inlined_somewhere if n not in still_called and n.startswith("_") and not n.startswith("__")}
        _VIEW_CACHE[k] = (P, {rel: [v for f, v in lst if f.name not in absorbed] for rel, lst in views.items()})
    return _VIEW_CACHE[k][1].get(m.rel, [])


# ---------------------------------------------------------------------------------------------------------------------
# object aliases:  stats = pool_stats[pool_id]  ...  stats["avail_cpu"] -= x      ==      pool_stats[pool_id]["avail_cpu"] -= x

_DEALIAS_CACHE: Dict = {}


def _is_alias_term(e: ast.expr) -> bool:
    if isinstance(e, ast.Name):
        return True
    if isinstance(e, ast.Attribute):
        return _is_alias_term(e.value)
    if isinstance(e, ast.Subscript):
        return _is_alias_term(e.value) and (isinstance(e.slice, ast.Constant) or isinstance(e.slice, ast.Name))
    return False


def _root_depth(e: ast.expr) -> Tuple[Optional[str], int]:
    dp = 0
    while isinstance(e, (ast.Subscript, ast.Attribute)):
        e = e.value
        dp += 1
    return (e.id if isinstance(e, ast.Name) else None), dp


def dealias(f: Func) -> Func:
    """A copy of f in which a local bound once to an existing object (`d = table[i]`, `pool = self.pools[i]`, operands not re-bound
    before the uses) is replaced by that expression at every use, so that reads and stores through the alias are seen as reads and
    stores of the object itself; f if there is no such local."""
    k = id(f.node)
    if k in _DEALIAS_CACHE and _DEALIAS_CACHE[k][0] is f.node:
        return _DEALIAS_CACHE[k][1]
    binds: Dict[str, List[ast.AST]] = {}
    for n in own_nodes(f.node):
        tgts = []
        if isinstance(n, ast.Assign):
            tgts = n.targets
        elif isinstance(n, (ast.AugAssign, ast.AnnAssign)):
            tgts = [n.target]
        elif isinstance(n, (ast.For, ast.AsyncFor)):
            tgts = [n.target]
        elif isinstance(n, (ast.With, ast.AsyncWith)):
            tgts = [it.optional_vars for it in n.items if it.optional_vars is not None]
        elif isinstance(n, ast.NamedExpr):
            tgts = [n.target]
        for t in tgts:
            for x in ast.walk(t):
                if isinstance(x, ast.Name) and isinstance(x.ctx, ast.Store):
                    binds.setdefault(x.id, []).append(n)
    loc_stores: List[Tuple[str, int, ast.AST]] = []
    for n in own_nodes(f.node):
        tg = []
        if isinstance(n, (ast.Assign, ast.Delete)):
            tg = n.targets
        elif isinstance(n, (ast.AugAssign, ast.AnnAssign)):
            tg = [n.target]
        for t in tg:
            for x in (t.elts if isinstance(t, (ast.Tuple, ast.List)) else [t]):
                if isinstance(x, (ast.Subscript, ast.Attribute)):
                    r_, dp = _root_depth(x)
                    if r_:
                        loc_stores.append((r_, dp, n))
        if isinstance(n, ast.Call) and isinstance(n.func, ast.Attribute) and n.func.attr in MUTATORS:
            r_, dp = _root_depth(n.func.value)
            if r_:
                loc_stores.append((r_, dp, n))
    params = set(f.params())
    env: Dict[str, ast.expr] = {}
    for name, sites in binds.items():
        if len(sites) != 1 or name in params:
            continue
        d = sites[0]
        if not (isinstance(d, ast.Assign) and len(d.targets) == 1 and norm.is_name(d.targets[0], name)):
            continue
        v = d.value
        if not (isinstance(v, ast.Subscript) and _is_alias_term(v)) or name in norm.names_in(v):
            continue     # only element lookups `table[i]` / `a.b[i]`: plain `x = y.z` locals are values more often than objects
        # the location read must not be stored to (directly, or by re-binding / mutating a container on the way to it) between the
        # definition and a use; stores *below* it (table[i]["k"] -= 1 for the alias table[i]) go through the alias and are fine
        b2 = dict(binds)
        root, depth_v = _root_depth(v)
        b2[root] = list(binds.get(root, [])) + [st for (r_, dp, st) in loc_stores if r_ == root and dp <= depth_v]
        if not _operands_stable(f, name, v, b2):
            continue
        env[name] = v
    # aliases of aliases
    for _ in range(3):
        env = {k_: norm.subst(v_, {a: b for a, b in env.items() if a != k_}) for k_, v_ in env.items()}
    if not env:
        _DEALIAS_CACHE[k] = (f.node, f)
        return f
    node = norm.clone(f.node)

    class T(ast.NodeTransformer):
        def visit_Name(self, n: ast.Name):
            if isinstance(n.ctx, ast.Load) and n.id in env:
                return norm.clone(env[n.id])
            return n

        def visit_FunctionDef(self, n):
            return self.generic_visit(n) if n is node else n

        def visit_Lambda(self, n):
            return n
    node = T().visit(node)
    ast.fix_missing_locations(node)
    for n in ast.walk(node):
        for ch in ast.iter_child_nodes(n):
            ch._parent = n  # type: ignore[attr-defined]
    node._parent = getattr(f.node, "_parent", None)  # type: ignore[attr-defined]
    g = Func(f.mod, f.qual, node, f.cls)
    _DEALIAS_CACHE[k] = (f.node, g)
    return g


# ---------------------------------------------------------------------------------------------------------------------
# table-driven case splits:  for bound, a, b in _TABLE: if x < bound: return F(a, b)      ==      the unrolled if-chain

def _literal(e: ast.expr) -> bool:
    if isinstance(e, ast.Constant):
        return True
    if isinstance(e, ast.UnaryOp) and isinstance(e.op, (ast.USub, ast.UAdd)) and isinstance(e.operand, ast.Constant):
        return True
    if isinstance(e, (ast.Tuple, ast.List)):
        return all(_literal(x) for x in e.elts)
    return False


def unroll_const_loops(P: Program, f: Func, limit: int = 24) -> Func:
    """A copy of f in which every `for <targets> in <NAME>` over a module-level (or class-level) constant table of literals is written out:
    one copy of the body per row, the loop variables replaced by the row's literals.  Only loops without break / continue / else."""
    tables: Dict[str, ast.expr] = {k: v for k, v in f.mod.module_assigns().items() if isinstance(v, (ast.Tuple, ast.List)) and _literal(v) and len(v.elts) <= limit}
    if f.cls and f.cls in f.mod.classes:
        for st in f.mod.classes[f.cls].node.body:
            if isinstance(st, ast.Assign) and len(st.targets) == 1 and isinstance(st.targets[0], ast.Name) and isinstance(st.value, (ast.Tuple, ast.List)) and _literal(st.value) \
                    and len(st.value.elts) <= limit:
                tables[f"self.{st.targets[0].id}"] = st.value
                tables[f"{f.cls}.{st.targets[0].id}"] = st.value
    if not tables:
        return f
    changed = [False]

    def expand(stmts: List[ast.stmt]) -> List[ast.stmt]:
        out: List[ast.stmt] = []
        for st in stmts:
            key = norm.U(st.iter) if isinstance(st, ast.For) else None
            if isinstance(st, ast.For) and key in tables and not st.orelse \
                    and not any(isinstance(x, (ast.Break, ast.Continue)) for b in st.body for x in ast.walk(b)):
                rows = tables[key].elts
                tg = st.target
                names = [t.id for t in tg.elts] if isinstance(tg, ast.Tuple) and all(isinstance(t, ast.Name) for t in tg.elts) else ([tg.id] if isinstance(tg, ast.Name) else None)
                # the loop variables must not be used after the loop
                if names is not None and all((len(r.elts) == len(names)) if isinstance(tg, ast.Tuple) else True for r in rows if isinstance(r, (ast.Tuple, ast.List)) or not isinstance(tg, ast.Tuple)):
                    for r in rows:
                        vals = list(r.elts) if isinstance(tg, ast.Tuple) else [r]
                        env = dict(zip(names, vals))
                        for b in st.body:
                            nb = norm.Subst(env).visit(norm.clone(b))
                            out.append(nb)
                    changed[0] = True
                    continue
            for fld in ("body", "orelse", "finalbody"):
                b = getattr(st, fld, None)
                if isinstance(b, list) and b and isinstance(b[0], ast.stmt):
                    setattr(st, fld, expand(b))
            out.append(st)
        return out

    node = norm.clone(f.node)
    node.body = expand(node.body)
    if not changed[0]:
        return f
    ast.fix_missing_locations(node)
    for n in ast.walk(node):
        for ch in ast.iter_child_nodes(n):
            ch._parent = n  # type: ignore[attr-defined]
    node._parent = getattr(f.node, "_parent", None)  # type: ignore[attr-defined]
    return Func(f.mod, f.qual, node, f.cls)
