"""CLI:  /venv/bin/python -m sa.check <C01..C20|all> [--tier quick|thorough] [--repo PATH]

exit 0  every obligation holds (or fails only at listed known findings)
exit 1  at least one unlisted violation (VIOLATION property=<id> replay=<path> printed)
exit 2  ANALYSIS-ERROR (vanished anchor, vacuous rule, internal error)
"""
from __future__ import annotations

import argparse
import importlib
import os
import sys
import time
import traceback


def run_one(prop: str, tier: str, repo: str | None, quiet: bool = False) -> int:
    from . import report
    from .model import AnalysisError, Program
    t0 = time.time()
    try:
        mod = importlib.import_module(f"sa.props.{prop.lower()}")
        P = Program(repo)
        ctx = report.Ctx(P, prop, tier)
        try:
            mod.run(ctx)
        except report.MissingConstruct:
            pass    # the failing obligation is filed; report it (exit 1) instead of evaluating the remaining rules over nothing
        except AnalysisError as e:
            # an anchor function / class / table of the clause is gone from the tree, or no longer has the shape from which the rule reads it:
            # same treatment (a tree that cannot even be parsed fails earlier, in Program(), and stays an analysis error)
            ctx.ob(0, "ANCHOR", f"the code this clause is decided on is present: {e}", False, construct=f"missing: {e}"[:200],
                   detail="the rule has nothing to be evaluated on; without the construct it would pass vacuously")
        extra = {}
        if tier == "thorough":
            from . import mutate
            known = report.load_known()
            if any((not o.ok) and report.match_known(o, known) is None for o in ctx.obs):
                # the tree itself violates: the verdict is the violation; the self-validation sweep (whose silence variants would all
                # "alarm" for the same reason) says nothing about such a tree and is not run
                extra = {"variant_sweep": {"variants_analysed": 0, "skipped": ["sweep not run: the current tree violates the property (reported above)"]}}
            else:
                extra = mutate.sweep(prop, P, ctx)
        seed = int(os.environ.get("VERIF_SEED", "0") or 0)
        return report.finish(ctx, t0, mod.EXPLANATION, mod.ASSUMPTIONS, mod.UNDECIDED, extra, seed)
    except AnalysisError as e:
        print(f"ANALYSIS-ERROR property={prop}: {e}")
        return 2
    except Exception as e:  # internal error: never let a traceback look like a violation
        print(f"ANALYSIS-ERROR property={prop}: internal error {type(e).__name__}: {e}")
        traceback.print_exc()
        return 2


def main(argv=None) -> int:
    ap = argparse.ArgumentParser()
    ap.add_argument("prop")
    ap.add_argument("--tier", default=os.environ.get("VERIF_TIER", "quick"), choices=["quick", "thorough"])
    ap.add_argument("--repo", default=None)
    a = ap.parse_args(argv)
    props = [f"C{i:02d}" for i in range(1, 21)] if a.prop == "all" else [a.prop]
    rc = 0
    for p in props:
        r = run_one(p, a.tier, a.repo)
        rc = max(rc, r)
    return rc


if __name__ == "__main__":
    sys.exit(main())
