"""A3: statement-level control-flow graph for one function, with must-facts, dominators and path queries.

Node kinds
  entry / exit (normal return or fall off the end) / raise (exceptional exit)
  stmt   simple statement (Assign, Expr, Return, Raise, Pass, Delete, Import, nested def, ...)
  test   the condition of an if / while   (out-edges carry the condition, positive or negated)
  for    loop header of a for statement   (out-edges 'iter' and 'done')
  assert an assert statement              (fall-through edge carries the asserted condition)
  with   header of a with statement
Edges:  (target id, label)  with label None | ('cond', nnf) | 'iter' | 'done' | 'exc' | 'back'
"""
from __future__ import annotations

import ast
from typing import Dict, FrozenSet, Iterable, List, Optional, Set, Tuple

from . import norm
from .model import own_nodes

MUTATORS = {"append", "extend", "insert", "remove", "pop", "clear", "update", "setdefault", "sort",
            "add", "discard", "popitem", "reverse", "__setitem__", "__delitem__", "appendleft", "popleft"}


MOD_ATTRS: Dict[str, Set[str]] = {}   # set by Program: callee name -> attribute names it may store to (transitively)
PURE_METHODS: Set[str] = set()   # set by Program: method names all of whose definitions are side-effect free


class Node:
    __slots__ = ("id", "kind", "ast", "succ", "pred", "is_yield", "loop")

    def __init__(self, id_: int, kind: str, a: Optional[ast.AST]):
        self.id = id_
        self.kind = kind
        self.ast = a
        self.succ: List[Tuple[int, object]] = []
        self.pred: List[Tuple[int, object]] = []
        self.is_yield = False
        self.loop = None  # for 'test' nodes of while loops: the While stmt

    def __repr__(self):
        t = norm.U(self.ast)[:60] if self.ast is not None else ""
        return f"<{self.id}:{self.kind} {t!r}>"

    @property
    def line(self) -> int:
        return getattr(self.ast, "lineno", 0)


def _format_hazard(st: ast.AST) -> bool:
    """an f-string field with an integer-only presentation type (d, x, X, o, b, c, n) applied to something that is not an int literal"""
    if isinstance(st, (ast.FunctionDef, ast.AsyncFunctionDef, ast.ClassDef)):
        return False
    for x in ast.walk(st):
        if isinstance(x, ast.FormattedValue) and x.format_spec is not None and isinstance(x.format_spec, ast.JoinedStr):
            spec = "".join(v.value for v in x.format_spec.values if isinstance(v, ast.Constant) and isinstance(v.value, str))
            if spec and spec[-1] in "dxXobcn" and not (isinstance(x.value, ast.Constant) and isinstance(x.value.value, int)) \
                    and not (isinstance(x.value, ast.Call) and isinstance(x.value.func, ast.Name) and x.value.func.id in ("int", "len", "round")):
                return True
    return False


def _contains_yield(n: ast.AST) -> bool:
    if isinstance(n, (ast.Yield, ast.YieldFrom)):
        return True
    for x in own_nodes(n):
        if isinstance(x, (ast.Yield, ast.YieldFrom)):
            return True
    return False


class CFG:
    def __init__(self, fn: ast.AST, env: Optional[Dict[str, ast.expr]] = None):
        self.fn = fn
        self.env = env
        self._orig_node = None
        self.nodes: List[Node] = []
        self.entry = self._new("entry", None)
        self.exit = self._new("exit", None)
        self.raise_ = self._new("raise", None)
        self.stmt_node: Dict[int, Node] = {}     # id(ast stmt) -> main node
        self._handlers: List[List[int]] = []     # stack of active except-handler entry ids
        self._loops: List[Tuple[int, List[int]]] = []  # (continue target, list collecting break sources)
        body = fn.body if not isinstance(fn, ast.Lambda) else [ast.Expr(fn.body)]
        ends = self._block(body, [(self.entry.id, None)])
        for src, lab in ends:
            self._edge(src, self.exit.id, lab)
        self._facts: Optional[Dict[int, FrozenSet]] = None
        self._dom: Optional[Dict[int, Set[int]]] = None
        self._pdom: Optional[Dict[int, Set[int]]] = None

    # -- construction ---------------------------------------------------------------------------
    def _new(self, kind, a) -> Node:
        n = Node(len(self.nodes), kind, a)
        self.nodes.append(n)
        return n

    def _edge(self, a: int, b: int, lab=None):
        self.nodes[a].succ.append((b, lab))
        self.nodes[b].pred.append((a, lab))

    def _attach(self, preds, node: Node):
        for src, lab in preds:
            self._edge(src, node.id, lab)
        if self._handlers:
            for h in self._handlers[-1]:
                self._edge(node.id, h, "exc")

    def _block(self, stmts: List[ast.stmt], preds):
        for st in stmts:
            preds = self._stmt(st, preds)
        return preds

    def _stmt(self, st: ast.stmt, preds):
        if isinstance(st, ast.If):
            t = self._new("test", st)
            self.stmt_node[id(st)] = t
            self._attach(preds, t)
            f = norm.nnf(st.test, True, self.env)
            a = self._block(st.body, [(t.id, ("cond", f))])
            b = self._block(st.orelse, [(t.id, ("cond", norm.neg(f)))])
            return a + b
        if isinstance(st, ast.While):
            t = self._new("test", st)
            t.loop = st
            self.stmt_node[id(st)] = t
            self._attach(preds, t)
            f = norm.nnf(st.test, True, self.env)
            breaks: List[Tuple[int, object]] = []
            self._loops.append((t.id, breaks))
            body_end = self._block(st.body, [(t.id, ("cond", f))])
            self._loops.pop()
            for src, lab in body_end:
                self._edge(src, t.id, lab if lab is not None else "back")
            out = self._block(st.orelse, [(t.id, ("cond", norm.neg(f)))])
            return out + breaks
        if isinstance(st, (ast.For, ast.AsyncFor)):
            h = self._new("for", st)
            self.stmt_node[id(st)] = h
            self._attach(preds, h)
            breaks = []
            one_trip = False
            it = norm.subst(st.iter, self.env) if self.env else st.iter
            if isinstance(it, ast.Call) and isinstance(it.func, ast.Name) and it.func.id == "range" and len(it.args) == 1 \
                    and isinstance(it.args[0], ast.Constant) and it.args[0].value == 1:
                one_trip = True   # range(1): the body runs exactly once; no back edge, no zero-trip exit
            self._loops.append((h.id, breaks))
            body_end = self._block(st.body, [(h.id, "iter")])
            self._loops.pop()
            if one_trip and not any(isinstance(x, ast.Continue) for x in ast.walk(st)):
                out = self._block(st.orelse, body_end)
                return out + breaks
            for src, lab in body_end:
                self._edge(src, h.id, lab if lab is not None else "back")
            out = self._block(st.orelse, [(h.id, "done")])
            return out + breaks
        if isinstance(st, ast.Break):
            n = self._new("stmt", st)
            self.stmt_node[id(st)] = n
            self._attach(preds, n)
            if self._loops:
                self._loops[-1][1].append((n.id, None))
            return []
        if isinstance(st, ast.Continue):
            n = self._new("stmt", st)
            self.stmt_node[id(st)] = n
            self._attach(preds, n)
            if self._loops:
                self._edge(n.id, self._loops[-1][0], "back")
            return []
        if isinstance(st, ast.Return):
            n = self._new("stmt", st)
            self.stmt_node[id(st)] = n
            self._attach(preds, n)
            self._edge(n.id, self.exit.id, None)
            return []
        if isinstance(st, ast.Raise):
            n = self._new("stmt", st)
            self.stmt_node[id(st)] = n
            self._attach(preds, n)
            if self._handlers:
                pass  # already connected to handlers by _attach
            else:
                self._edge(n.id, self.raise_.id, None)
            return []
        if isinstance(st, ast.Assert):
            n = self._new("assert", st)
            self.stmt_node[id(st)] = n
            self._attach(preds, n)
            f = norm.nnf(st.test, True, self.env)
            self._edge(n.id, self.raise_.id, ("cond", norm.neg(f)))
            return [(n.id, ("cond", f))]
        if isinstance(st, (ast.With, ast.AsyncWith)):
            n = self._new("with", st)
            self.stmt_node[id(st)] = n
            self._attach(preds, n)
            return self._block(st.body, [(n.id, None)])
        if isinstance(st, ast.Try):
            # handler entries are created first so that body statements can be linked to them
            join_nodes = []
            hentries = []
            for h in st.handlers:
                hn = self._new("stmt", h)
                self.stmt_node[id(h)] = hn
                hentries.append(hn)
            self._handlers.append([h.id for h in hentries])
            body_end = self._block(st.body, preds)
            self._handlers.pop()
            body_end = self._block(st.orelse, body_end)
            outs = list(body_end)
            for h, hn in zip(st.handlers, hentries):
                if self._handlers:  # nested try: handler bodies may raise to outer handlers
                    for oh in self._handlers[-1]:
                        self._edge(hn.id, oh, "exc")
                outs += self._block(h.body, [(hn.id, None)])
            if st.finalbody:
                outs = self._block(st.finalbody, outs)
            return outs
        # simple statement (incl. nested def/class treated as opaque)
        n = self._new("stmt", st)
        self.stmt_node[id(st)] = n
        n.is_yield = not isinstance(st, (ast.FunctionDef, ast.AsyncFunctionDef, ast.ClassDef)) and _contains_yield(st)
        self._attach(preds, n)
        if not self._handlers and _format_hazard(st):
            # f"{x:d}" raises for a value that is not an integer (a float allocation, say): the statement is an exit by exception
            self._edge(n.id, self.raise_.id, "fmt")
        return [(n.id, None)]

    # -- helpers ----------------------------------------------------------------------------------
    def node_of(self, st: ast.AST) -> Node:
        """Node of the statement that contains `st` (st may be an expression inside it)."""
        from .model import parent
        cur = st
        while cur is not None and id(cur) not in self.stmt_node:
            cur = parent(cur)
        if cur is None:
            # st may be a node of the parsed module while this CFG was built over a copy of the function (helpers inlined,
            # comprehensions written out): find the copy of its statement
            if self._orig_node is None:
                self._orig_node = {}
                for k_, nd in self.stmt_node.items():
                    o = getattr(nd.ast, "_orig", None)
                    if o is not None:
                        self._orig_node[id(o)] = None if id(o) in self._orig_node else nd   # two copies of one statement: ambiguous
            cur = st
            while cur is not None:
                # st itself may be a copy (of another derived form of the same function): go through the node both stand for
                for key in (id(cur), id(getattr(cur, "_orig", cur))):
                    if self._orig_node.get(key) is not None:
                        return self.nodes[self._orig_node[key].id]
                cur = parent(cur)
            raise KeyError("statement not in this CFG")
        return self.nodes[self.stmt_node[id(cur)].id]

    def succ_ids(self, i: int, skip_exc: bool = False) -> List[int]:
        return [t for t, lab in self.nodes[i].succ if not (skip_exc and lab == "exc")]

    # -- must-facts (forward, intersection) ----------------------------------------------------------
    def facts(self, blocked: Optional[Set[int]] = None, start: Optional[int] = None) -> Dict[int, FrozenSet]:
        """facts()[n] = set of atoms (and 'or'-facts) that hold whenever control reaches node n (before it executes).
        With `blocked`, only paths that avoid the blocked nodes are considered (nodes reachable only through them
        get the value None)."""
        if blocked is None and start is None and self._facts is not None:
            return self._facts
        TOP = None
        IN: Dict[int, Optional[FrozenSet]] = {n.id: TOP for n in self.nodes}
        first = self.entry.id if start is None else start   # with `start`: what holds on the paths that begin at that node (nothing is assumed there)
        IN[first] = frozenset()
        work = [first]
        kills = {n.id: _writes(n) for n in self.nodes}
        while work:
            i = work.pop()
            n = self.nodes[i]
            cur = IN[i]
            if cur is None or (blocked and i in blocked):
                continue
            out_base = _kill(cur, kills[i]) | _gen(n)
            for t, lab in n.succ:
                out = out_base
                if lab == "exc":
                    # the statement may have raised midway: its writes may or may not have happened, nothing is established
                    out = _kill(cur, kills[i])
                elif isinstance(lab, tuple) and lab[0] == "cond":
                    add = norm.atoms_true(lab[1])
                    if lab[1] == ("false",) or any(_contradicted(out_base, a_) for a_ in add if a_[0] in ("cmp", "truth")):
                        continue  # the branch condition contradicts what is known: infeasible edge (dead-branch pruning)
                    out = out_base | frozenset(add)
                old = IN[t]
                new = out if old is None else (old & out)
                if old is None or new != old:
                    IN[t] = new
                    work.append(t)
        if blocked is not None or start is not None:
            return IN  # type: ignore[return-value]
        self._facts = {k: (v if v is not None else frozenset()) for k, v in IN.items()}
        self._reach = {k for k, v in IN.items() if v is not None}
        return self._facts

    def reachable(self, i: int) -> bool:
        self.facts()
        return i in self._reach

    def facts_at(self, st: ast.AST) -> FrozenSet:
        return self.facts()[self.node_of(st).id]

    def holds_at(self, st: ast.AST, goal, depth: int = 8) -> bool:
        """Path-sensitive: goal is entailed by the must-facts at st, or — at a join — by the facts of every incoming
        edge (recursively, as long as the node passed does not write a term of the goal).  Keeps disjunctive
        information that the intersection at joins loses (`if not a: assert b` establishes `a or b`)."""
        return self._holds(self.node_of(st).id, goal, depth, frozenset())

    def holds_at_exit(self, goal, depth: int = 8) -> bool:
        return self._holds(self.exit.id, goal, depth, frozenset())

    def holds_on_entry(self, loop: ast.AST, goal, depth: int = 8) -> bool:
        """goal holds whenever the loop is entered from outside (back edges are not considered)."""
        h = self.node_of(loop)
        inside = {id(x) for x in ast.walk(loop)}
        IN = self.facts()
        for p, lab in h.pred:
            pn = self.nodes[p]
            if pn.ast is not None and id(pn.ast) in inside and pn is not h:
                continue
            if not self.reachable(p):
                continue
            out = _kill(IN[p], _writes(pn)) | _gen(pn)
            if isinstance(lab, tuple) and lab[0] == "cond":
                out = out | frozenset(norm.atoms_true(lab[1]))
            if norm.entails(out, goal):
                continue
            if _killed(goal, _writes(pn)) or not self._holds(p, goal, depth, frozenset({h.id})):
                return False
        return True

    def holds_after_iteration(self, loop: ast.AST, goal, depth: int = 8) -> bool:
        """goal holds at the end of every iteration of `loop` that continues to the next one (on every back edge)."""
        h = self.node_of(loop)
        inside = {id(x) for x in ast.walk(loop)}
        IN = self.facts()
        any_edge = False
        for p, lab in h.pred:
            pn = self.nodes[p]
            if pn.ast is None or id(pn.ast) not in inside or pn is h:
                continue
            if not self.reachable(p):
                continue
            any_edge = True
            out = _kill(IN[p], _writes(pn)) | _gen(pn)
            if isinstance(lab, tuple) and lab[0] == "cond":
                out = out | frozenset(norm.atoms_true(lab[1]))
            if norm.entails(out, goal):
                continue
            if _killed(goal, _writes(pn)) or not self._holds(p, goal, depth, frozenset({h.id})):
                return False
        return any_edge

    def _holds(self, i: int, goal, depth: int, seen: FrozenSet[int]) -> bool:
        IN = self.facts()
        if not self.reachable(i):
            return True
        if norm.entails(IN[i], goal):
            return True
        if depth <= 0 or i in seen or i == self.entry.id:
            return False
        seen = seen | {i}
        preds = [(p, lab) for p, lab in self.nodes[i].pred if self.reachable(p)]
        if not preds:
            return False
        for p, lab in preds:
            if lab == "exc":
                return False
            w = _writes(self.nodes[p])
            out = _kill(IN[p], w) | _gen(self.nodes[p])
            if isinstance(lab, tuple) and lab[0] == "cond":
                out = out | frozenset(norm.atoms_true(lab[1]))
            if norm.entails(out, goal):
                continue
            if _killed(goal, w):
                # a plain copy `x = y` (both names) is the one write that can be looked through: before it, the goal with y for x must hold
                pa = self.nodes[p].ast
                if self.nodes[p].kind == "stmt" and isinstance(pa, ast.Assign) and len(pa.targets) == 1 and isinstance(pa.targets[0], ast.Name) and isinstance(pa.value, ast.Name) \
                        and w == {pa.targets[0].id} and goal[0] == "cmp" and pa.value.id != pa.targets[0].id:
                    x, y = pa.targets[0].id, pa.value.id
                    if goal[2] == x or goal[3] == x:
                        g2 = (goal[0], goal[1], y if goal[2] == x else goal[2], y if goal[3] == x else goal[3])
                        if x not in _names_of_text(g2[2])[0] and x not in _names_of_text(g2[3])[0]:
                            if self._holds(p, g2, depth - 1, seen):
                                continue
                return False
            if not self._holds(p, goal, depth - 1, seen):
                return False
        return True

    # -- dominators ---------------------------------------------------------------------------------
    def _compute_dom(self, forward: bool) -> Dict[int, Set[int]]:
        ids = [n.id for n in self.nodes]
        if forward:
            start = {self.entry.id}
            preds = lambda i: [s for s, _ in self.nodes[i].pred]
        else:
            start = {self.exit.id}
            # post-dominance w.r.t. the NORMAL exit; edges into the raise exit are ignored
            preds = lambda i: [t for t, _ in self.nodes[i].succ if t != self.raise_.id]
        allset = set(ids)
        D = {i: (set([i]) if i in start else set(allset)) for i in ids}
        changed = True
        while changed:
            changed = False
            for i in ids:
                if i in start:
                    continue
                ps = preds(i)
                if not ps:
                    new = {i}
                else:
                    new = set.intersection(*(D[p] for p in ps)) | {i}
                if new != D[i]:
                    D[i] = new
                    changed = True
        return D

    def dominates(self, a: ast.AST, b: ast.AST) -> bool:
        """Every path from entry to b passes a."""
        if self._dom is None:
            self._dom = self._compute_dom(True)
        return self.node_of(a).id in self._dom[self.node_of(b).id]

    def postdominates(self, a: ast.AST, b: ast.AST) -> bool:
        """Every path from b to the normal exit passes a (paths that raise are disregarded)."""
        if self._pdom is None:
            self._pdom = self._compute_dom(False)
        return self.node_of(a).id in self._pdom[self.node_of(b).id]

    # -- path queries ---------------------------------------------------------------------------------
    def path_avoiding(self, src: int, targets: Set[int], avoid: Set[int], skip_exc: bool = True,
                      edge_ok=None) -> Optional[List[int]]:
        """A path from the successors of `src` to any node in `targets` that passes no node in `avoid`
        (targets themselves may be in avoid only if they are not meant to be reached).  Returns the path or None."""
        seen = set()
        stack = [(t, [src, t]) for t, lab in self.nodes[src].succ
                 if not (skip_exc and lab == "exc") and (edge_ok is None or edge_ok(src, t, lab))]
        while stack:
            i, path = stack.pop()
            if i in seen:
                continue
            seen.add(i)
            if i in targets:
                return path
            if i in avoid:
                continue
            for t, lab in self.nodes[i].succ:
                if skip_exc and lab == "exc":
                    continue
                if edge_ok is not None and not edge_ok(i, t, lab):
                    continue
                if t not in seen:
                    stack.append((t, path + [t]))
        return None

    def escapes(self, start: ast.AST, through: Set[int], stops: Set[int]) -> Optional[int]:
        """A stop node that a feasible path from `start` reaches without passing a node of `through` (None if there is none).  Feasibility is
        decided on the facts of the paths that begin at `start` (branches whose condition contradicts them are not taken), so
        `v = C(..); ...; if v is not None: use(v)` counts as always using v."""
        s0 = self.node_of(start).id
        IN = self.facts(blocked=set(through), start=s0)
        for t in sorted(stops):
            if t in through:
                continue
            if t == s0:
                # coming round to the start again
                if any(IN[p] is not None and p not in through and self._edge_feasible(IN[p], p, t) for p, _lab in self.nodes[t].pred):
                    return t
                continue
            if IN[t] is not None:
                return t
        return None

    def _edge_feasible(self, cur, i: int, t: int) -> bool:
        n = self.nodes[i]
        out_base = _kill(cur, _writes(n)) | _gen(n)
        for t2, lab in n.succ:
            if t2 != t or lab == "exc":
                continue
            if isinstance(lab, tuple) and lab[0] == "cond":
                add = norm.atoms_true(lab[1])
                if lab[1] == ("false",) or any(_contradicted(out_base, a_) for a_ in add if a_[0] in ("cmp", "truth")):
                    continue
            return True
        return False

    def control_equivalent(self, a: ast.AST, b: ast.AST, loop: Optional[ast.AST] = None) -> bool:
        """a and b execute together: within one iteration of `loop` (or one call, if loop is None) every path through
        one of them passes the other.  Paths that raise are disregarded."""
        na, nb = self.node_of(a).id, self.node_of(b).id
        if na == nb:
            return True
        if loop is not None:
            h = self.node_of(loop).id
            starts, stops = h, {h, self.exit.id}
            ok_edge = lambda x, y, lab: not (x == h and lab == "done")
        else:
            starts, stops = self.entry.id, {self.exit.id}
            ok_edge = None
        # from the start of the iteration: reaching a without b before it, and then leaving without b after it (and vice versa)
        for x, y in ((na, nb), (nb, na)):
            # a path start -> x avoiding y, followed by a path x -> stop avoiding y  == x executes in an iteration without y
            p1 = self.path_avoiding(starts, {x}, {y}, edge_ok=ok_edge)
            if p1 is None:
                continue  # x is always preceded by y: fine in this direction
            p2 = self.path_avoiding(x, stops, {y})
            if p2 is not None:
                return False
        return True

    def describe_path(self, path: List[int]) -> str:
        parts = []
        for i in path:
            n = self.nodes[i]
            if n.kind in ("entry", "exit", "raise"):
                parts.append(n.kind)
            else:
                parts.append(f"L{n.line}")
        return " -> ".join(parts)


# -- gen / write sets / kill -------------------------------------------------------------------------

def _is_term(e: ast.expr) -> bool:
    """Name / attribute / subscript chains with constant or term subscripts (no calls, no arithmetic)."""
    if isinstance(e, ast.Name):
        return True
    if isinstance(e, ast.Attribute):
        return _is_term(e.value)
    if isinstance(e, ast.Subscript):
        return _is_term(e.value) and (isinstance(e.slice, ast.Constant) or _is_term(e.slice))
    return False


def _pure_builtin_call(c: ast.Call) -> bool:
    """a call that only reads: a side-effect-free builtin, or a method known to be a pure reader"""
    n = norm.call_name(c)
    if isinstance(c.func, ast.Name):
        return n in ("any", "all", "len", "isinstance", "callable", "bool", "min", "max", "sum", "abs", "int", "float", "str")
    return n in PURE_METHODS


def _contradicted(known: FrozenSet, atom) -> bool:
    """the atom cannot hold given the known facts: its negation is known — literally, or (for None tests) about a term known equal to its term"""
    ng = norm.neg(atom)
    if ng in known:
        return True
    if atom[0] == "cmp" and atom[1] in ("is", "isnot", "==", "!=") and "None" in (atom[2], atom[3]):
        term = atom[2] if atom[3] == "None" else atom[3]
        cls = {term}
        grew = True
        while grew:
            grew = False
            for k in known:
                if k[0] == "cmp" and k[1] == "==" and (k[2] in cls) != (k[3] in cls):
                    cls.update((k[2], k[3]))
                    grew = True
        isnone = atom[1] in ("is", "==")
        for t in cls:
            if t == "None":
                continue
            for op in (("isnot", "!=") if isnone else ("is", "==")):
                if norm.mk_cmp(op, t, "None") in known or ("cmp", op, t, "None") in known:
                    return True
    return False


def _gen(n: "Node") -> FrozenSet:
    """Facts established by executing the node itself (A6 transfer of assignments):
       x = <numeric literal>  ->  x == literal          x = <term>      ->  x == term
       x = max(a, b, ..)      ->  a <= x, b <= x        x = min(a, ..)  ->  x <= a, ..      (numeric literals / terms only)"""
    a = n.ast
    if n.kind == "stmt" and isinstance(a, ast.Assign) and len(a.targets) == 1 and isinstance(a.targets[0], (ast.Name, ast.Attribute)):
        t = norm.attr_chain(a.targets[0])
        if t is None:
            return frozenset()
        v = a.value
        cv = norm._const(v)
        if cv is not None:
            return frozenset([norm.mk_cmp("==", t, norm.U(v))])
        if isinstance(v, ast.Constant) and v.value is None:
            return frozenset([("cmp", "is", t, "None")])
        if _is_term(v):
            vt = norm.U(v)
            if t not in _names_of_text(vt)[0] and vt != t:
                return frozenset([norm.mk_cmp("==", t, vt)])
        if isinstance(v, ast.Call) and isinstance(v.func, ast.Name) and v.func.id[:1].isupper() and not v.func.id.isupper() and isinstance(a.targets[0], ast.Name):
            return frozenset([("cmp", "isnot", t, "None")])   # x = ClassName(..): a constructed object
        if isinstance(v, ast.Call) and isinstance(v.func, ast.Name) and v.func.id == "next" and len(v.args) == 2 and not v.keywords \
                and isinstance(a.targets[0], ast.Name) and isinstance(v.args[0], ast.GeneratorExp) and len(v.args[0].generators) == 1:
            # x = next((k for k, val in D.items() if COND(k, val)), default):   x is default   or   COND(x, D[x])
            ge = v.args[0]
            gen = ge.generators[0]
            dflt = v.args[1]
            env = None
            if isinstance(ge.elt, ast.Name) and not gen.is_async:
                if isinstance(gen.target, ast.Tuple) and len(gen.target.elts) == 2 and all(isinstance(z, ast.Name) for z in gen.target.elts) \
                        and isinstance(gen.iter, ast.Call) and isinstance(gen.iter.func, ast.Attribute) and gen.iter.func.attr == "items" and not gen.iter.args \
                        and gen.target.elts[0].id == ge.elt.id and _is_term(gen.iter.func.value):
                    env = {gen.target.elts[0].id: ast.Name(id=t, ctx=ast.Load()),
                           gen.target.elts[1].id: ast.Subscript(value=gen.iter.func.value, slice=ast.Name(id=t, ctx=ast.Load()), ctx=ast.Load())}
                elif isinstance(gen.target, ast.Name) and gen.target.id == ge.elt.id:
                    env = {gen.target.id: ast.Name(id=t, ctx=ast.Load())}
            if env is not None and gen.ifs and t not in norm.names_in(ge) and isinstance(dflt, ast.Constant) \
                    and not any(isinstance(z, (ast.Call, ast.NamedExpr, ast.Lambda)) for c_ in gen.ifs for z in ast.walk(c_)):
                cond = norm._mk("and", [norm.nnf(norm.Subst(env).visit(norm.clone(c_)), True, None) for c_ in gen.ifs])
                isd = ("cmp", "is", t, "None") if dflt.value is None else norm.mk_cmp("==", t, norm.U(dflt))
                return frozenset([norm._mk("or", [isd, cond])])
        if isinstance(v, (ast.Compare, ast.BoolOp)) or (isinstance(v, ast.UnaryOp) and isinstance(v.op, ast.Not)) \
                or (isinstance(v, ast.Call) and isinstance(v.func, ast.Name) and v.func.id in ("any", "all", "isinstance", "callable", "bool")):
            # x = <condition>: x is a name for the condition until x or one of its operands is stored to
            #   (x -> C)  and  (not x -> not C), as two ordinary disjunction facts
            if isinstance(a.targets[0], ast.Name) and t not in norm.names_in(v) and not any(isinstance(z, (ast.NamedExpr, ast.Await, ast.Yield, ast.Lambda)) for z in ast.walk(v)) \
                    and all(_pure_builtin_call(z) for z in ast.walk(v) if isinstance(z, ast.Call)):
                C = norm.nnf(v, True, None)
                return frozenset([norm._mk("or", [("truth", t, False), C]), norm._mk("or", [("truth", t, True), norm.neg(C)])])
        if isinstance(v, ast.Call) and isinstance(v.func, ast.Name) and v.func.id in ("max", "min") and v.args and not v.keywords:
            out = set()
            for x in v.args:
                if isinstance(x, ast.Constant) and isinstance(x.value, (int, float)) and not isinstance(x.value, bool):
                    xt = repr(x.value)
                elif norm._const(x) is not None:
                    xt = norm.U(x)          # a signed literal such as -1
                elif _is_term(x) and t not in _names_of_text(norm.U(x))[0]:
                    xt = norm.U(x)
                else:
                    continue
                out.add(("cmp", "<=", xt, t) if v.func.id == "max" else ("cmp", "<=", t, xt))
            return frozenset(out)
    return frozenset()


def _target_texts(t: ast.expr, out: Set[str]):
    if isinstance(t, ast.Name):
        out.add(t.id)
    elif isinstance(t, (ast.Tuple, ast.List)):
        for e in t.elts:
            _target_texts(e, out)
    elif isinstance(t, ast.Starred):
        _target_texts(t.value, out)
    elif isinstance(t, (ast.Attribute, ast.Subscript)):
        out.add(norm.U(t))
        if isinstance(t, ast.Subscript):
            out.add(norm.U(t.value))


def _writes(n: Node) -> Set[str]:
    """Texts (names, attribute chains, subscript bases) written by the node; '@call:<root>' for calls on a receiver."""
    w: Set[str] = set()
    a = n.ast
    if a is None:
        return w
    if n.kind == "for":
        _target_texts(a.target, w)
        scan = [a.iter]
    elif n.kind == "test":
        scan = [a.test]
    elif n.kind == "assert":
        scan = [a.test]
    elif n.kind == "with":
        for it in a.items:
            if it.optional_vars is not None:
                _target_texts(it.optional_vars, w)
        scan = [it.context_expr for it in a.items]
    else:
        if isinstance(a, ast.Assign):
            for t in a.targets:
                _target_texts(t, w)
        elif isinstance(a, (ast.AugAssign, ast.AnnAssign)):
            _target_texts(a.target, w)
        elif isinstance(a, ast.Delete):
            for t in a.targets:
                _target_texts(t, w)
        elif isinstance(a, (ast.FunctionDef, ast.AsyncFunctionDef, ast.ClassDef)):
            w.add(a.name)
            return w
        elif isinstance(a, ast.ExceptHandler):
            if a.name:
                w.add(a.name)
            return w
        scan = [a]
    for s in scan:
        for x in ([s] + list(own_nodes(s))):
            if isinstance(x, ast.NamedExpr):
                _target_texts(x.target, w)
            if isinstance(x, ast.Call) and isinstance(x.func, ast.Attribute):
                recv = x.func.value
                if x.func.attr in MUTATORS:
                    w.add(norm.U(recv))
                root = recv
                while isinstance(root, (ast.Attribute, ast.Subscript, ast.Call)):
                    root = root.value if not isinstance(root, ast.Call) else root.func
                if isinstance(root, ast.Name) and x.func.attr not in PURE_METHODS:
                    w.add("@call:" + root.id)
                for a_ in MOD_ATTRS.get(x.func.attr, ()):
                    w.add("@attr:" + a_)
            elif isinstance(x, ast.Call) and isinstance(x.func, ast.Name):
                for a_ in MOD_ATTRS.get(x.func.id, ()):
                    w.add("@attr:" + a_)
    return w


_NAME_CACHE: Dict[str, Tuple[Set[str], bool]] = {}


def _names_of_text(t: str) -> Tuple[Set[str], bool]:
    r = _NAME_CACHE.get(t)
    if r is None:
        try:
            tree = ast.parse(t, mode="eval")
            names = {n.id for n in ast.walk(tree) if isinstance(n, ast.Name)}
            has_call = any(isinstance(n, ast.Call) and isinstance(n.func, ast.Attribute) for n in ast.walk(tree))
        except SyntaxError:
            names, has_call = set(), True
        r = (names, has_call)
        _NAME_CACHE[t] = r
    return r


_ATTR_CACHE: Dict[str, Set[str]] = {}


def _has_attr(t: str, attr: str) -> bool:
    r = _ATTR_CACHE.get(t)
    if r is None:
        try:
            r = {n.attr for n in ast.walk(ast.parse(t, mode="eval")) if isinstance(n, ast.Attribute) and not _is_call_func(n)}
        except SyntaxError:
            r = set()
        _ATTR_CACHE[t] = r
    return attr in r


def _is_call_func(n) -> bool:
    return False


def _fact_texts(f) -> List[str]:
    if f[0] == "cmp":
        return [f[2], f[3]]
    if f[0] == "truth":
        return [f[1]]
    if f[0] in ("and", "or"):
        out = []
        for k in f[1]:
            out.extend(_fact_texts(k))
        return out
    return []


def _killed(f, writes: Set[str]) -> bool:
    for t in _fact_texts(f):
        names, has_call = _names_of_text(t)
        for w in writes:
            if w.startswith("@call:"):
                if has_call and w[6:] in names:
                    return True
                continue
            if w.startswith("@attr:"):
                if ("." + w[6:]) in t and _has_attr(t, w[6:]):
                    return True
                continue
            if w in names:
                return True
            if ("." in w or "[" in w) and (t == w or t.startswith(w + ".") or t.startswith(w + "[") or t.startswith(w + "(")
                                           or (w + ".") in t or (w + "[") in t or (w + ")") in t or (w + ",") in t or t.endswith(w)):
                return True
    return False


def _kill(facts: FrozenSet, writes: Set[str]) -> FrozenSet:
    if not writes:
        return facts
    return frozenset(f for f in facts if not _killed(f, writes))
