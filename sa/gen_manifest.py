"""Regenerate /verif/MANIFEST.json from the property modules that exist (python -m sa.gen_manifest)."""
import importlib, json, os, sys
VERIF = os.path.dirname(os.path.dirname(os.path.abspath(__file__)))

TECH = {
 "C01": "CFG must-facts + dominance (guard rules), writer inventory, Kahn-invariant guard check of the DAG iterator",
 "C02": "spec-table comparison, assert-before-mutate via CFG must-facts, package-wide writer inventory, suffix-slice flow check",
 "C03": "typestate transfer table over container lists paired with resource deltas (CFG), summed-admission dominance check",
 "C04": "invariant-maintenance path check (re-sum before next consumer), writer inventory, rational-normal-form delta, guard facts at kill sites",
 "C05": "rational normal form of tick/memory formulas, case-split comparison of scaling laws, CFG path rules for tick order and progress, interval analysis",
 "C06": "write-once dataflow, per-iteration bookkeeping dominance, guarded-reduction (emptiness) rule, field-wise flow of statistics",
 "C07": "nondeterminism-source taint scan, runtime-mutated global-state inventory, parameter-dependence (information-flow) check of the generator",
 "C08": "relational-fact abstract interpretation (cpu<=avail, ram<=avail) at every Assignment site, sibling deviance rule, hazard enumeration",
 "C09": "exhaustive-routing validation dominance, typestate move table, one-result-per-exit pairing, field-wise flow",
 "C10": "flag-protocol path rule over yields, validate-before-apply dominance, rational normal form + interval analysis of the duration",
 "C11": "rational normal form of the score, sort-key/order table check, guard facts with interprocedural mod-sets",
 "C12": "queue-order table check, depletion guard facts, who-may-suspend inventory, transient-state two-sided rule",
 "C13": "cursor-discipline CFG rules, comparison-orientation facts, writer/reader forward-map (grid) agreement",
 "C14": "column-table agreement across four artefacts, field-wise identity flow, None-vs-zero discipline on Optional fields, refusal guards",
 "C15": "loop-shape and range rules, threshold-tiling check, parallel-array alignment, liveness/parameter-influence analysis",
 "C16": "queue/priority map agreement across enqueue sites, pool/queue table check, relational guard of the retry cut-off",
 "C17": "one-assignment-per-pool path rule, identity flow of free resources, FIFO pop/requeue flow, drop guards",
 "C18": "literal-shape flow check of assignments, CPU snapshot relational facts, cut-off guard and constant table",
 "C19": "JSON key-table agreement Python/Go, field-based taint (segment secrecy), payload-before-merge ordering, identity decoding flow",
 "C20": "single-column store inventory, exact-selection (sandwich) idiom check, jitter bound/sort/flush rules, keyword-consumer check",
}

def main():
    props = [json.loads(l) for l in open(os.path.join(VERIF, "properties.jsonl"))]
    checks, na = [], []
    sys.path.insert(0, VERIF)
    na_reasons = {}
    nap = os.path.join(VERIF, "not_applicable.json")
    if os.path.exists(nap):
        na_reasons = json.load(open(nap))
    for p in props:
        pid = p["id"]
        try:
            m = importlib.import_module(f"sa.props.{pid.lower()}")
        except ModuleNotFoundError:
            na.append({"property_id": pid, "reason": na_reasons.get(pid, "check not built yet (work in progress)")})
            continue
        if pid in na_reasons:
            na.append({"property_id": pid, "reason": na_reasons[pid]})
            continue
        checks.append({
            "property_id": pid,
            "quick_cmd": f"/venv/bin/python -m sa.check {pid} --tier quick",
            "thorough_cmd": f"/venv/bin/python -m sa.check {pid} --tier thorough",
            "evidence_file": f"/verif/evidence/{pid}.json",
            "replay_cmd_template": "/venv/bin/python -m sa.explain {path}",
            "engine": "sa",
            "level_claimed": {
                "category": "other",
                "text": ("Static analysis of /repo's current source (nothing is executed): " + m.EXPLANATION +
                         "  Decided part only — not decided: " + m.UNDECIDED),
                "design_ref": f"DESIGN.md §7 {pid}",
            },
            "level_note": "Trusted base: CPython 3.12 ast, the analyser in /verif/sa (validated by its own sensitivity/silence sweep in the thorough tier), "
                          "spec tables transcribed from properties.jsonl. Assumptions: " + "; ".join(m.ASSUMPTIONS),
            "technique": "static analysis: " + TECH[pid],
        })
    man = {
        "version": 1,
        "setup_cmd": "/venv/bin/python -c \"import ast, sys; assert sys.version_info >= (3, 12)\"",
        "hooks": {"guard": "EUDOXIA_VERIF", "enable": "none: static analysis reads the sources, no instrumentation is compiled in; no source commit uses the guard",
                  "baseline_off_cmd": "cd /repo && /venv/bin/python -m pytest -ra -q -p no:cacheprovider --timeout=900 --continue-on-collection-errors",
                  "source_commits": [], "add_only": True},
        "engines": [{"name": "sa", "path": "/verif/sa", "serves_properties": [c["property_id"] for c in checks],
                     "kind_free_text": "repository-specific static analyser (pure-stdlib ast): program model, statement CFG with must-facts/dominators/path queries, "
                                       "rational normal form, relational facts, interval analysis, writer inventories, cross-artefact table readers"}],
        "checks": checks,
        "notes": "All checks are static: they parse /repo's working tree on every run and never import or execute repository code. "
                 "Exit 0 = all obligations hold (known findings printed as KNOWN-FINDING lines), 1 = VIOLATION, 2 = ANALYSIS-ERROR. See DESIGN.md.",
        "not_applicable": na,
    }
    json.dump(man, open(os.path.join(VERIF, "MANIFEST.json"), "w"), indent=1)
    print(f"{len(checks)} checks, {len(na)} not applicable")

if __name__ == "__main__":
    main()
