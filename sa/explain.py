"""Replay: re-locate a reported construct in the current tree and print it with context.
   /venv/bin/python -m sa.explain <violation.json>"""
import json, os, sys
from .model import REPO

def main():
    v = json.load(open(sys.argv[1]))
    print(f"property {v['property']}  rule {v['rule']} [{v['kind']}]")
    print(f"requirement: {v['requirement']}")
    print(f"construct  : {v['construct']}")
    print(f"detail     : {v['detail']}")
    rel = v.get("file", "").split("#")[0]
    p = os.path.join(REPO, rel)
    if rel and os.path.exists(p):
        lines = open(p).read().splitlines()
        ln = v.get("line", 0)
        print(f"--- {rel}:{ln} ({v.get('function')}) in the current tree")
        for i in range(max(0, ln - 6), min(len(lines), ln + 5)):
            print(f"{'>>' if i + 1 == ln else '  '} {i + 1:4d} {lines[i]}")
    # re-run the check so that the reader sees whether the construct is still reported
    from .check import run_one
    os.environ.setdefault("SA_OUT", "/tmp/sa-explain-out")
    rc = run_one(v["property"], "quick", None)
    print(f"current verdict of {v['property']}: exit {rc}")
    return 0

if __name__ == "__main__":
    sys.exit(main())
