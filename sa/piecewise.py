"""Case split of small pure functions: every acyclic path through the function body gives (conditions, returned expression),
with local assignments substituted along the path.  Used to compare piecewise-defined laws (scaling functions,
get_peak_memory_gb) with a spec table.  Loops are not supported (-> Unsupported)."""
from __future__ import annotations

import ast
import copy
from typing import Dict, List, Optional, Tuple

from . import norm


class Unsupported(Exception):
    pass


Case = Tuple[frozenset, Optional[ast.expr]]   # (atoms known true, returned expression or None for fall-off)


def cases(fn: ast.FunctionDef, rename: Optional[Dict[str, str]] = None, limit: int = 32) -> List[Case]:
    out: List[Case] = []

    def sub(e: ast.expr, env: Dict[str, ast.expr]) -> ast.expr:
        e2 = norm.subst(e, env)
        if rename:
            e2 = norm.subst(e2, {k: ast.Name(v, ast.Load()) for k, v in rename.items()})
        return e2

    def run(stmts: List[ast.stmt], env: Dict[str, ast.expr], conds: frozenset, rest: List[List[ast.stmt]]):
        if len(out) > limit:
            raise Unsupported("too many paths")
        for i, st in enumerate(stmts):
            if isinstance(st, ast.Expr) and isinstance(st.value, ast.Constant):
                continue  # docstring
            if isinstance(st, ast.Return):
                v = st.value

                def _replace(n, target, by):
                    if n is target:
                        return by
                    if isinstance(n, ast.AST):
                        new_ = n.__class__()
                        for f__ in n._fields:
                            if hasattr(n, f__):
                                setattr(new_, f__, _replace(getattr(n, f__), target, by))
                        for a__ in ("lineno", "col_offset", "end_lineno", "end_col_offset"):
                            if hasattr(n, a__):
                                setattr(new_, a__, getattr(n, a__))
                        return new_
                    if isinstance(n, list):
                        return [_replace(x, target, by) for x in n]
                    return n

                def _ren(e):
                    return norm.subst(e, {k: ast.Name(v_, ast.Load()) for k, v_ in rename.items()}) if rename else e

                def emit(e, cs):
                    # a conditional expression is a case split like any other — also when it sits inside the returned expression
                    # (`b / (c if c < 3 else 3)`; the laws are pure, so lifting the test out changes nothing)
                    if e is None:
                        out.append((cs, None))
                        return
                    if len(out) > limit:
                        raise Unsupported("too many paths")
                    inner = next((x for x in ast.walk(e) if isinstance(x, ast.IfExp)), None)
                    if inner is None:
                        out.append((cs, _ren(e)))
                        return
                    f_ = norm.nnf(_ren(inner.test))
                    emit(_replace(e, inner, inner.body), cs | frozenset(norm.atoms_true(f_)))
                    emit(_replace(e, inner, inner.orelse), cs | frozenset(norm.atoms_true(norm.neg(f_))))
                v = norm.subst(v, env) if v is not None else None
                emit(v, conds)
                return
            if isinstance(st, ast.Raise):
                return
            if isinstance(st, ast.Assign) and len(st.targets) == 1 and isinstance(st.targets[0], ast.Name) and isinstance(st.value, ast.IfExp):
                # x = A if C else B   is   if C: x = A  else: x = B
                a_ = ast.copy_location(ast.Assign(targets=st.targets, value=st.value.body), st)
                b_ = ast.copy_location(ast.Assign(targets=st.targets, value=st.value.orelse), st)
                tail = stmts[i + 1:]
                f = norm.nnf(sub(st.value.test, env))
                run([a_] + tail, env, conds | frozenset(norm.atoms_true(f)), rest)
                run([b_] + tail, env, conds | frozenset(norm.atoms_true(norm.neg(f))), rest)
                return
            if isinstance(st, ast.Assign) and len(st.targets) == 1 and isinstance(st.targets[0], ast.Name):
                env = dict(env)
                env[st.targets[0].id] = norm.subst(st.value, env)
                continue
            if isinstance(st, ast.If):
                t = sub(st.test, env)
                f = norm.nnf(t)
                tail = stmts[i + 1:]
                run(st.body + tail, env, conds | frozenset(norm.atoms_true(f)), rest)
                run(st.orelse + tail, env, conds | frozenset(norm.atoms_true(norm.neg(f))), rest)
                return
            if isinstance(st, ast.Pass):
                continue
            raise Unsupported(f"statement {type(st).__name__}")
        out.append((conds, None))

    run(fn.body, {}, frozenset(), [])
    return out
