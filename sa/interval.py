"""A7/K9: lower bounds of integer-valued expressions (sound, incomplete)."""
from __future__ import annotations

import ast
import math
from typing import Callable, Dict, Optional

from . import norm

NEG_INF = float("-inf")


def lower_bound(e: ast.expr, env: Optional[Dict[str, ast.expr]] = None, positive: Callable[[str], Optional[float]] = None,
                depth: int = 6) -> float:
    """A lower bound of the value of e.  `positive(text)` may give a known lower bound for an atom (e.g. 0 for an
    allocation that Assignment.__init__ asserts to be > 0)."""
    env = env or {}
    if depth <= 0:
        return NEG_INF
    if isinstance(e, ast.Constant) and isinstance(e.value, (int, float)) and not isinstance(e.value, bool):
        return e.value
    if isinstance(e, ast.UnaryOp) and isinstance(e.op, ast.UAdd):
        return lower_bound(e.operand, env, positive, depth)
    t = norm.attr_chain(e) if isinstance(e, (ast.Name, ast.Attribute)) else None
    if t is not None:
        if t in env:
            return lower_bound(env[t], env, positive, depth - 1)
        if positive is not None:
            v = positive(t)
            if v is not None:
                return v
        return NEG_INF
    if isinstance(e, ast.Call):
        fn = norm.call_name(e)
        if fn == "max" and e.args and not e.keywords:
            return max(lower_bound(a, env, positive, depth) for a in e.args)
        if fn == "min" and e.args and not e.keywords:
            return min(lower_bound(a, env, positive, depth) for a in e.args)
        if fn in ("int", "floor") and len(e.args) == 1:
            lb = lower_bound(e.args[0], env, positive, depth)
            if lb == NEG_INF:
                return NEG_INF
            return math.floor(lb) if lb >= 0 or fn == "floor" else math.ceil(lb)  # int() truncates toward zero
        if fn == "ceil" and len(e.args) == 1:
            lb = lower_bound(e.args[0], env, positive, depth)
            return NEG_INF if lb == NEG_INF else math.ceil(lb)
        if fn == "len":
            return 0
        if fn == "abs":
            return 0
        if fn == "sum" and len(e.args) == 1 and isinstance(e.args[0], (ast.GeneratorExp, ast.ListComp)):
            lb = lower_bound(e.args[0].elt, env, positive, depth)
            return 0 if lb >= 0 else NEG_INF
        if positive is not None:
            v = positive(norm.U(e))
            if v is not None:
                return v
        return NEG_INF
    if isinstance(e, ast.BinOp):
        a = lower_bound(e.left, env, positive, depth)
        b = lower_bound(e.right, env, positive, depth)
        if isinstance(e.op, ast.Add):
            return a + b if NEG_INF not in (a, b) else NEG_INF
        if isinstance(e.op, ast.Mult):
            return a * b if a >= 0 and b >= 0 else NEG_INF
        if isinstance(e.op, (ast.Div, ast.FloorDiv)):
            # x / y with x >= 0 and y > 0 is >= 0 (we only know lower bounds, so the quotient's bound is 0)
            if a >= 0 and strictly_positive(e.right, env, positive, depth - 1):
                return 0
            return NEG_INF
    if isinstance(e, ast.IfExp):
        return min(lower_bound(e.body, env, positive, depth), lower_bound(e.orelse, env, positive, depth))
    if positive is not None:
        v = positive(norm.U(e))
        if v is not None:
            return v
    return NEG_INF


def strictly_positive(e: ast.expr, env=None, positive=None, depth: int = 6) -> bool:
    env = env or {}
    if depth <= 0:
        return False
    if isinstance(e, ast.Constant) and isinstance(e.value, (int, float)) and not isinstance(e.value, bool):
        return e.value > 0
    t = norm.attr_chain(e) if isinstance(e, (ast.Name, ast.Attribute)) else None
    if t is not None:
        if t in env:
            return strictly_positive(env[t], env, positive, depth - 1)
        return positive is not None and positive("__strict__:" + t) is not None
    if isinstance(e, ast.BinOp):
        if isinstance(e.op, (ast.Mult, ast.Div)):
            return strictly_positive(e.left, env, positive, depth) and strictly_positive(e.right, env, positive, depth)
        if isinstance(e.op, ast.Add):
            l, r = strictly_positive(e.left, env, positive, depth), strictly_positive(e.right, env, positive, depth)
            return (l and lower_bound(e.right, env, positive, depth) >= 0) or (r and lower_bound(e.left, env, positive, depth) >= 0)
    if isinstance(e, ast.Call):
        fn = norm.call_name(e)
        if fn == "max" and e.args:
            return any(strictly_positive(a, env, positive, depth) for a in e.args)
        if fn == "min" and e.args:
            return all(strictly_positive(a, env, positive, depth) for a in e.args)
        if fn == "float" and len(e.args) == 1:
            return strictly_positive(e.args[0], env, positive, depth)
    return positive is not None and positive("__strict__:" + norm.U(e)) is not None
