"""A5: rational normal form.  Arithmetic ASTs are normalised to a quotient of polynomials with Fraction coefficients
over atoms; two expressions agree over the reals iff  n1*d2 - n2*d1  is the zero polynomial.

A polynomial is a dict  {monomial: Fraction}  with monomial = tuple(sorted((atom, power), ...)).
Atoms: names / attribute chains / subscripts / uninterpreted calls (text after substitution).  floor()/int()/math.floor
are kept as uninterpreted unary functions FLOOR(<normalised argument>) so that `int(x / t)` and `math.floor(x * r)` agree
when x/t == x*r over the reals.
"""
from __future__ import annotations

import ast
from fractions import Fraction
from typing import Dict, Optional, Tuple

from . import norm

Poly = Dict[tuple, Fraction]


def p_const(c) -> Poly:
    c = Fraction(c)
    return {(): c} if c != 0 else {}


def p_atom(a: str) -> Poly:
    return {((a, 1),): Fraction(1)}


def p_add(a: Poly, b: Poly, sign: int = 1) -> Poly:
    out = dict(a)
    for m, c in b.items():
        out[m] = out.get(m, Fraction(0)) + sign * c
        if out[m] == 0:
            del out[m]
    return out


def _mmul(m1: tuple, m2: tuple) -> tuple:
    d = dict(m1)
    for a, p in m2:
        d[a] = d.get(a, 0) + p
    return tuple(sorted((a, p) for a, p in d.items() if p != 0))


def p_mul(a: Poly, b: Poly) -> Poly:
    out: Poly = {}
    for m1, c1 in a.items():
        for m2, c2 in b.items():
            m = _mmul(m1, m2)
            out[m] = out.get(m, Fraction(0)) + c1 * c2
            if out[m] == 0:
                del out[m]
    return out


class Rat:
    def __init__(self, n: Poly, d: Optional[Poly] = None):
        self.n = n
        self.d = d if d is not None else p_const(1)

    def __add__(self, o): return Rat(p_add(p_mul(self.n, o.d), p_mul(o.n, self.d)), p_mul(self.d, o.d))
    def __sub__(self, o): return Rat(p_add(p_mul(self.n, o.d), p_mul(o.n, self.d), -1), p_mul(self.d, o.d))
    def __mul__(self, o): return Rat(p_mul(self.n, o.n), p_mul(self.d, o.d))
    def __truediv__(self, o): return Rat(p_mul(self.n, o.d), p_mul(self.d, o.n))
    def __neg__(self): return Rat(p_add({}, self.n, -1), self.d)

    def equals(self, o: "Rat") -> bool:
        if not self.d or not o.d:
            return False
        return p_add(p_mul(self.n, o.d), p_mul(o.n, self.d), -1) == {}

    def is_const(self) -> Optional[Fraction]:
        # constant iff n == c*d
        if len(self.d) == 1 and () in self.d:
            if not self.n:
                return Fraction(0)
            if len(self.n) == 1 and () in self.n:
                return self.n[()] / self.d[()]
        return None

    def text(self) -> str:
        def pt(p: Poly) -> str:
            if not p:
                return "0"
            parts = []
            for m, c in sorted(p.items(), key=lambda kv: repr(kv[0])):
                ms = "*".join(a if pw == 1 else f"{a}^{pw}" for a, pw in m)
                if not ms:
                    parts.append(str(c))
                elif c == 1:
                    parts.append(ms)
                else:
                    parts.append(f"{c}*{ms}")
            return " + ".join(parts)
        d = pt(self.d)
        return pt(self.n) if d == "1" else f"({pt(self.n)}) / ({d})"

    def canon(self) -> str:
        """A canonical text: only meaningful for comparing via equals(); used inside FLOOR atoms."""
        # normalise so that the lexicographically first denominator coefficient is 1
        if not self.d:
            return "nan"
        k = sorted(self.d.items(), key=lambda kv: repr(kv[0]))[0][1]
        n = {m: c / k for m, c in self.n.items()}
        d = {m: c / k for m, c in self.d.items()}
        return Rat(n, d).text()


class NotArithmetic(Exception):
    pass


FLOOR_NAMES = {"int", "floor"}


def to_rat(e: ast.expr, env=None, consts: Optional[Dict[str, object]] = None) -> Rat:
    """env: single-definition locals to substitute; consts: names bound to numeric literals (e.g. DISK_SCAN_GB_SEC=20)."""
    e = norm.subst(e, env)
    return _rat(e, consts or {})


def _rat(e: ast.expr, consts) -> Rat:
    if isinstance(e, ast.Constant) and isinstance(e.value, (int, float)) and not isinstance(e.value, bool):
        return Rat(p_const(Fraction(str(e.value)) if isinstance(e.value, float) else e.value))
    if isinstance(e, ast.UnaryOp) and isinstance(e.op, ast.USub):
        return -_rat(e.operand, consts)
    if isinstance(e, ast.UnaryOp) and isinstance(e.op, ast.UAdd):
        return _rat(e.operand, consts)
    if isinstance(e, ast.BinOp):
        if isinstance(e.op, ast.Add):
            return _rat(e.left, consts) + _rat(e.right, consts)
        if isinstance(e.op, ast.Sub):
            return _rat(e.left, consts) - _rat(e.right, consts)
        if isinstance(e.op, ast.Mult):
            return _rat(e.left, consts) * _rat(e.right, consts)
        if isinstance(e.op, ast.Div):
            return _rat(e.left, consts) / _rat(e.right, consts)
        if isinstance(e.op, ast.Pow) and isinstance(e.right, ast.Constant) and isinstance(e.right.value, int) and 0 <= e.right.value <= 4:
            r = Rat(p_const(1))
            b = _rat(e.left, consts)
            for _ in range(e.right.value):
                r = r * b
            return r
        if isinstance(e.op, ast.FloorDiv):
            q = _rat(e.left, consts) / _rat(e.right, consts)
            return Rat(p_atom(f"FLOOR({q.canon()})"))
    if isinstance(e, ast.Name) and e.id in consts:
        return Rat(p_const(Fraction(str(consts[e.id]))))
    if isinstance(e, ast.Call):
        fn = norm.call_name(e)
        if fn in FLOOR_NAMES and len(e.args) == 1 and not e.keywords:
            inner = _rat(e.args[0], consts)
            c = inner.is_const()
            if c is not None:
                import math
                return Rat(p_const(math.floor(c)))
            return Rat(p_atom(f"FLOOR({inner.canon()})"))
        if fn == "float" and len(e.args) == 1:
            return _rat(e.args[0], consts)
        if fn == "power" and len(e.args) == 2 and isinstance(e.args[1], ast.Constant) and isinstance(e.args[1].value, int) \
                and 0 <= e.args[1].value <= 4:
            r = Rat(p_const(1))
            b = _rat(e.args[0], consts)
            for _ in range(e.args[1].value):
                r = r * b
            return r
        if fn in ("max", "min") and e.args and not e.keywords:
            parts = sorted(_rat(a, consts).canon() for a in e.args)
            return Rat(p_atom(f"{fn.upper()}({', '.join(parts)})"))
        if fn in ("sqrt", "log", "exp") and len(e.args) == 1:
            return Rat(p_atom(f"{fn}({_rat(e.args[0], consts).canon()})"))
        # uninterpreted call
        return Rat(p_atom(norm.U(e)))
    if isinstance(e, (ast.Name, ast.Attribute, ast.Subscript)):
        return Rat(p_atom(norm.U(e)))
    raise NotArithmetic(norm.U(e))


def same(e1: ast.expr, e2: ast.expr, env=None, consts=None) -> bool:
    try:
        return to_rat(e1, env, consts).equals(to_rat(e2, env, consts))
    except NotArithmetic:
        return False


def parse(text: str) -> ast.expr:
    return ast.parse(text, mode="eval").body
