"""Analyse a one-edit variant of the current tree (never runs it).
  python -m sa.variant C02 FILE OLD NEW [FILE OLD NEW ...]     textual edits, each OLD must occur exactly once
  python -m sa.variant C02 --patch file.diff                     a git patch
Prints the check output for the variant; the scratch copy lives in a tempdir and is removed.
"""
import os, shutil, subprocess, sys, tempfile
from .model import REPO

def copy_tree(repo, d):
    """the whole working tree (a patch may also touch README, tests, ...), without VCS data and caches"""
    for name in sorted(os.listdir(repo)):
        if name in (".git", "__pycache__", ".pytest_cache") or name.endswith(".egg-info"):
            continue
        src = os.path.join(repo, name)
        if os.path.isdir(src):
            shutil.copytree(src, os.path.join(d, name), ignore=shutil.ignore_patterns("__pycache__", ".pytest_cache"))
        elif os.path.isfile(src):
            shutil.copy(src, os.path.join(d, name))


def make_variant(edits=None, patch=None, repo=REPO):
    d = tempfile.mkdtemp(prefix="sa-variant-")
    copy_tree(repo, d)
    if patch:
        r = subprocess.run(["patch", "-p1", "-s", "-i", os.path.abspath(patch)], cwd=d, capture_output=True, text=True)
        if r.returncode != 0:
            shutil.rmtree(d); raise SystemExit(f"patch failed: {r.stdout}{r.stderr}")
    for (f, old, new) in edits or []:
        p = os.path.join(d, f)
        s = open(p).read()
        if s.count(old) != 1:
            shutil.rmtree(d); raise SystemExit(f"edit not applicable: {old!r} occurs {s.count(old)} times in {f}")
        open(p, "w").write(s.replace(old, new))
    return d

def main():
    a = sys.argv[1:]
    prop = a[0]
    if a[1] == "--patch":
        d = make_variant(patch=a[2])
    else:
        rest = a[1:]
        edits = [(rest[i], rest[i+1], rest[i+2]) for i in range(0, len(rest), 3)]
        d = make_variant(edits)
    try:
        from .check import run_one
        os.environ["SA_OUT"] = d
        rc = 0
        for p in prop.split(","):
            rc = max(rc, run_one(p, "quick", d))
        print("rc =", rc)
    finally:
        shutil.rmtree(d)

if __name__ == "__main__":
    main()
