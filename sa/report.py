"""Obligations, verdicts, exit codes, evidence files and known findings (DESIGN §5)."""
from __future__ import annotations

import ast
import json
import os
import re
import time
from dataclasses import dataclass, field
from typing import Any, Dict, List, Optional

from .model import AnalysisError, Func, Program, stmt_text

VERIF = os.path.dirname(os.path.dirname(os.path.abspath(__file__)))
KNOWN_FINDINGS = os.path.join(VERIF, "known_findings.json")


@dataclass
class Obligation:
    oid: str            # e.g. "C03#2"
    kind: str           # rule kind K1..K18
    what: str           # requirement in words
    file: str = ""
    func: str = ""
    line: int = 0
    construct: str = ""  # normalised statement text / instance name (key material, no line numbers)
    ok: bool = True
    detail: str = ""     # facts / terms that decided it, or what is missing
    nontrivial: bool = True

    def key(self) -> str:
        return f"{self.oid}|{self.file}|{self.func}|{self.construct}"

    def sample(self) -> str:
        loc = f"{self.file}:{self.line}" if self.file else "-"
        v = "holds" if self.ok else "VIOLATED"
        return f"{self.oid} [{self.kind}] @ {loc} {self.func} :: {self.construct} -- {v} -- {self.detail}"[:600]


class Ctx:
    """Collects the obligations of one property check."""

    def __init__(self, P: Program, prop: str, tier: str = "quick"):
        self.P = P
        self.prop = prop
        self.tier = tier
        self.obs: List[Obligation] = []
        self.files: Dict[str, str] = {}
        self.funcs: set = set()
        self.notes: List[str] = []
        self.counts: Dict[str, int] = {}

    def touch(self, f: Func):
        self.files[f.mod.rel] = f.mod.sha
        self.funcs.add(f"{f.mod.rel}::{f.qual}")

    def ob(self, num, kind: str, what: str, ok: bool, fn: Optional[Func] = None, node: Optional[ast.AST] = None,
           construct: Optional[str] = None, detail: str = "", nontrivial: bool = True, file: str = "") -> bool:
        oid = f"{self.prop}#{num}"
        o = Obligation(oid, kind, what, ok=bool(ok), detail=detail, nontrivial=nontrivial)
        if fn is not None:
            self.touch(fn)
            o.file, o.func = fn.mod.rel, fn.qual
            if node is not None:
                o.line = fn.mod.line(node)
        elif file:
            o.file = file
        if construct is None:
            construct = stmt_text(node) if node is not None else what
        o.construct = re.sub(r"\s+", " ", construct).strip()[:200]
        self.obs.append(o)
        return bool(ok)

    def need(self, cond: bool, msg: str):
        """Fail closed: the analysis itself cannot proceed (anchor vanished, count below confirmed minimum)."""
        if not cond:
            # the construct a clause is decided on is not there (deleted, renamed, or rewritten beyond recognition): reported like a failed
            # minimum count — as a violation that names what is missing — rather than as a broken analysis
            self.ob(0, "ANCHOR", f"the code this clause is decided on is present: {msg}", False, construct=f"missing: {msg}"[:200],
                    detail="the rule has nothing to be evaluated on; without the construct it would pass vacuously")
            raise MissingConstruct(msg)

    def count_min(self, label: str, found: int, minimum: int):
        """Fail closed on vacuity: the statements a clause is decided on were confirmed by hand on the pinned tree (`minimum` of them).
        When fewer are found the construct that implements the clause is gone (deleted, or rewritten beyond what the rule
        recognises): that is reported as a violation naming the construct, and the remaining obligations of this check, which
        would be evaluated over nothing, are not."""
        self.counts[label] = found
        if found < minimum:
            self.ob(0, "COUNT", f"the code this clause is decided on is present: {label} (at least {minimum} confirmed on the pinned tree)", False,
                    construct=f"missing: {label}", detail=f"found {found}, expected at least {minimum}; without it the rule would pass vacuously")
            raise MissingConstruct(label)


class MissingConstruct(Exception):
    """raised by Ctx.count_min after the failing obligation has been filed: stop evaluating, report what was found"""


def load_known() -> Dict[str, Any]:
    if not os.path.exists(KNOWN_FINDINGS):
        return {"findings": [], "fixed": []}
    return json.load(open(KNOWN_FINDINGS))


def match_known(o: Obligation, known: Dict[str, Any]) -> Optional[Dict[str, Any]]:
    for k in known.get("findings", []):
        if k.get("property") != o.oid.split("#")[0]:
            continue
        if k.get("rule") != o.oid:
            continue
        if k.get("file") and k["file"] != o.file:
            continue
        if k.get("function") and k["function"] != o.func:
            continue
        if k.get("construct") and k["construct"] != o.construct:
            continue
        return k
    return None


def finish(ctx: Ctx, t0: float, explanation: str, assumptions: List[str], undecided: str,
           extra: Optional[Dict[str, Any]] = None, seed: int = 0) -> int:
    """Print the verdict lines, write the evidence file, return the exit code."""
    known = load_known()
    viol: List[Obligation] = []
    knownhits: List[str] = []
    for o in ctx.obs:
        if o.ok:
            continue
        k = match_known(o, known)
        if k is not None:
            line = (f"KNOWN-FINDING: property={ctx.prop} {o.oid} {o.file}::{o.func}::{o.construct} -- "
                    f"{k.get('what', o.detail)}")
            print(line)
            knownhits.append(line)
        else:
            viol.append(o)
    base = os.environ.get("SA_OUT") or VERIF   # variants (sweeps, experiments) write elsewhere
    outdir = os.path.join(base, "out", "violations")
    paths = []
    if viol:
        os.makedirs(outdir, exist_ok=True)
        for i, o in enumerate(viol, 1):
            p = os.path.join(outdir, f"{ctx.prop}-{i}.json")
            json.dump({"property": ctx.prop, "rule": o.oid, "kind": o.kind, "requirement": o.what,
                       "file": o.file, "line": o.line, "function": o.func, "construct": o.construct,
                       "detail": o.detail, "key": o.key()}, open(p, "w"), indent=1)
            paths.append(p)
            print(f"VIOLATION property={ctx.prop} replay={p}")
            print(f"  {o.oid} [{o.kind}] {o.file}:{o.line} {o.func}: {o.what}")
            print(f"    construct: {o.construct}")
            print(f"    {o.detail}")
    n = len(ctx.obs)
    held = sum(1 for o in ctx.obs if o.ok)
    nontriv = len({o.key() for o in ctx.obs if o.nontrivial})
    samples = [o.sample() for o in ctx.obs]
    cov: Dict[str, Any] = {
        "explanation": explanation,
        "obligations": n,
        "discharged": held,
        "evaluations": n,
        "distinct_nontrivial": nontriv,
        "rule": ("one evaluation = one rule instance (obligation) located in the current source and decided; it is "
                 "counted non-trivial when its anchor was located and the verdict depended on at least one condition, "
                 "term or table entry read from the source (vacuous instances are flagged and excluded); distinct by "
                 "(rule, file, function, construct)"),
        "samples": samples,
        "exhaustive": False,
        "not_decided": undecided,
        "files_analysed": ctx.files,
        "functions_analysed": sorted(ctx.funcs),
        "instance_counts": ctx.counts,
        "known_findings_printed": knownhits,
        "violation_reports": paths,
        "tree_digest": ctx.P.digest(),
        "checker_cmd": f"/venv/bin/python -m sa.check {ctx.prop} --tier {ctx.tier}",
        "trusted_base": ["CPython 3.12 ast", "the analyser in /verif/sa", "spec tables transcribed from properties.jsonl"],
    }
    if extra:
        cov.update(extra)
    ev = {
        "property_id": ctx.prop,
        "tier": ctx.tier,
        "seed": seed,
        "level": "other",
        "coverage": cov,
        "assumptions": assumptions,
        "wall_s": round(time.time() - t0, 3),
        "violations": len(viol),
    }
    os.makedirs(os.path.join(base, "evidence"), exist_ok=True)
    json.dump(ev, open(os.path.join(base, "evidence", f"{ctx.prop}.json"), "w"), indent=1)
    print(f"{ctx.prop}: {held}/{n} obligations hold, {len(knownhits)} known finding(s), {len(viol)} violation(s) "
          f"[{ctx.tier}, {ev['wall_s']}s]")
    return 1 if viol else 0
