"""Generic mutation survey (a development aid, not a registered check): apply classic mutation operators to the functions a
property's check analysed, run the check on every mutant (statically), and list the survivors for manual review.

   python -m sa.mutscore C03 [--max 400]

Operators: ROR (relational operator replacement), LCR (and/or swap, not-insertion on tests), SDL (deletion of a simple statement),
CRP (numeric constant +1/-1, 0<->1), AOR (+/-, */ swap), ARG (swap of two positional/keyword argument values of the same call).
Mutants are analysed, never run.  Survivors are not necessarily gaps: many mutants do not break the property.
"""
from __future__ import annotations

import ast
import json
import os
import shutil
import subprocess
import sys
import tempfile
from concurrent.futures import ThreadPoolExecutor
from typing import Dict, List, Tuple

from .model import REPO

VERIF = os.path.dirname(os.path.dirname(os.path.abspath(__file__)))

ROR = {ast.Lt: [ast.LtE, ast.Gt], ast.LtE: [ast.Lt, ast.GtE], ast.Gt: [ast.GtE, ast.Lt], ast.GtE: [ast.Gt, ast.LtE], ast.Eq: [ast.NotEq], ast.NotEq: [ast.Eq],
       ast.Is: [ast.IsNot], ast.IsNot: [ast.Is], ast.In: [ast.NotIn], ast.NotIn: [ast.In]}


def analysed_functions(prop: str) -> Dict[str, List[str]]:
    ev = json.load(open(os.path.join(VERIF, "evidence", f"{prop}.json")))
    out: Dict[str, List[str]] = {}
    for fq in ev["coverage"]["functions_analysed"]:
        rel, q = fq.split("::")
        if "#" in rel:
            continue
        out.setdefault(rel, []).append(q)
    return out


def _func_nodes(tree: ast.Module, quals: List[str]):
    found = {}

    def visit(body, prefix):
        for st in body:
            if isinstance(st, (ast.FunctionDef, ast.AsyncFunctionDef)):
                q = prefix + st.name
                if q in quals:
                    found[q] = st
                visit(st.body, q + ".")
            elif isinstance(st, ast.ClassDef):
                visit(st.body, st.name + ".")
    visit(tree.body, "")
    return found


def mutants_of(src: str, quals: List[str]) -> List[Tuple[str, str]]:
    """-> [(description, mutated source)]"""
    out = []
    tree = ast.parse(src)
    funcs = _func_nodes(tree, quals)
    # enumerate mutation points by (function, index in ast.walk order)
    for q, fn in funcs.items():
        nodes = list(ast.walk(fn))
        for idx, n in enumerate(nodes):
            muts = []
            if isinstance(n, ast.Compare) and len(n.ops) == 1 and type(n.ops[0]) in ROR:
                for new in ROR[type(n.ops[0])]:
                    muts.append((f"ROR {type(n.ops[0]).__name__}->{new.__name__}", ("cmp", new)))
            if isinstance(n, ast.BoolOp):
                muts.append((f"LCR {type(n.op).__name__} swapped", ("bool",)))
            if isinstance(n, (ast.If, ast.While)) and not isinstance(n.test, ast.Constant):
                muts.append(("LCR test negated", ("neg",)))
            if isinstance(n, ast.Constant) and isinstance(n.value, (int, float)) and not isinstance(n.value, bool):
                muts.append((f"CRP {n.value}->{n.value + 1}", ("const", n.value + 1)))
                if n.value != 0:
                    muts.append((f"CRP {n.value}->{n.value - 1}", ("const", n.value - 1)))
            if isinstance(n, ast.BinOp) and type(n.op) in (ast.Add, ast.Sub, ast.Mult, ast.Div):
                sw = {ast.Add: ast.Sub, ast.Sub: ast.Add, ast.Mult: ast.Div, ast.Div: ast.Mult}[type(n.op)]
                muts.append((f"AOR {type(n.op).__name__}->{sw.__name__}", ("binop", sw)))
            if isinstance(n, ast.AugAssign) and type(n.op) in (ast.Add, ast.Sub):
                sw = {ast.Add: ast.Sub, ast.Sub: ast.Add}[type(n.op)]
                muts.append((f"AOR aug {type(n.op).__name__}->{sw.__name__}", ("aug", sw)))
            if isinstance(n, ast.Call) and len(n.keywords) >= 2 and all(k.arg for k in n.keywords):
                muts.append((f"ARG swap {n.keywords[0].arg}<->{n.keywords[1].arg}", ("kwswap",)))
            if isinstance(n, (ast.For, ast.While, ast.If, ast.With, ast.FunctionDef)):
                for fld in ("body", "orelse"):
                    b = getattr(n, fld, None)
                    if isinstance(b, list):
                        for k, st in enumerate(b):
                            if isinstance(st, (ast.Expr, ast.Assign, ast.AugAssign, ast.Break, ast.Continue, ast.Assert, ast.Delete)) and not (
                                    isinstance(st, ast.Expr) and isinstance(st.value, ast.Constant)):
                                if isinstance(st, ast.Expr) and isinstance(st.value, ast.Call) and ast.unparse(st.value.func).startswith(("logger.", "print")):
                                    continue
                                muts.append((f"SDL delete `{ast.unparse(st)[:60]}`", ("del", fld, k)))
            for desc, spec in muts:
                t2 = ast.parse(src)
                f2 = _func_nodes(t2, [q])[q]
                n2 = list(ast.walk(f2))[idx]
                if spec[0] == "cmp":
                    n2.ops = [spec[1]()]
                elif spec[0] == "bool":
                    n2.op = ast.Or() if isinstance(n2.op, ast.And) else ast.And()
                elif spec[0] == "neg":
                    n2.test = ast.UnaryOp(ast.Not(), n2.test)
                elif spec[0] == "const":
                    n2.value = spec[1]
                elif spec[0] == "binop":
                    n2.op = spec[1]()
                elif spec[0] == "aug":
                    n2.op = spec[1]()
                elif spec[0] == "kwswap":
                    n2.keywords[0].value, n2.keywords[1].value = n2.keywords[1].value, n2.keywords[0].value
                elif spec[0] == "del":
                    b = getattr(n2, spec[1])
                    b[spec[2]] = ast.Pass()
                ast.fix_missing_locations(t2)
                try:
                    out.append((f"{q}:{getattr(n, 'lineno', 0)} {desc}", ast.unparse(t2) + "\n"))
                except Exception:
                    pass
    return out


def run_one(job):
    prop, rel, desc, src = job
    d = tempfile.mkdtemp(prefix="sa-mut-")
    try:
        shutil.copytree(os.path.join(REPO, "eudoxia"), os.path.join(d, "eudoxia"), ignore=shutil.ignore_patterns("__pycache__"))
        if os.path.isdir(os.path.join(REPO, "go")):
            shutil.copytree(os.path.join(REPO, "go"), os.path.join(d, "go"))
        open(os.path.join(d, rel), "w").write(src)
        r = subprocess.run(["/venv/bin/python", "-m", "sa.check", prop, "--repo", d], cwd=VERIF, capture_output=True, text=True, env={**os.environ, "SA_OUT": d})
        return rel, desc, r.returncode
    finally:
        shutil.rmtree(d, ignore_errors=True)


def main():
    prop = sys.argv[1]
    mx = int(sys.argv[sys.argv.index("--max") + 1]) if "--max" in sys.argv else 100000
    only = sys.argv[sys.argv.index("--file") + 1] if "--file" in sys.argv else None
    jobs = []
    for rel, quals in analysed_functions(prop).items():
        if only and only not in rel:
            continue
        src = open(os.path.join(REPO, rel)).read()
        # unparse once so that all mutants differ from the baseline only by the mutation
        for desc, msrc in mutants_of(src, quals):
            jobs.append((prop, rel, desc, msrc))
    jobs = jobs[:mx]
    killed = errs = 0
    surv = []
    with ThreadPoolExecutor(max_workers=16) as ex:
        for rel, desc, rc in ex.map(run_one, jobs):
            if rc == 1:
                killed += 1
            elif rc == 2:
                errs += 1
                surv.append((rel, desc, "ANALYSIS-ERROR"))
            else:
                surv.append((rel, desc, "silent"))
    print(f"{prop}: {len(jobs)} mutants, {killed} reported, {errs} analysis errors, {len(surv) - errs} silent")
    for rel, desc, how in surv:
        print(f"  [{how}] {rel} {desc}")




# ---------------------------------------------------------------------------------------------------------------------
# whole-package survey:  python -m sa.mutscore --all [--file substr]
# every mutant of every function of the package is analysed by all twenty checks; a mutant no check reports is listed.

def _all_quals(tree: ast.Module) -> List[str]:
    out = []

    def visit(body, prefix):
        for st in body:
            if isinstance(st, (ast.FunctionDef, ast.AsyncFunctionDef)):
                out.append(prefix + st.name)
                visit(st.body, prefix + st.name + ".")
            elif isinstance(st, ast.ClassDef):
                visit(st.body, st.name + ".")
    visit(tree.body, "")
    return out


def run_all(job):
    rel, desc, src = job
    d = tempfile.mkdtemp(prefix="sa-mut-")
    try:
        shutil.copytree(os.path.join(REPO, "eudoxia"), os.path.join(d, "eudoxia"), ignore=shutil.ignore_patterns("__pycache__"))
        if os.path.isdir(os.path.join(REPO, "go")):
            shutil.copytree(os.path.join(REPO, "go"), os.path.join(d, "go"))
        open(os.path.join(d, rel), "w").write(src)
        r = subprocess.run(["/venv/bin/python", "-m", "sa.check", "all", "--repo", d], cwd=VERIF, capture_output=True, text=True, env={**os.environ, "SA_OUT": d})
        fired, errs = [], []
        for ln in r.stdout.splitlines():
            if ln.startswith("VIOLATION property="):
                p = ln.split("property=")[1].split()[0]
                if p not in fired:
                    fired.append(p)
            elif ln.startswith("ANALYSIS-ERROR property="):
                errs.append(ln.split("property=")[1].split(":")[0])
        return rel, desc, fired, errs
    finally:
        shutil.rmtree(d, ignore_errors=True)


def main_all():
    only = sys.argv[sys.argv.index("--file") + 1] if "--file" in sys.argv else None
    jobs = []
    for root, _dirs, files in os.walk(os.path.join(REPO, "eudoxia")):
        for fn in sorted(files):
            if not fn.endswith(".py"):
                continue
            rel = os.path.relpath(os.path.join(root, fn), REPO)
            if only and only not in rel:
                continue
            src = open(os.path.join(REPO, rel)).read()
            try:
                quals = _all_quals(ast.parse(src))
            except SyntaxError:
                continue
            for desc, msrc in mutants_of(src, quals):
                jobs.append((rel, desc, msrc))
    n_f = n_e = 0
    with ThreadPoolExecutor(max_workers=16) as ex:
        for rel, desc, fired, errs in ex.map(run_all, jobs):
            tag = "reported" if fired else ("ANALYSIS-ERROR" if errs else "silent")
            n_f += bool(fired)
            n_e += bool(errs)
            print(f"[{tag}] {rel} {desc} :: fired={','.join(fired)} errors={','.join(errs)}", flush=True)
    print(f"TOTAL {len(jobs)} mutants, {n_f} reported by at least one check, {n_e} with an analysis error")


if __name__ == "__main__" and "--all" in sys.argv:
    main_all()
    sys.exit(0)

if __name__ == "__main__":
    main()
