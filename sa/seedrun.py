"""Run every property check against every seeded change (variants are analysed statically, never run).
   python -m sa.seedrun [dir-with-seeds]     (default /verif/seeded)
Prints, per seed, the properties whose check reports a violation; writes <dir>/MATRIX.json."""
import json, os, shutil, subprocess, sys, tempfile
from concurrent.futures import ProcessPoolExecutor

PROPS = [f"C{i:02d}" for i in range(1, 21)]
if os.environ.get("SA_PROPS"):      # development aid: only these checks (the MATRIX/SILENCE files then cover only them)
    PROPS = [p for p in PROPS if p in os.environ["SA_PROPS"].split(",")]

def one(args):
    seed_id, patch = args
    from .variant import make_variant
    d = make_variant(patch=patch)
    res = {}
    try:
        for p in PROPS:
            r = subprocess.run(["/venv/bin/python", "-m", "sa.check", p, "--repo", d], cwd=os.path.dirname(os.path.dirname(os.path.abspath(__file__))),
                               capture_output=True, text=True, env={**os.environ, "SA_OUT": d})
            rules = sorted({l.split()[0] for l in r.stdout.splitlines() if l.startswith("  C") and "#" in l.split()[0]})
            res[p] = {"rc": r.returncode, "rules": rules}
    finally:
        shutil.rmtree(d, ignore_errors=True)
    return seed_id, res

def main():
    root = sys.argv[1] if len(sys.argv) > 1 else os.path.join(os.path.dirname(os.path.dirname(os.path.abspath(__file__))), "seeded")
    jobs = []
    for dp, dn, fn in sorted(os.walk(root)):
        if "patch.diff" in fn:
            jobs.append((os.path.relpath(dp, root), os.path.join(dp, "patch.diff")))
    out = {}
    with ProcessPoolExecutor(max_workers=16) as ex:
        for sid, res in ex.map(one, jobs):
            out[sid] = res
            fired = [f"{p}({','.join(x.split('#')[1] for x in v['rules'])})" for p, v in res.items() if v["rc"] == 1]
            err = [p for p, v in res.items() if v["rc"] == 2]
            print(f"{sid:12s} fires: {' '.join(fired) or '-'}" + (f"   ANALYSIS-ERROR: {' '.join(err)}" if err else ""), flush=True)
    json.dump(out, open(os.path.join(root, "MATRIX.json"), "w"), indent=1, sort_keys=True)
    # human-readable table
    import re
    rows = ["| seeded change | what it does (author's title) | checks that report it (property#clauses) |", "|---|---|---|"]
    own = 0
    for sid in sorted(out):
        try:
            notes = open(os.path.join(root, sid, "notes.md")).read().strip().splitlines()
            title = [l for l in notes if l.strip()][0].lstrip("# ").strip()
            title = re.sub(r"^C\d+\s*/?\s*[Cc]hange\s*\d\s*[—:-]\s*", "", title)[:120]
        except Exception:
            title = ""
        fired = [f"{p}#{','.join(x.split('#')[1] for x in v['rules'])}" for p, v in sorted(out[sid].items()) if v["rc"] == 1]
        owner = sid.split("-")[0]
        try:
            owner = json.load(open(os.path.join(root, sid, "meta.json"))).get("clause_owner") or owner
        except Exception:
            pass
        if any(f.startswith(owner + "#") for f in fired):
            own += 1
        rows.append(f"| {sid} | {title} | {' '.join(fired) or '**missed**'} |")
    rows.append("")
    rows.append(f"{own} of {len(out)} seeded changes are reported by the check of the property they were written to break "
                "(for a change whose meta.json names a `clause_owner`, by that property's check).")
    open(os.path.join(root, "MATRIX.md"), "w").write("\n".join(rows) + "\n")

if __name__ == "__main__":
    main()
