"""Condition normal forms (A3) and small expression utilities.

A condition is turned into negation normal form over *atoms*.  An atom is a tuple
    ('cmp', op, left, right)   op in {'<', '<=', '==', '!=', 'in', 'notin', 'is', 'isnot'}
    ('truth', text, polarity)  truthiness of an expression (len(x) > 0  ==  x  ==  len(x) != 0)
with `left`, `right`, `text` canonical source text (ast.unparse after substitution).
'>' and '>=' are re-oriented to '<' and '<='; '==' / '!=' operands are sorted.
NNF nodes:  ('and', [..]), ('or', [..]), atom, ('true',), ('false',).
"""
from __future__ import annotations

import ast
from typing import Callable, Dict, FrozenSet, Iterable, List, Optional, Set, Tuple

Atom = tuple
NEG = {'<': '>=', '<=': '>', '>': '<=', '>=': '<', '==': '!=', '!=': '==',
       'in': 'notin', 'notin': 'in', 'is': 'isnot', 'isnot': 'is'}
OPS = {ast.Lt: '<', ast.LtE: '<=', ast.Gt: '>', ast.GtE: '>=', ast.Eq: '==', ast.NotEq: '!=',
       ast.In: 'in', ast.NotIn: 'notin', ast.Is: 'is', ast.IsNot: 'isnot'}


def U(e: ast.AST) -> str:
    return ast.unparse(e)


def clone(e: ast.AST) -> ast.AST:
    """Structural copy without the parent links (copy.deepcopy would follow `_parent` and copy the whole module)."""
    if isinstance(e, ast.AST):
        new = e.__class__()
        for f in e._fields:
            if hasattr(e, f):
                setattr(new, f, clone(getattr(e, f)))
        for a in ("lineno", "col_offset", "end_lineno", "end_col_offset"):
            if hasattr(e, a):
                setattr(new, a, getattr(e, a))
        new._orig = getattr(e, "_orig", e)   # the node of the parsed module this copy stands for
        return new
    if isinstance(e, list):
        return [clone(x) for x in e]
    return e


class Subst(ast.NodeTransformer):
    """Replace Name loads by expressions (A4: single-definition locals)."""

    def __init__(self, env: Dict[str, ast.expr]):
        self.env = env

    def visit_Name(self, n: ast.Name):
        if isinstance(n.ctx, ast.Load) and n.id in self.env:
            return clone(self.env[n.id])
        return n

    def visit_Attribute(self, n: ast.Attribute):
        # write-once fields:  keys like 'self.tick_length_secs'
        if isinstance(n.ctx, ast.Load):
            t = attr_chain(n)
            if t is not None and t in self.env:
                return clone(self.env[t])
        return self.generic_visit(n)


def _const_key(e: ast.expr) -> bool:
    return isinstance(e, ast.Constant) or (isinstance(e, ast.Attribute) and attr_chain(e) is not None and attr_chain(e)[:1].isupper())


class _Beta(ast.NodeTransformer):
    """{k: V(k) for k in (A, B, C)}[A]  ->  V(A)      {A: x, B: y}[A]  ->  x      (A, B, C distinct constant keys: literals or
    members of a class / enum such as Priority.QUERY)"""

    def visit_Subscript(self, n: ast.Subscript):
        self.generic_visit(n)
        v, k = n.value, n.slice
        if isinstance(v, ast.Tuple) and isinstance(k, ast.Constant) and isinstance(k.value, int) and not isinstance(k.value, bool) \
                and not any(isinstance(x, ast.Starred) for x in v.elts) and -len(v.elts) <= k.value < len(v.elts):
            return v.elts[k.value]          # (a, b)[0]  ->  a
        if not _const_key(k):
            return n
        if isinstance(v, ast.DictComp) and len(v.generators) == 1 and not v.generators[0].ifs and isinstance(v.generators[0].target, ast.Name) \
                and isinstance(v.key, ast.Name) and v.key.id == v.generators[0].target.id and isinstance(v.generators[0].iter, (ast.Tuple, ast.List)):
            elts = v.generators[0].iter.elts
            texts = [U(x) for x in elts]
            if all(_const_key(x) for x in elts) and len(set(texts)) == len(texts) and U(k) in texts:
                return Subst({v.key.id: k}).visit(clone(v.value))
        if isinstance(v, ast.Dict) and all(x is not None and _const_key(x) for x in v.keys):
            texts = [U(x) for x in v.keys]
            if len(set(texts)) == len(texts) and U(k) in texts:
                return v.values[texts.index(U(k))]
        return n


def subst(e: ast.expr, env: Optional[Dict[str, ast.expr]]) -> ast.expr:
    if not env:
        return e
    out = e
    for _ in range(4):  # chains of temporaries
        new = Subst(env).visit(clone(out))
        if any(isinstance(x, (ast.DictComp, ast.Dict)) or (isinstance(x, ast.Subscript) and isinstance(x.value, ast.Tuple)) for x in ast.walk(new)):
            new = _Beta().visit(new)
        if ast.dump(new) == ast.dump(out):
            break
        out = new
    return out


def _is_len_call(e: ast.expr) -> Optional[ast.expr]:
    if isinstance(e, ast.Call) and isinstance(e.func, ast.Name) and e.func.id == 'len' and len(e.args) == 1 and not e.keywords:
        return e.args[0]
    return None


def _const(e: ast.expr):
    if isinstance(e, ast.Constant) and isinstance(e.value, (int, float)) and not isinstance(e.value, bool):
        return e.value
    if isinstance(e, ast.UnaryOp) and isinstance(e.op, ast.USub) and isinstance(e.operand, ast.Constant):
        return -e.operand.value
    return None


def mk_cmp(op: str, l: str, r: str) -> Atom:
    if op == '>':
        op, l, r = '<', r, l
    elif op == '>=':
        op, l, r = '<=', r, l
    if op in ('==', '!=') and r < l:
        l, r = r, l
    return ('cmp', op, l, r)


def _cmp_atom(op: str, l: ast.expr, r: ast.expr, env) -> tuple:
    # len(x) forms -> truthiness
    for a, b, flip in ((l, r, False), (r, l, True)):
        x = _is_len_call(a)
        c = _const(b)
        if x is not None and c is not None:
            o = op
            if flip:  # c op len(x)  ->  len(x) op' c
                o = {'<': '>', '<=': '>=', '>': '<', '>=': '<=', '==': '==', '!=': '!='}.get(op, op)
            t = U(subst(x, env))
            if (o, c) in (('>', 0), ('!=', 0), ('>=', 1)):
                return ('truth', t, True)
            if (o, c) in (('==', 0), ('<=', 0), ('<', 1)):
                return ('truth', t, False)
    return mk_cmp(op, U(subst(l, env)), U(subst(r, env)))


def nnf(e: ast.expr, positive: bool = True, env=None):
    """Negation normal form of a Python condition (single-definition locals substituted first)."""
    if env:
        e = subst(e, env)
    return _nnf(e, positive, None)


def _nnf(e: ast.expr, positive: bool = True, env=None):
    if isinstance(e, ast.UnaryOp) and isinstance(e.op, ast.Not):
        return nnf(e.operand, not positive, env)
    if isinstance(e, ast.BoolOp):
        kids = [nnf(v, positive, env) for v in e.values]
        is_and = isinstance(e.op, ast.And)
        if not positive:
            is_and = not is_and
        return _mk('and' if is_and else 'or', kids)
    if isinstance(e, ast.Compare):
        parts = []
        left = e.left
        for op, right in zip(e.ops, e.comparators):
            o = OPS[type(op)]
            if not positive:
                o = NEG[o]
            parts.append(_cmp_atom(o, left, right, env))
            left = right
        if len(parts) == 1:
            return parts[0]
        return _mk('and' if positive else 'or', parts)
    if isinstance(e, ast.Constant) and isinstance(e.value, bool):
        return ('true',) if (e.value == positive) else ('false',)
    if isinstance(e, ast.Call) and isinstance(e.func, ast.Name) and e.func.id == 'bool' and len(e.args) == 1:
        return nnf(e.args[0], positive, env)
    return ('truth', U(subst(e, env)), positive)


def _mk(kind: str, kids: list):
    flat = []
    for k in kids:
        if k[0] == kind:
            flat.extend(k[1])
        else:
            flat.append(k)
    # constant folding
    if kind == 'and':
        if any(k == ('false',) for k in flat):
            return ('false',)
        flat = [k for k in flat if k != ('true',)]
        if not flat:
            return ('true',)
    else:
        if any(k == ('true',) for k in flat):
            return ('true',)
        flat = [k for k in flat if k != ('false',)]
        if not flat:
            return ('false',)
    if len(flat) == 1:
        return flat[0]
    return (kind, tuple(sorted(flat, key=repr)))


def neg(f):
    if f[0] == 'and':
        return _mk('or', [neg(k) for k in f[1]])
    if f[0] == 'or':
        return _mk('and', [neg(k) for k in f[1]])
    if f[0] == 'cmp':
        return mk_cmp(NEG[f[1]], f[2], f[3]) if f[1] not in ('<', '<=') else _neg_ord(f)
    if f[0] == 'truth':
        return ('truth', f[1], not f[2])
    if f[0] == 'true':
        return ('false',)
    return ('true',)


def _neg_ord(f):
    # not (l < r)  ==  r <= l ;  not (l <= r)  ==  r < l
    _, op, l, r = f
    return ('cmp', '<=' if op == '<' else '<', r, l)


def atoms_true(f) -> List[Atom]:
    """Atoms (and whole 'or' facts) that hold when f holds."""
    if f[0] == 'and':
        out = []
        for k in f[1]:
            out.extend(atoms_true(k))
        return out
    if f[0] in ('true',):
        return []
    return [f]


def show(f) -> str:
    if f[0] == 'and':
        return '(' + ' and '.join(show(k) for k in f[1]) + ')'
    if f[0] == 'or':
        return '(' + ' or '.join(show(k) for k in f[1]) + ')'
    if f[0] == 'cmp':
        sym = {'notin': 'not in', 'isnot': 'is not'}.get(f[1], f[1])
        return f"{f[2]} {sym} {f[3]}"
    if f[0] == 'truth':
        return f[1] if f[2] else f"not {f[1]}"
    return f[0]


def entails(facts: Iterable, goal) -> bool:
    """Does the conjunction of `facts` (NNF formulas known true) entail `goal`?  Sound, incomplete.
    Order atoms are closed under transitivity and equalities (A6)."""
    fs = set()
    for f in facts:
        for a in atoms_true(f):
            fs.add(a)
    return _ent(fs, goal)


def _order_reach(fs: Set, l: str, r: str, strict: bool) -> bool:
    """Is there a chain l (<|<=|==) ... r in fs; if strict, with at least one '<' edge."""
    if l == r and not strict:
        return True
    edges: Dict[str, List[Tuple[str, bool]]] = {}
    for a in fs:
        if a[0] != 'cmp':
            continue
        _, op, x, y = a
        if op == '<':
            edges.setdefault(x, []).append((y, True))
        elif op == '<=':
            edges.setdefault(x, []).append((y, False))
        elif op == '==':
            edges.setdefault(x, []).append((y, False))
            edges.setdefault(y, []).append((x, False))
    # numeric literals are ordered among themselves
    nums = []
    for t in set(edges) | {y for v in edges.values() for y, _ in v} | {l, r}:
        try:
            nums.append((float(t), t))
        except (TypeError, ValueError):
            pass
    nums.sort()
    for (a, ta), (b, tb) in zip(nums, nums[1:]):
        if a < b:
            edges.setdefault(ta, []).append((tb, True))
        else:
            edges.setdefault(ta, []).append((tb, False))
            edges.setdefault(tb, []).append((ta, False))
    seen = set()
    stack = [(l, False)]
    while stack:
        n, st = stack.pop()
        if (n, st) in seen:
            continue
        seen.add((n, st))
        if n == r and (st or not strict):
            return True
        for m, s_ in edges.get(n, ()):
            stack.append((m, st or s_))
    return False


def _eq_class(fs: Set, t: str) -> Set[str]:
    cls = {t}
    changed = True
    while changed:
        changed = False
        for a in fs:
            if a[0] == 'cmp' and a[1] == '==':
                if a[2] in cls and a[3] not in cls:
                    cls.add(a[3]); changed = True
                elif a[3] in cls and a[2] not in cls:
                    cls.add(a[2]); changed = True
    return cls


def _distinct(fs: Set, l: str, r: str) -> bool:
    """l != r follows from a known disequality between their equality classes."""
    cl, cr = _eq_class(fs, l), _eq_class(fs, r)
    for a in fs:
        if a[0] == 'cmp' and a[1] == '!=':
            if (a[2] in cl and a[3] in cr) or (a[3] in cl and a[2] in cr):
                return True
    return False


def _inconsistent(fs: Set) -> bool:
    """a literal and its negation are both assumed (a case of a case split that cannot occur)"""
    for a in fs:
        if a[0] in ('cmp', 'truth') and neg(a) in fs:
            return True
        if a[0] == 'truth' and a[2] is True and ('cmp', 'is', a[1], 'None') in fs:
            return True
    return False


def _ent(fs: Set, g) -> bool:
    if g[0] == 'true':
        return True
    if _inconsistent(fs):
        return True
    if g[0] == 'and':
        return all(_ent(fs, k) for k in g[1])
    if g in fs:
        return True
    if g[0] == 'or':
        if any(_ent(fs, k) for k in g[1]):
            return True
        for f in fs:
            if f[0] == 'or' and all(_ent((fs - {f}) | set(atoms_true(k)), g) for k in f[1]):
                return True
        return False
    if g[0] == 'cmp':
        _, op, l, r = g
        if op == '<=' and _order_reach(fs, l, r, False):
            return True
        if op == '<' and _order_reach(fs, l, r, True):
            return True
        if op == '<' and _order_reach(fs, l, r, False) and _distinct(fs, l, r):
            return True
        if op == '==' and _order_reach(fs, l, r, False) and _order_reach(fs, r, l, False):
            return True
        if op == '!=':
            if _order_reach(fs, l, r, True) or _order_reach(fs, r, l, True):
                return True
        if op == 'isnot' and r == 'None':
            # x is not None follows from truthiness of x
            if ('truth', l, True) in fs:
                return True
    if g[0] == 'truth' and g[2] is False:
        # "not x" for optional objects follows from "x is None"
        if ('cmp', 'is', g[1], 'None') in fs:
            return True
    # a known disjunction all of whose branches give g
    for f in fs:
        if f[0] == 'or' and all(_ent((fs - {f}) | set(atoms_true(k)), g) for k in f[1]):
            return True
    return False


def names_in(e: ast.AST) -> Set[str]:
    return {n.id for n in ast.walk(e) if isinstance(n, ast.Name)}


def attr_chain(e: ast.expr) -> Optional[str]:
    """'self.pool.consumed_ram_gb' for pure Name/Attribute chains, else None."""
    parts = []
    while isinstance(e, ast.Attribute):
        parts.append(e.attr)
        e = e.value
    if isinstance(e, ast.Name):
        parts.append(e.id)
        return '.'.join(reversed(parts))
    return None


def is_name(e, name: str) -> bool:
    return isinstance(e, ast.Name) and e.id == name


def is_attr(e, attr: str) -> bool:
    return isinstance(e, ast.Attribute) and e.attr == attr


def call_name(c: ast.Call) -> Optional[str]:
    f = c.func
    if isinstance(f, ast.Name):
        return f.id
    if isinstance(f, ast.Attribute):
        return f.attr
    return None


def kwarg(c: ast.Call, name: str, pos: Optional[int] = None) -> Optional[ast.expr]:
    for kw in c.keywords:
        if kw.arg == name:
            return kw.value
    if pos is not None and pos < len(c.args) and not any(isinstance(a, ast.Starred) for a in c.args[:pos + 1]):
        return c.args[pos]
    return None


def enum_member(e: ast.expr, enum: str) -> Optional[str]:
    """OperatorState.RUNNING -> 'RUNNING' (also a.b.OperatorState.RUNNING)."""
    if isinstance(e, ast.Attribute) and isinstance(e.value, (ast.Name, ast.Attribute)):
        base = e.value.id if isinstance(e.value, ast.Name) else e.value.attr
        if base == enum:
            return e.attr
    return None
