"""Partition of a list into kept and removed members, written back as the deferred removal the rules are stated on.

    K = []                                       R = []
    for c in L:                                  for c in L:
        if not DONE(c):                              if DONE(c):
            K.append(c); continue          ==            BODY
        BODY                                             R.append(c)
    if len(K) < len(L):                          for c_ in R: L.remove(c_)
        L[:] = K                                 if R:
        REST                                         REST

Both visit every member once, run BODY for the members that leave, and take exactly those out of L (members of a holder list are distinct
objects).  When BODY already collects the leaving members in a list N of its own (`N.append(c)`), N is R; `X.extend(R)` next to the write-back
is the second half of the move and joins the drain loop (`for c_ in R: L.remove(c_); X.append(c_)`)."""
import ast
from typing import List, Optional

from . import norm
from .model import Func


def _blocks(n: ast.AST):
    for fld in ("body", "orelse", "finalbody"):
        b = getattr(n, fld, None)
        if isinstance(b, list) and b and isinstance(b[0], ast.stmt):
            yield fld, b
    if isinstance(n, ast.Try):
        for h in n.handlers:
            yield "body", h.body


def _own(n: ast.AST):
    """nodes of n without nested function / class bodies"""
    st = [n]
    while st:
        x = st.pop()
        yield x
        for ch in ast.iter_child_nodes(x):
            if isinstance(ch, (ast.FunctionDef, ast.AsyncFunctionDef, ast.ClassDef, ast.Lambda)):
                continue
            st.append(ch)


def _mentions(stmts, text: str) -> bool:
    for s in stmts:
        for x in ast.walk(s):
            if isinstance(x, (ast.Name, ast.Attribute)) and norm.U(x) == text:
                return True
    return False


def _jumps_at_level(stmts: List[ast.stmt], kinds=(ast.Break, ast.Continue, ast.Return)) -> bool:
    def walk(st, depth):
        if isinstance(st, (ast.Break, ast.Continue)) and depth == 0 and isinstance(st, kinds):
            return True
        if isinstance(st, ast.Return) and ast.Return in kinds:
            return True
        if isinstance(st, (ast.FunctionDef, ast.AsyncFunctionDef, ast.ClassDef)):
            return False
        d = depth + 1 if isinstance(st, (ast.For, ast.While)) else depth
        for _, b in _blocks(st):
            if any(walk(x, d) for x in b):
                return True
        return False
    return any(walk(s, 0) for s in stmts)


def _no_continue(body: List[ast.stmt]) -> Optional[List[ast.stmt]]:
    """top-level guard clauses `if T: A; continue` + REST  ->  `if T: A else: REST`; None when a continue remains elsewhere"""
    out = list(body)
    for t, st in enumerate(out):
        if isinstance(st, ast.If) and not st.orelse and st.body and isinstance(st.body[-1], ast.Continue) and not _jumps_at_level(st.body[:-1]):
            rest = _no_continue(out[t + 1:])
            if rest is None:
                return None
            new = ast.copy_location(ast.If(test=st.test, body=st.body[:-1] or [ast.copy_location(ast.Pass(), st)], orelse=rest), st)
            return out[:t] + [new]
        if _jumps_at_level([st], (ast.Continue,)):
            return None
    return out


def _is_append(st: ast.stmt, lst: str, var: str) -> bool:
    return isinstance(st, ast.Expr) and isinstance(st.value, ast.Call) and isinstance(st.value.func, ast.Attribute) and st.value.func.attr == "append" \
        and norm.is_name(st.value.func.value, lst) and len(st.value.args) == 1 and norm.is_name(st.value.args[0], var) and not st.value.keywords


def _empty_list_init(st: ast.stmt) -> Optional[str]:
    if isinstance(st, ast.Assign) and len(st.targets) == 1 and isinstance(st.targets[0], ast.Name) and isinstance(st.value, ast.List) and not st.value.elts:
        return st.targets[0].id
    return None


def _full_slice(t: ast.expr) -> Optional[ast.expr]:
    if isinstance(t, ast.Subscript) and isinstance(t.slice, ast.Slice) and t.slice.lower is None and t.slice.upper is None and t.slice.step is None:
        return t.value
    return None


def _negate(t: ast.expr) -> ast.expr:
    if isinstance(t, ast.UnaryOp) and isinstance(t.op, ast.Not):
        return t.operand
    return ast.copy_location(ast.UnaryOp(op=ast.Not(), operand=t), t)


def _len_of(e: ast.expr) -> Optional[str]:
    if isinstance(e, ast.Call) and norm.is_name(e.func, "len") and len(e.args) == 1 and not e.keywords:
        return norm.U(e.args[0])
    return None


def _call_stmt(recv: ast.expr, meth: str, arg: str, at: ast.AST) -> ast.stmt:
    st = ast.Expr(value=ast.Call(func=ast.Attribute(value=norm.clone(recv), attr=meth, ctx=ast.Load()), args=[ast.Name(id=arg, ctx=ast.Load())], keywords=[]))
    for x in ast.walk(st):
        ast.copy_location(x, at)
    return st


def _rewrite_once(node: ast.AST, params) -> bool:
    for owner in list(_own(node)):
        for _, outer in _blocks(owner):
            for gi, G in enumerate(outer):
                # the write-back, directly in this block or as part of an `if` right here
                W, wblk = None, None
                cands = [(G, outer)] + ([(s, G.body) for s in G.body] if isinstance(G, ast.If) and not G.orelse else [])
                for s, b in cands:
                    if isinstance(s, ast.Assign) and len(s.targets) == 1 and isinstance(s.value, ast.Name):
                        t = s.targets[0]
                        L = _full_slice(t) if _full_slice(t) is not None else (t if isinstance(t, ast.Attribute) else None)
                        if L is not None and norm.attr_chain(L) is not None and norm.U(L) != s.value.id:
                            W, wblk, Lx, K = s, b, L, s.value.id
                            break
                if W is None or K in params:
                    continue
                Lt = norm.U(Lx)
                # the loop over L before it, and K = [] before that
                li = None
                for i in range(gi - 1, -1, -1):
                    s = outer[i]
                    if isinstance(s, ast.For) and norm.U(s.iter) == Lt and isinstance(s.target, ast.Name) and not s.orelse:
                        li = i
                        break
                if li is None:
                    continue
                lp = outer[li]
                c = lp.target.id
                count_alias = None      # `n = len(L) - len(K)`: the number of members that leave, i.e. len(R)
                mid = outer[li + 1:gi]
                if len(mid) == 1 and isinstance(mid[0], ast.Assign) and len(mid[0].targets) == 1 and isinstance(mid[0].targets[0], ast.Name) and isinstance(mid[0].value, ast.BinOp) \
                        and isinstance(mid[0].value.op, ast.Sub) and _len_of(mid[0].value.left) == Lt and _len_of(mid[0].value.right) == K \
                        and sum(1 for x in _own(node) if isinstance(x, ast.Name) and x.id == mid[0].targets[0].id and isinstance(x.ctx, ast.Store)) == 1:
                    count_alias = mid[0]
                    mid = []
                if _mentions(mid, K) or _mentions(mid, Lt):
                    continue
                ki = None
                for i in range(li - 1, -1, -1):
                    if _empty_list_init(outer[i]) == K:
                        ki = i
                        break
                if ki is None or _mentions(outer[ki + 1:li], K):
                    continue
                if _jumps_at_level(lp.body, (ast.Break, ast.Return)):
                    continue
                body = _no_continue(lp.body)
                if body is None:
                    continue
                # every other occurrence of K: `K.append(c)` once in the loop, len(K) in the test of G
                occ = [x for x in _own(node) if isinstance(x, ast.Name) and x.id == K]
                apps = [s for s in body for x in ast.walk(s) if isinstance(x, ast.stmt) and _is_append(x, K, c)]
                I = None
                for s in body:
                    if isinstance(s, ast.If) and ((len(s.body) == 1 and _is_append(s.body[0], K, c)) != (len(s.orelse) == 1 and _is_append(s.orelse[0], K, c))):
                        if I is not None:
                            I = False
                        else:
                            I = s
                if not I or len(apps) != 1:
                    continue
                keep_in_body = len(I.body) == 1 and _is_append(I.body[0], K, c)
                ob = I.orelse if keep_in_body else I.body
                if _mentions(ob, K):
                    continue
                in_test = 0
                new_test = None
                if W is not G:
                    t = G.test
                    if isinstance(t, ast.Compare) and len(t.ops) == 1:
                        a, b_ = _len_of(t.left), _len_of(t.comparators[0])
                        op = t.ops[0]
                        if (a, b_) == (K, Lt) and isinstance(op, (ast.Lt, ast.NotEq)) or (a, b_) == (Lt, K) and isinstance(op, (ast.Gt, ast.NotEq)):
                            in_test, new_test = 1, "R"
                    elif isinstance(t, ast.Name) and t.id != K:
                        new_test = t.id            # must turn out to be R below
                    if new_test is None:
                        continue
                if len(occ) != 3 + in_test + (1 if count_alias is not None else 0):       # init, append, write-back (+ test) (+ count)
                    continue
                # R: a list the leaving branch fills itself, or a new one
                R = None
                for s in ob:
                    if isinstance(s, ast.Expr) and isinstance(s.value, ast.Call) and isinstance(s.value.func, ast.Attribute) and s.value.func.attr == "append" \
                            and isinstance(s.value.func.value, ast.Name) and len(s.value.args) == 1 and norm.is_name(s.value.args[0], c):
                        N = s.value.func.value.id
                        inits = [i for i in range(li) if _empty_list_init(outer[i]) == N]
                        inside = [x for x in ast.walk(lp) if isinstance(x, ast.Name) and x.id == N]
                        stores = [x for x in _own(node) if isinstance(x, ast.Name) and x.id == N and isinstance(x.ctx, (ast.Store, ast.Del))]
                        if len(inits) == 1 and len(inside) == 1 and len(stores) == 1 and not _mentions(outer[inits[0] + 1:li], N) and not _mentions(outer[li + 1:gi], N):
                            R = N
                fresh = R is None
                if fresh:
                    R = K + "__gone"
                if new_test not in (None, "R", R):
                    continue
                wi = [i for i, s in enumerate(wblk) if s is W][0]
                rest = wblk[wi + 1:]
                if W is not G and wblk[:wi]:
                    continue
                # ---- rewrite -------------------------------------------------------------------------------------------
                test = _negate(I.test) if keep_in_body else I.test
                nb = [s for s in ob if not isinstance(s, ast.Pass)]
                if fresh:
                    mark = _call_stmt(ast.Name(id=R, ctx=ast.Load()), "append", c, I)
                    nb = [mark] + nb if _jumps_at_level(nb) else nb + [mark]
                newI = ast.copy_location(ast.If(test=test, body=nb or [ast.copy_location(ast.Pass(), I)], orelse=[]), I)
                lp.body = [newI if s is I else s for s in body]
                if fresh:
                    outer[ki] = ast.copy_location(ast.Assign(targets=[ast.copy_location(ast.Name(id=R, ctx=ast.Store()), outer[ki])],
                                                             value=ast.copy_location(ast.List(elts=[], ctx=ast.Load()), outer[ki])), outer[ki])
                else:
                    outer[ki] = ast.copy_location(ast.Pass(), outer[ki])
                if count_alias is not None:
                    count_alias.value = ast.copy_location(ast.Call(func=ast.Name(id="len", ctx=ast.Load()), args=[ast.Name(id=R, ctx=ast.Load())], keywords=[]), count_alias.value)
                    ast.fix_missing_locations(count_alias)
                    # `n > 0` / `n != 0` / `n >= 1` / bare `n` in a test  ->  R (non-empty);  `n == 0` / `not n`  ->  not R
                    nname = count_alias.targets[0].id
                    par = {}
                    for x in ast.walk(node):
                        for ch in ast.iter_child_nodes(x):
                            par[id(ch)] = x
                    loads = [x for x in _own(node) if isinstance(x, ast.Name) and x.id == nname and isinstance(x.ctx, ast.Load)]
                    repl = []
                    for x in loads:
                        p_ = par.get(id(x))
                        if isinstance(p_, ast.Compare) and p_.left is x and len(p_.ops) == 1 and isinstance(p_.comparators[0], ast.Constant):
                            k_, op = p_.comparators[0].value, p_.ops[0]
                            if (k_ == 0 and isinstance(op, (ast.Gt, ast.NotEq))) or (k_ == 1 and isinstance(op, ast.GtE)):
                                repl.append((p_, True))
                                continue
                            if (k_ == 0 and isinstance(op, (ast.Eq, ast.LtE))) or (k_ == 1 and isinstance(op, ast.Lt)):
                                repl.append((p_, False))
                                continue
                        if isinstance(p_, (ast.If, ast.While)) and p_.test is x:
                            repl.append((x, True))
                            continue
                        if isinstance(p_, ast.UnaryOp) and isinstance(p_.op, ast.Not):
                            repl.append((p_, False))
                            continue
                        repl = None
                        break
                    if repl is not None:
                        for nd, pos in repl:
                            new_ = ast.Name(id=R, ctx=ast.Load()) if pos else ast.UnaryOp(op=ast.Not(), operand=ast.Name(id=R, ctx=ast.Load()))
                            keep_ = {k2: getattr(nd, k2) for k2 in ("lineno", "col_offset", "end_lineno", "end_col_offset") if hasattr(nd, k2)}
                            nd.__class__ = new_.__class__
                            nd.__dict__.clear()
                            nd.__dict__.update(new_.__dict__)
                            nd.__dict__.update(keep_)
                            ast.fix_missing_locations(nd)
                        for i_, s_ in enumerate(outer):
                            if s_ is count_alias:
                                outer[i_] = ast.copy_location(ast.Pass(), count_alias)
                dv = c + "__d"
                drain = ast.For(target=ast.Name(id=dv, ctx=ast.Store()), iter=ast.Name(id=R, ctx=ast.Load()), body=[_call_stmt(Lx, "remove", dv, W)], orelse=[], type_comment=None)
                for x in ast.walk(drain):
                    if not hasattr(x, "lineno"):
                        ast.copy_location(x, W)
                # `X.extend(R)` next to the write-back is the other half of the move
                joined = False
                if rest and isinstance(rest[0], ast.Expr) and isinstance(rest[0].value, ast.Call) and isinstance(rest[0].value.func, ast.Attribute) \
                        and rest[0].value.func.attr == "extend" and len(rest[0].value.args) == 1 and norm.is_name(rest[0].value.args[0], R) \
                        and norm.attr_chain(rest[0].value.func.value) is not None and norm.U(rest[0].value.func.value) != Lt:
                    drain.body.append(_call_stmt(rest[0].value.func.value, "append", dv, rest[0]))
                    rest = rest[1:]
                    joined = True
                if W is G:
                    outer[gi:gi + 1] = [drain]
                    if joined:
                        del outer[gi + 1]
                else:
                    new = [drain]
                    if rest:
                        G.test = ast.copy_location(ast.Name(id=R, ctx=ast.Load()), G.test)
                        G.body = rest
                        new.append(G)
                    outer[gi:gi + 1] = new
                return True
    return False


def partition_lists(f: Func) -> Func:
    src = None
    for x in _own(f.node):
        if isinstance(x, ast.Assign) and len(x.targets) == 1 and isinstance(x.value, ast.Name) and (_full_slice(x.targets[0]) is not None or isinstance(x.targets[0], ast.Attribute)):
            src = x
            break
    if src is None:
        return f
    node = norm.clone(f.node)
    changed = False
    for _ in range(6):
        if not _rewrite_once(node, set(f.params())):
            break
        changed = True
    if not changed:
        return f
    ast.fix_missing_locations(node)
    for n in ast.walk(node):
        for ch in ast.iter_child_nodes(n):
            ch._parent = n  # type: ignore[attr-defined]
    node._parent = getattr(f.node, "_parent", None)  # type: ignore[attr-defined]
    return Func(f.mod, f.qual, node, f.cls)


# ---------------------------------------------------------------------------------------------------------------------
# single exit written back as the early exits it stands for

def _stores_to(stmts, chain: str) -> bool:
    """a syntactic store to / mutation of the attribute chain (or a name) in these statements"""
    from .cfg import MUTATORS
    for s in stmts:
        for x in ast.walk(s):
            if isinstance(x, (ast.Assign, ast.AugAssign, ast.AnnAssign, ast.Delete, ast.For)):
                tg = x.targets if isinstance(x, (ast.Assign, ast.Delete)) else [x.target]
                for t in tg:
                    for y in ast.walk(t):
                        if isinstance(y, (ast.Name, ast.Attribute)) and norm.U(y) == chain and (y is t or isinstance(t, (ast.Subscript, ast.Tuple, ast.List, ast.Starred))):
                            return True
            if isinstance(x, ast.Call) and isinstance(x.func, ast.Attribute) and x.func.attr in MUTATORS and norm.U(x.func.value) == chain:
                return True
    return False


def _writes_attr(node: ast.AST, attrs) -> bool:
    """some statement under node stores to, deletes or mutates `<anything>.<attr>` (raw syntax; dynamic setattr counts as a write to everything)"""
    from .cfg import MUTATORS
    for x in ast.walk(node):
        if isinstance(x, ast.Attribute) and x.attr in attrs and isinstance(x.ctx, (ast.Store, ast.Del)):
            return True
        if isinstance(x, ast.Subscript) and isinstance(x.ctx, (ast.Store, ast.Del)) and isinstance(x.value, ast.Attribute) and x.value.attr in attrs:
            return True
        if isinstance(x, ast.Call):
            if isinstance(x.func, ast.Attribute) and x.func.attr in MUTATORS and isinstance(x.func.value, ast.Attribute) and x.func.value.attr in attrs:
                return True
            if isinstance(x.func, ast.Name) and x.func.id in ("setattr", "delattr", "vars"):
                return True
            if isinstance(x.func, ast.Attribute) and x.func.attr in ("__setattr__", "__dict__"):
                return True
    return False


def exit_flag_flow(P, f: Func) -> Func:
    """    X = E0                                   for ..:
           for ..:                                      ...
               ...                                      if c: TAIL[X := E1]          (TAIL ends with `return`)
               if c: X = E1; break         ==       TAIL[X := E0]
           TAIL                  (X bound nowhere else; E0 reads nothing the loop can change)

    The single-exit style of a function whose rules are stated on the early exit (`s.op_queue = s.op_queue[idx:]; return` inside the scan,
    `s.op_queue = []` after it).  `L[len(L):]` is written `[]`."""
    from .util import own_nodes, resolve_callee, reachable_funcs
    top = f.node
    for owner in [top] + [n for n in own_nodes(top) if isinstance(n, (ast.If, ast.With, ast.Try))]:
        for _, blk in _blocks(owner):
            for i, lp in enumerate(blk):
                if not (isinstance(lp, (ast.For, ast.While)) and not lp.orelse and i + 1 < len(blk)):
                    continue
                tail = blk[i + 1:]
                if not isinstance(tail[-1], ast.Return) or len(tail) > 4 or _jumps_at_level(tail[:-1]) or any(isinstance(x, (ast.For, ast.While, ast.Try, ast.With)) for s in tail for x in ast.walk(s)):
                    continue
                sites = []

                def scan(stmts, depth):
                    for k, st in enumerate(stmts):
                        if isinstance(st, ast.Break) and depth == 0:
                            sites.append((stmts, k))
                        if isinstance(st, (ast.FunctionDef, ast.AsyncFunctionDef, ast.ClassDef)):
                            continue
                        for fl2, b2 in _blocks(st):
                            d2 = depth + 1 if isinstance(st, (ast.For, ast.While)) and fl2 != "orelse" else depth
                            scan(b2, d2)
                scan(lp.body, 0)
                if not (1 <= len(sites) <= 2):
                    continue
                X = None
                ok = True
                for stmts, k in sites:
                    pv = stmts[k - 1] if k > 0 else None
                    if not (isinstance(pv, ast.Assign) and len(pv.targets) == 1 and isinstance(pv.targets[0], ast.Name) and isinstance(pv.value, (ast.Name, ast.Constant))):
                        ok = False
                        break
                    if X not in (None, pv.targets[0].id):
                        ok = False
                    X = pv.targets[0].id
                if not ok or X is None or X in f.params():
                    continue
                if not any(isinstance(x, ast.Name) and x.id == X for s in tail for x in ast.walk(s)):
                    continue
                inits = [k for k in range(i) if isinstance(blk[k], ast.Assign) and len(blk[k].targets) == 1 and norm.is_name(blk[k].targets[0], X)]
                stores = [x for x in own_nodes(top) if isinstance(x, ast.Name) and x.id == X and isinstance(x.ctx, (ast.Store, ast.Del))]
                if len(inits) != 1 or len(stores) != 1 + len(sites):
                    continue
                loads = [x for x in own_nodes(top) if isinstance(x, ast.Name) and x.id == X and isinstance(x.ctx, ast.Load)]
                if any(not any(x is y for s in tail for y in ast.walk(s)) for x in loads):
                    continue                                      # X is read somewhere else too
                if any(isinstance(x, ast.Name) and x.id == X and isinstance(x.ctx, ast.Store) for s in tail for x in ast.walk(s)):
                    continue
                E0 = blk[inits[0]].value
                # E0 must read nothing that the statements up to the end of the loop can change
                between = blk[inits[0] + 1:i + 1]
                chains = {norm.U(x) for x in ast.walk(E0) if isinstance(x, (ast.Name, ast.Attribute)) and isinstance(getattr(x, "ctx", None), ast.Load)}
                chains = {c for c in chains if c not in ("len", "max", "min", "None", "True", "False")}
                if any(isinstance(x, ast.Call) and not (isinstance(x.func, ast.Name) and x.func.id == "len") for x in ast.walk(E0)):
                    continue
                if any(_stores_to(between, c) for c in chains):
                    continue
                attrs = {c.rsplit(".", 1)[1] for c in chains if "." in c}
                if attrs:
                    callees = []
                    for s in between:
                        for c in ast.walk(s):
                            if isinstance(c, ast.Call):
                                callees.extend(resolve_callee(P, f, c))
                    if any(_writes_attr(g.node, attrs) for g in (reachable_funcs(P, callees, limit=400) if callees else [])):
                        continue
                # tail values at the break sites must not be rebound by the tail before use: values are names/constants of the loop
                node = norm.clone(top)
                m = {id(a): b for a, b in zip(ast.walk(top), ast.walk(node))}
                cblk = None
                cowner = m[id(owner)]
                for _, b in _blocks(cowner):
                    if len(b) == len(blk) and all(m[id(x)] is y for x, y in zip(blk, b)):
                        cblk = b
                if cblk is None:
                    continue

                def inst(value: ast.expr) -> List[ast.stmt]:
                    out = [norm.clone(s) for s in tail]

                    class Sub(ast.NodeTransformer):
                        def visit_Name(self, n):
                            if n.id == X and isinstance(n.ctx, ast.Load):
                                return ast.copy_location(norm.clone(value), n)
                            return n

                        def visit_Subscript(self, n):
                            self.generic_visit(n)
                            sl = n.slice
                            if isinstance(sl, ast.Slice) and sl.upper is None and sl.step is None and sl.lower is not None and _len_of(sl.lower) == norm.U(n.value) \
                                    and isinstance(n.ctx, ast.Load):
                                return ast.copy_location(ast.List(elts=[], ctx=ast.Load()), n)
                            return n
                    return [ast.fix_missing_locations(Sub().visit(s)) for s in out]
                for stmts, k in sites:
                    # locate the cloned list that holds this break
                    cst = m[id(stmts[k])]
                    cpar = m[id(stmts[k - 1])]
                    holder = None
                    for o in ast.walk(node):
                        for _, b in _blocks(o):
                            if any(x is cst for x in b):
                                holder = b
                    kk = [j for j, x in enumerate(holder) if x is cst][0]
                    holder[kk - 1:kk + 1] = inst(cpar.value)
                cblk[i + 1:] = inst(E0)
                cblk[inits[0]] = ast.copy_location(ast.Pass(), cblk[inits[0]])
                ast.fix_missing_locations(node)
                for n in ast.walk(node):
                    for ch in ast.iter_child_nodes(n):
                        ch._parent = n  # type: ignore[attr-defined]
                node._parent = getattr(top, "_parent", None)  # type: ignore[attr-defined]
                return Func(f.mod, f.qual, node, f.cls)
    return f


# ---------------------------------------------------------------------------------------------------------------------
# select, process, filter:   D = [v for v in L if C(v)];  for v in D: BODY;  [if D:] L[:] = [v for v in L if not C(v)]; REST

def _attrs_read_by(P, names) -> set:
    """attributes that the package methods of these names read (self.<attr>), one level of calls deep"""
    out = set()
    seen = set()
    work = list(names)
    depth = {n: 0 for n in names}
    while work:
        nm = work.pop()
        if nm in seen:
            continue
        seen.add(nm)
        for m in P.real_modules():
            for f in m.funcs.values():
                if f.name != nm:
                    continue
                for x in ast.walk(f.node):
                    if isinstance(x, ast.Attribute) and isinstance(x.ctx, ast.Load):
                        out.add(x.attr)
                    if isinstance(x, ast.Call) and isinstance(x.func, ast.Attribute) and depth.get(nm, 0) < 2:
                        depth.setdefault(x.func.attr, depth.get(nm, 0) + 1)
                        work.append(x.func.attr)
    return out


def filter_writeback(P, f: Func) -> Func:
    """The members selected by C are processed and then filtered out of L with the complementary comprehension: the same as draining the
    selection (`for v in D: L.remove(v)`), provided nothing in between changes L or what C reads."""
    from .cfg import MOD_ATTRS, MUTATORS
    top = f.node
    if not any(isinstance(x, ast.Assign) and isinstance(x.value, ast.ListComp) and (_full_slice(x.targets[0]) is not None or isinstance(x.targets[0], ast.Attribute)) for x in _own(top)):
        return f
    node = norm.clone(top)
    changed = False
    for owner in list(_own(node)):
        for _, outer in _blocks(owner):
            for gi, G in enumerate(outer):
                cands = [(G, outer)] + ([(G.body[0], G.body)] if isinstance(G, ast.If) and not G.orelse and G.body else [])
                for W, wblk in cands:
                    if not (isinstance(W, ast.Assign) and len(W.targets) == 1 and isinstance(W.value, ast.ListComp) and len(W.value.generators) == 1):
                        continue
                    t = W.targets[0]
                    Lx = _full_slice(t) if _full_slice(t) is not None else (t if isinstance(t, ast.Attribute) else None)
                    gen = W.value.generators[0]
                    if Lx is None or norm.attr_chain(Lx) is None or norm.U(gen.iter) != norm.U(Lx) or len(gen.ifs) != 1 or not isinstance(gen.target, ast.Name) \
                            or not norm.is_name(W.value.elt, gen.target.id):
                        continue
                    Lt = norm.U(Lx)
                    keep = norm.nnf(gen.ifs[0])
                    # the selection with the complementary test, earlier in the same block
                    di = None
                    for i in range(gi - 1, -1, -1):
                        s = outer[i]
                        if isinstance(s, ast.Assign) and len(s.targets) == 1 and isinstance(s.targets[0], ast.Name) and isinstance(s.value, ast.ListComp) \
                                and len(s.value.generators) == 1 and norm.U(s.value.generators[0].iter) == Lt and len(s.value.generators[0].ifs) == 1 \
                                and isinstance(s.value.generators[0].target, ast.Name) and norm.is_name(s.value.elt, s.value.generators[0].target.id):
                            sel = norm.nnf(norm.Subst({s.value.generators[0].target.id: ast.Name(id=gen.target.id, ctx=ast.Load())}).visit(norm.clone(s.value.generators[0].ifs[0])))
                            if sel == norm.neg(keep):
                                di = i
                                break
                    if di is None:
                        continue
                    D = outer[di].targets[0].id
                    if W is not G:
                        tt = G.test
                        okt = (isinstance(tt, ast.Name) and tt.id == D) or (isinstance(tt, ast.Compare) and len(tt.ops) == 1 and _len_of(tt.left) == D
                                                                            and isinstance(tt.ops[0], ast.Gt) and isinstance(tt.comparators[0], ast.Constant) and tt.comparators[0].value == 0)
                        if not okt:
                            continue
                    between = outer[di + 1:gi]
                    if _stores_to(between, Lt) or any(isinstance(x, ast.Name) and x.id == D and isinstance(x.ctx, (ast.Store, ast.Del)) for s in between for x in ast.walk(s)):
                        continue
                    # what the test reads is not touched in between
                    cond_calls = {x.func.attr for x in ast.walk(gen.ifs[0]) if isinstance(x, ast.Call) and isinstance(x.func, ast.Attribute)}
                    cond_attrs = _attrs_read_by(P, cond_calls) | {x.attr for x in ast.walk(gen.ifs[0]) if isinstance(x, ast.Attribute) and not isinstance(parent_call(x, gen.ifs[0]), ast.Call)}
                    touched = set()
                    for s in between:
                        for x in ast.walk(s):
                            if isinstance(x, ast.Call):
                                nm = x.func.attr if isinstance(x.func, ast.Attribute) else (x.func.id if isinstance(x.func, ast.Name) else None)
                                touched |= set(MOD_ATTRS.get(nm, ()))
                                if isinstance(x.func, ast.Attribute) and x.func.attr in MUTATORS and isinstance(x.func.value, ast.Attribute):
                                    touched.add(x.func.value.attr)
                            if isinstance(x, ast.Attribute) and isinstance(x.ctx, (ast.Store, ast.Del)):
                                touched.add(x.attr)
                    if touched & cond_attrs:
                        continue
                    dv = gen.target.id + "__d"
                    drain = ast.For(target=ast.Name(id=dv, ctx=ast.Store()), iter=ast.Name(id=D, ctx=ast.Load()), body=[_call_stmt(Lx, "remove", dv, W)], orelse=[], type_comment=None)
                    for x in ast.walk(drain):
                        if not hasattr(x, "lineno"):
                            ast.copy_location(x, W)
                    if W is G:
                        outer[gi:gi + 1] = [drain]
                    else:
                        rest = G.body[1:]
                        new = [drain]
                        if rest:
                            G.test = ast.copy_location(ast.Name(id=D, ctx=ast.Load()), G.test)
                            G.body = rest
                            new.append(G)
                        outer[gi:gi + 1] = new
                    changed = True
                    break
                if changed:
                    break
            if changed:
                break
        if changed:
            break
    if not changed:
        return f
    ast.fix_missing_locations(node)
    for n in ast.walk(node):
        for ch in ast.iter_child_nodes(n):
            ch._parent = n  # type: ignore[attr-defined]
    node._parent = getattr(top, "_parent", None)  # type: ignore[attr-defined]
    return filter_writeback(P, Func(f.mod, f.qual, node, f.cls))


def parent_call(x: ast.AST, root: ast.AST):
    """the Call whose .func is x, if any (x is a method being called rather than a field being read)"""
    for c in ast.walk(root):
        if isinstance(c, ast.Call) and c.func is x:
            return c
    return None


# ---------------------------------------------------------------------------------------------------------------------
# walking the executor's pools directly  ==  walking their indices

_POOLS_OK: dict = {}


def _pools_fixed(P) -> bool:
    """`pools` has exactly `num_pools` entries for the whole run: both are written only while the Executor is built (raw scan of the package)"""
    k = id(P)
    if k not in _POOLS_OK or _POOLS_OK[k][0] is not P:
        ok = True
        for m in P.real_modules():
            for f in m.funcs.values():
                if f.cls == "Executor" and f.name == "__init__":
                    continue
                if _writes_attr(f.node, {"pools", "num_pools"}):
                    ok = False
        _POOLS_OK[k] = (P, ok)
    return _POOLS_OK[k][1]


def pool_walks(P, f: Func) -> Func:
    """`for pool in X.pools` / `for i, pool in enumerate(X.pools)` (loops and comprehensions; X = `<s>.executor` or `self` inside Executor) is
    `for i in range(X.num_pools)` with `X.pools[i]` for pool; `len(L)` of a list built with one entry per pool is `X.num_pools`."""
    if not _pools_fixed(P):
        return f
    def owner_of(it):
        e = it
        if isinstance(e, ast.Call) and norm.is_name(e.func, "enumerate") and len(e.args) == 1 and not e.keywords:
            e = e.args[0]
        if isinstance(e, ast.Attribute) and e.attr == "pools" and norm.attr_chain(e.value) is not None:
            t = norm.U(e.value)
            if t.endswith(".executor") or (t == "self" and f.cls == "Executor"):
                return e.value, e is not it
        return None
    sites = [n for n in _own(f.node) if (isinstance(n, (ast.For, ast.comprehension)) and owner_of(n.iter) is not None)]
    if not sites:
        return f
    node = norm.clone(f.node)
    m = {id(a): b for a, b in zip(ast.walk(f.node), ast.walk(node))}
    changed = False
    k = 0
    per_pool_lists = {}
    for s0 in sites:
        s_ = m[id(s0)]
        X, enum = owner_of(s_.iter)
        tg = s_.target
        if enum:
            if not (isinstance(tg, ast.Tuple) and len(tg.elts) == 2 and all(isinstance(t, ast.Name) for t in tg.elts)):
                continue
            iv, pv = tg.elts[0].id, tg.elts[1].id
        else:
            if not isinstance(tg, ast.Name):
                continue
            k += 1
            pv, iv = tg.id, f"{tg.id}__idx{k}"
        # the scope in which pv stands for the pool: loop body / comprehension (elt + later generators + ifs)
        if isinstance(s_, ast.For):
            scope = list(s_.body)
            if s_.orelse:
                continue
        else:
            comp = None
            for c_ in ast.walk(node):
                if isinstance(c_, (ast.ListComp, ast.SetComp, ast.GeneratorExp, ast.DictComp)) and any(g_ is s_ for g_ in c_.generators):
                    comp = c_
            if comp is None:
                continue
            gi = [j for j, g_ in enumerate(comp.generators) if g_ is s_][0]
            scope = ([comp.key, comp.value] if isinstance(comp, ast.DictComp) else [comp.elt]) + list(s_.ifs) + [x for g_ in comp.generators[gi + 1:] for x in [g_.iter] + g_.ifs]
        if any(isinstance(x, ast.Name) and x.id in (pv, iv) and isinstance(x.ctx, (ast.Store, ast.Del)) for b_ in scope for x in ast.walk(b_)):
            continue
        repl = ast.Subscript(value=ast.Attribute(value=norm.clone(X), attr="pools", ctx=ast.Load()), slice=ast.Name(id=iv, ctx=ast.Load()), ctx=ast.Load())
        for b_ in scope:
            for x in ast.walk(b_):
                if isinstance(x, ast.Name) and x.id == pv and isinstance(x.ctx, ast.Load):
                    new = norm.clone(repl)
                    keep = {k2: getattr(x, k2) for k2 in ("lineno", "col_offset", "end_lineno", "end_col_offset") if hasattr(x, k2)}
                    x.__class__ = new.__class__
                    x.__dict__.clear()
                    x.__dict__.update(new.__dict__)
                    x.__dict__.update(keep)
        s_.target = ast.copy_location(ast.Name(id=iv, ctx=ast.Store()), tg)
        s_.iter = ast.copy_location(ast.Call(func=ast.Name(id="range", ctx=ast.Load()), args=[ast.Attribute(value=norm.clone(X), attr="num_pools", ctx=ast.Load())], keywords=[]), s_.iter)
        changed = True
        # L = [<expr> for <this generator>]  has one entry per pool
        if isinstance(s_, ast.comprehension):
            for a_ in ast.walk(node):
                if isinstance(a_, ast.Assign) and len(a_.targets) == 1 and isinstance(a_.targets[0], ast.Name) and isinstance(a_.value, ast.ListComp) \
                        and len(a_.value.generators) == 1 and a_.value.generators[0] is s_ and not s_.ifs:
                    per_pool_lists[a_.targets[0].id] = X
    if not changed:
        return f
    # `[.. for _ in L]` / `len(L)` where L has one entry per pool and is bound once
    stores = {}
    for x in _own(node):
        if isinstance(x, ast.Name) and isinstance(x.ctx, (ast.Store, ast.Del)):
            stores[x.id] = stores.get(x.id, 0) + 1
    muts = {x.func.value.id for x in _own(node) if isinstance(x, ast.Call) and isinstance(x.func, ast.Attribute) and isinstance(x.func.value, ast.Name)
            and x.func.attr in ("append", "extend", "insert", "pop", "remove", "clear")}
    for L, X in per_pool_lists.items():
        if stores.get(L) != 1 or L in muts:
            continue
        for x in list(_own(node)):
            if isinstance(x, ast.Call) and norm.is_name(x.func, "len") and len(x.args) == 1 and norm.is_name(x.args[0], L):
                new = ast.Attribute(value=norm.clone(X), attr="num_pools", ctx=ast.Load())
                keep = {k2: getattr(x, k2) for k2 in ("lineno", "col_offset", "end_lineno", "end_col_offset") if hasattr(x, k2)}
                x.__class__ = new.__class__
                x.__dict__.clear()
                x.__dict__.update(new.__dict__)
                x.__dict__.update(keep)
            if isinstance(x, ast.comprehension) and norm.is_name(x.iter, L) and isinstance(x.target, ast.Name) and x.target.id.startswith("_") and not x.ifs:
                x.iter = ast.copy_location(ast.Call(func=ast.Name(id="range", ctx=ast.Load()), args=[ast.Attribute(value=norm.clone(X), attr="num_pools", ctx=ast.Load())], keywords=[]), x.iter)
    ast.fix_missing_locations(node)
    for n in ast.walk(node):
        for ch in ast.iter_child_nodes(n):
            ch._parent = n  # type: ignore[attr-defined]
    node._parent = getattr(f.node, "_parent", None)  # type: ignore[attr-defined]
    return Func(f.mod, f.qual, node, f.cls)
