"""Run every property check against every stored behaviour-preserving refactoring (variants are analysed statically, never run).
   python -m sa.refrun [dir]     (default /verif/refactors)
Every check must stay silent on every refactoring; prints the alarms (there should be none), writes <dir>/SILENCE.json / SILENCE.md,
exits 1 if any check raised an alarm or stopped with an analysis error."""
import json, os, sys
from concurrent.futures import ProcessPoolExecutor

from .seedrun import one, PROPS


def main():
    root = sys.argv[1] if len(sys.argv) > 1 else os.path.join(os.path.dirname(os.path.dirname(os.path.abspath(__file__))), "refactors")
    jobs = []
    for dp, dn, fn in sorted(os.walk(root)):
        if "patch.diff" in fn:
            jobs.append((os.path.relpath(dp, root), os.path.join(dp, "patch.diff")))
    out = {}
    bad = 0
    with ProcessPoolExecutor(max_workers=16) as ex:
        for sid, res in ex.map(one, jobs):
            out[sid] = res
            fired = [f"{p}({','.join(x.split('#')[1] for x in v['rules'])})" for p, v in res.items() if v["rc"] == 1]
            err = [p for p, v in res.items() if v["rc"] == 2]
            if fired or err:
                bad += 1
            print(f"{sid:8s} {'silent' if not (fired or err) else 'ALARM: ' + ' '.join(fired)}" + (f"   ANALYSIS-ERROR: {' '.join(err)}" if err else ""), flush=True)
    json.dump(out, open(os.path.join(root, "SILENCE.json"), "w"), indent=1, sort_keys=True)
    rows = ["| refactoring | what it does (author's first line) | checks that raised an alarm |", "|---|---|---|"]
    for sid in sorted(out):
        try:
            notes = [l for l in open(os.path.join(root, sid, "notes.md")).read().strip().splitlines() if l.strip()]
            title = notes[0].lstrip("# ").strip()[:140]
        except Exception:
            title = ""
        fired = [f"{p}#{','.join(x.split('#')[1] for x in v['rules'])}" for p, v in sorted(out[sid].items()) if v["rc"] == 1] + \
                [f"{p}:analysis-error" for p, v in sorted(out[sid].items()) if v["rc"] == 2]
        rows.append(f"| {sid} | {title} | {' '.join(fired) or 'none'} |")
    rows.append("")
    rows.append(f"{len(out) - bad} of {len(out)} refactorings leave all {len(PROPS)} checks silent.")
    open(os.path.join(root, "SILENCE.md"), "w").write("\n".join(rows) + "\n")
    return 1 if bad else 0


if __name__ == "__main__":
    sys.exit(main())
