"""Record erasure: a NamedTuple (typing.NamedTuple class or collections.namedtuple) used as a local record is written back as the plain
tuple / the separate locals it stands for, so that `PhaseTicks(io, cpu)` + `t.io` and `(io, cpu)` + `io` are one program for the rules.

   X(a, b) / X(f=a, g=b)            ->  (a, b)
   e.f            (e of type X)     ->  e[i]
   e._replace(g=v)                  ->  (e[0], v)
   e.prop / e.meth()                ->  the member's `return <expr>` with self := e     (pure single-return members only)
   a name of type X that is only read through its fields (loop / comprehension target, or assigned once from X(...))
                                    ->  one name per field  (`for seg, t in zip(S, P)` -> `for seg, (t__io, t__cpu) in zip(S, P)`)

Types are inferred inside one function, flow-insensitively, from constructor calls: v = X(..), L.append(X(..)), L = [X(..) for ..],
for v in L, for .., v in zip(.., L), L[i], sorted(L)/L.sort(key=lambda x: ..).  Anything the inference does not reach stays as written (the
rules then see an attribute they do not know, which is an alarm at worst — never a silent pass)."""
from __future__ import annotations

import ast
from typing import Dict, List, Optional, Set, Tuple

from . import norm
from .model import Func, Program, own_nodes

_REC_CACHE: Dict = {}
_ERASE_CACHE: Dict = {}


class Rec:
    def __init__(self, name: str, fields: List[str], defaults: Dict[str, ast.expr], members: Dict[str, Tuple[str, ast.expr]]):
        self.name, self.fields, self.defaults, self.members = name, fields, defaults, members


def records(P: Program) -> Dict[str, Rec]:
    k = id(P)
    if k in _REC_CACHE and _REC_CACHE[k][0] is P:
        return _REC_CACHE[k][1]
    out: Dict[str, Rec] = {}
    dup: Set[str] = set()
    from .util import pinned_class_names
    pinned = pinned_class_names()    # the record types of the tree the rules were written against are anchors of rules (CSVOperatorRow, ...): kept
    for m in P.real_modules():
        for n in ast.walk(m.tree):
            rec = None
            if isinstance(n, ast.ClassDef) and any(norm.U(b).split(".")[-1] == "NamedTuple" for b in n.bases):
                fields, defaults, members = [], {}, {}
                ok = True
                for st in n.body:
                    if isinstance(st, ast.AnnAssign) and isinstance(st.target, ast.Name):
                        fields.append(st.target.id)
                        if st.value is not None:
                            defaults[st.target.id] = st.value
                    elif isinstance(st, ast.FunctionDef):
                        body = [s for s in st.body if not (isinstance(s, ast.Expr) and isinstance(s.value, ast.Constant))]
                        prop = any(isinstance(d, ast.Name) and d.id == "property" for d in st.decorator_list)
                        if len(body) == 1 and isinstance(body[0], ast.Return) and body[0].value is not None and len(st.args.args) == 1 \
                                and (prop or not st.decorator_list):
                            members[st.name] = ("property" if prop else "method", body[0].value, st.args.args[0].arg)
                    elif isinstance(st, ast.Expr) and isinstance(st.value, ast.Constant):
                        pass
                    elif isinstance(st, ast.Pass):
                        pass
                    else:
                        ok = False
                if ok and fields:
                    rec = Rec(n.name, fields, defaults, members)
            elif isinstance(n, ast.Assign) and len(n.targets) == 1 and isinstance(n.targets[0], ast.Name) and isinstance(n.value, ast.Call) \
                    and norm.U(n.value.func).split(".")[-1] == "namedtuple" and len(n.value.args) >= 2 and not n.value.keywords:
                spec = n.value.args[1]
                fields = None
                if isinstance(spec, ast.Constant) and isinstance(spec.value, str):
                    fields = spec.value.replace(",", " ").split()
                elif isinstance(spec, (ast.List, ast.Tuple)) and all(isinstance(e, ast.Constant) and isinstance(e.value, str) for e in spec.elts):
                    fields = [e.value for e in spec.elts]
                if fields:
                    rec = Rec(n.targets[0].id, fields, {}, {})
            if rec is not None and rec.name in pinned:
                rec = None
            if rec is not None:
                if rec.name in out:
                    dup.add(rec.name)
                out[rec.name] = rec
    for d in dup:
        out.pop(d, None)
    _REC_CACHE[k] = (P, out)
    return out


def dataclasses_(P: Program) -> Dict[str, Dict[str, ast.expr]]:
    """new (non-pinned) @dataclass classes whose fields all have a default: name -> {field: expression of a fresh default value}"""
    from .util import pinned_class_names
    pinned = pinned_class_names()
    out: Dict[str, Dict[str, ast.expr]] = {}
    seen: Set[str] = set()
    for m in P.real_modules():
        for n in ast.walk(m.tree):
            if not (isinstance(n, ast.ClassDef) and n.name not in pinned and not n.bases
                    and any(norm.U(d).split("(")[0].split(".")[-1] == "dataclass" for d in n.decorator_list)):
                continue
            fields: Dict[str, ast.expr] = {}
            ok = True
            for st in n.body:
                if isinstance(st, ast.AnnAssign) and isinstance(st.target, ast.Name) and st.value is not None:
                    v = st.value
                    if isinstance(v, ast.Call) and norm.U(v.func).split(".")[-1] == "field" and not v.args and len(v.keywords) == 1 and v.keywords[0].arg == "default_factory" \
                            and isinstance(v.keywords[0].value, ast.Name) and v.keywords[0].value.id in ("list", "dict", "set"):
                        fac = v.keywords[0].value.id
                        fields[st.target.id] = {"list": ast.List(elts=[], ctx=ast.Load()), "dict": ast.Dict(keys=[], values=[]),
                                                "set": ast.Call(func=ast.Name(id="set", ctx=ast.Load()), args=[], keywords=[])}[fac]
                    elif isinstance(v, ast.Constant) or (isinstance(v, ast.UnaryOp) and isinstance(v.operand, ast.Constant)):
                        fields[st.target.id] = v
                    else:
                        ok = False
                elif isinstance(st, ast.Expr) and isinstance(st.value, ast.Constant):
                    pass
                elif isinstance(st, ast.Pass):
                    pass
                elif isinstance(st, ast.FunctionDef) and getattr(st, "_synthetic", False):
                    pass      # the constructor model._dataclass_init wrote out
                else:
                    ok = False
            if ok and fields:
                if n.name in seen:
                    out.pop(n.name, None)
                else:
                    out[n.name] = fields
                seen.add(n.name)
    return out


def _soa(fn: ast.AST, dcs: Dict[str, Dict[str, ast.expr]]) -> bool:
    """A local table of records  D = {k: R(), ...}  read and written only as D[k].f  (directly, through `t = D[k]`, or as
    `x.f for x in D.values()`) is one table per field:  D__f = {k: <default of f>, ...};  D[k].f -> D__f[k];  (x.f for x in D.values()) -> D__f.values()."""
    parents: Dict[int, ast.AST] = {}
    for n in ast.walk(fn):
        for ch in ast.iter_child_nodes(n):
            parents[id(ch)] = n
    changed = False
    for d in [n for n in ast.walk(fn) if isinstance(n, (ast.Assign, ast.AnnAssign))]:
        tg = d.targets[0] if isinstance(d, ast.Assign) and len(d.targets) == 1 else (d.target if isinstance(d, ast.AnnAssign) else None)
        v = d.value
        if not isinstance(tg, ast.Name) or v is None:
            continue
        R = None
        if isinstance(v, ast.Dict) and v.values and all(isinstance(x, ast.Call) and isinstance(x.func, ast.Name) and x.func.id in dcs and not x.args and not x.keywords for x in v.values) \
                and len({x.func.id for x in v.values}) == 1 and all(k is not None for k in v.keys):
            R = v.values[0].func.id
        elif isinstance(v, ast.DictComp) and isinstance(v.value, ast.Call) and isinstance(v.value.func, ast.Name) and v.value.func.id in dcs and not v.value.args and not v.value.keywords:
            R = v.value.func.id
        if R is None:
            continue
        D = tg.id
        fields = dcs[R]
        occ = [n for n in ast.walk(fn) if isinstance(n, ast.Name) and n.id == D]
        if sum(1 for n in occ if isinstance(n.ctx, (ast.Store, ast.Del))) != 1:
            continue
        plan = []      # (kind, node, ...)
        aliases: Dict[str, ast.Assign] = {}
        ok = True
        for n in occ:
            if not isinstance(n.ctx, ast.Load):
                continue
            p = parents.get(id(n))
            if isinstance(p, ast.Subscript) and p.value is n and not isinstance(p.slice, ast.Slice):
                pp = parents.get(id(p))
                if isinstance(pp, ast.Attribute) and pp.value is p and pp.attr in fields:
                    plan.append(("field", pp, p))
                elif isinstance(pp, ast.Assign) and pp.value is p and len(pp.targets) == 1 and isinstance(pp.targets[0], ast.Name):
                    aliases[pp.targets[0].id] = pp
                else:
                    ok = False
            elif isinstance(p, ast.Attribute) and p.value is n and p.attr == "values":
                c = parents.get(id(p))
                ge = parents.get(id(c)) if isinstance(c, ast.Call) and c.func is p and not c.args else None
                comp = parents.get(id(ge)) if isinstance(ge, ast.comprehension) and ge.iter is c else None
                if isinstance(comp, (ast.GeneratorExp, ast.ListComp)) and len(comp.generators) == 1 and not ge.ifs and isinstance(ge.target, ast.Name) \
                        and isinstance(comp.elt, ast.Attribute) and norm.is_name(comp.elt.value, ge.target.id) and comp.elt.attr in fields:
                    plan.append(("values", comp, comp.elt.attr))
                else:
                    ok = False
            else:
                ok = False
        for a, adef in aliases.items():
            aocc = [n for n in ast.walk(fn) if isinstance(n, ast.Name) and n.id == a]
            if sum(1 for n in aocc if isinstance(n.ctx, (ast.Store, ast.Del))) != 1:
                ok = False
            for n in aocc:
                if isinstance(n.ctx, ast.Load):
                    p = parents.get(id(n))
                    if isinstance(p, ast.Attribute) and p.value is n and p.attr in fields:
                        plan.append(("alias", p, adef.value))
                    else:
                        ok = False
        if not ok:
            continue
        # rewrite
        def table(fname):
            return f"{D}__{fname}"
        for kind, node_, extra in plan:
            if kind == "field":
                node_.__class__ = ast.Subscript
                ctx = node_.ctx
                fname = node_.attr
                sub = extra
                node_.__dict__.pop("attr", None)
                node_.value = ast.Name(id=table(fname), ctx=ast.Load())
                node_.slice = sub.slice
                node_.ctx = ctx
            elif kind == "alias":
                ctx = node_.ctx
                fname = node_.attr
                node_.__class__ = ast.Subscript
                node_.__dict__.pop("attr", None)
                node_.value = ast.Name(id=table(fname), ctx=ast.Load())
                node_.slice = norm.clone(extra.slice)
                node_.ctx = ctx
            elif kind == "values":
                comp = node_
                new = ast.Call(func=ast.Attribute(value=ast.Name(id=table(extra), ctx=ast.Load()), attr="values", ctx=ast.Load()), args=[], keywords=[])
                par = parents.get(id(comp))
                for fld, val in ast.iter_fields(par):
                    if val is comp:
                        setattr(par, fld, new)
                    elif isinstance(val, list):
                        for i_, x in enumerate(val):
                            if x is comp:
                                val[i_] = new
        # the definition: one table per field, in field order; the alias definitions disappear
        defs = []
        for fname, dflt in fields.items():
            if isinstance(v, ast.Dict):
                val = ast.Dict(keys=[norm.clone(k) for k in v.keys], values=[norm.clone(dflt) for _ in v.keys])
            else:
                val = ast.DictComp(key=norm.clone(v.key), value=norm.clone(dflt), generators=[norm.clone(g_) for g_ in v.generators])
            defs.append(ast.copy_location(ast.Assign(targets=[ast.Name(id=table(fname), ctx=ast.Store())], value=val), d))
        owner = parents.get(id(d))
        for fld in ("body", "orelse", "finalbody"):
            b = getattr(owner, fld, None)
            if isinstance(b, list) and any(x is d for x in b):
                i_ = [k for k, x in enumerate(b) if x is d][0]
                b[i_:i_ + 1] = defs
        for a, adef in aliases.items():
            owner = parents.get(id(adef))
            for fld in ("body", "orelse", "finalbody"):
                b = getattr(owner, fld, None)
                if isinstance(b, list) and any(x is adef for x in b):
                    b[:] = [x for x in b if x is not adef] or [ast.Pass()]
        changed = True
        ast.fix_missing_locations(fn)
        parents = {}
        for n in ast.walk(fn):
            for ch in ast.iter_child_nodes(n):
                parents[id(ch)] = n
    return changed


def dataclass_fields(P: Program) -> Dict[str, List[Tuple[str, Optional[ast.expr]]]]:
    """new (non-pinned) @dataclass classes without bases and without __post_init__: name -> [(field, simple default or None)] in declaration order"""
    from .util import pinned_class_names
    pinned = pinned_class_names()
    out: Dict[str, List[Tuple[str, Optional[ast.expr]]]] = {}
    seen: Set[str] = set()
    for m in P.real_modules():
        for n in ast.walk(m.tree):
            if not (isinstance(n, ast.ClassDef) and n.name not in pinned and not n.bases
                    and any(norm.U(d).split("(")[0].split(".")[-1] == "dataclass" for d in n.decorator_list)):
                continue
            fl: List[Tuple[str, Optional[ast.expr]]] = []
            ok = True
            for st in n.body:
                if isinstance(st, ast.AnnAssign) and isinstance(st.target, ast.Name):
                    v = st.value
                    if v is None or isinstance(v, ast.Constant) or (isinstance(v, ast.UnaryOp) and isinstance(v.operand, ast.Constant)):
                        fl.append((st.target.id, v))
                    else:
                        ok = False
                elif isinstance(st, ast.FunctionDef) and st.name in ("__post_init__", "__setattr__", "__getattr__", "__getattribute__", "__eq__", "__hash__"):
                    ok = False
                elif isinstance(st, ast.Assign):
                    ok = False
            if any(isinstance(d, ast.Call) and d.keywords for d in n.decorator_list):
                ok = False       # frozen / slots / order ...: not a plain record
            if n.name in seen:
                out.pop(n.name, None)
            elif ok and fl:
                out[n.name] = fl
            seen.add(n.name)
    return out


def _aod(fn: ast.AST, dfs: Dict[str, List[Tuple[str, Optional[ast.expr]]]]) -> bool:
    """A local table  D = {}; D[k] = R(f=e, ..)  whose entries are used only as  D[k].f,  through a per-iteration alias  b = D[k]; b.f,  or as
    vars(..)  is a table of plain dicts:  D[k] = {'f': e, ..};  D[k].f / b.f -> D[k]['f'];  vars(b) -> D[k]."""
    parents: Dict[int, ast.AST] = {}
    for n in ast.walk(fn):
        for ch in ast.iter_child_nodes(n):
            parents[id(ch)] = n
    changed = False
    for d in [n for n in ast.walk(fn) if isinstance(n, (ast.Assign, ast.AnnAssign))]:
        tg = d.targets[0] if isinstance(d, ast.Assign) and len(d.targets) == 1 else (d.target if isinstance(d, ast.AnnAssign) else None)
        if not (isinstance(tg, ast.Name) and isinstance(d.value, ast.Dict) and not d.value.keys):
            continue
        D = tg.id
        occ = [n for n in ast.walk(fn) if isinstance(n, ast.Name) and n.id == D]
        if sum(1 for n in occ if isinstance(n.ctx, (ast.Store, ast.Del))) != 1:
            continue
        ctors, uses, aliases = [], [], {}
        R = None
        ok = True

        def use_of(holder, key_expr):
            """holder: the expression standing for one entry (D[k] or an alias name)"""
            p = parents.get(id(holder))
            if isinstance(p, ast.Attribute) and p.value is holder:
                uses.append(("field", p, key_expr))
                return True
            if isinstance(p, ast.Call) and norm.is_name(p.func, "vars") and len(p.args) == 1 and p.args[0] is holder and not p.keywords:
                uses.append(("vars", p, key_expr))
                return True
            return False
        for n in occ:
            if not isinstance(n.ctx, ast.Load):
                continue
            p = parents.get(id(n))
            if not (isinstance(p, ast.Subscript) and p.value is n and not isinstance(p.slice, ast.Slice)):
                ok = False
                break
            pp = parents.get(id(p))
            if isinstance(p.ctx, ast.Store):
                if isinstance(pp, ast.Assign) and len(pp.targets) == 1 and pp.targets[0] is p and isinstance(pp.value, ast.Call) and isinstance(pp.value.func, ast.Name) \
                        and pp.value.func.id in dfs and R in (None, pp.value.func.id):
                    R = pp.value.func.id
                    ctors.append(pp)
                else:
                    ok = False
                    break
            elif isinstance(pp, ast.Assign) and pp.value is p and len(pp.targets) == 1 and isinstance(pp.targets[0], ast.Name):
                aliases[pp.targets[0].id] = pp
            elif not use_of(p, p):
                ok = False
                break
        if not ok or R is None or not ctors:
            continue
        fields = [x for x, _ in dfs[R]]
        for a, adef in aliases.items():
            aocc = [n for n in ast.walk(fn) if isinstance(n, ast.Name) and n.id == a]
            if sum(1 for n in aocc if isinstance(n.ctx, (ast.Store, ast.Del))) != 1:
                ok = False
                break
            # the key must mean the same at every use of the alias: a loop variable of a loop that holds the alias and all its uses, or a constant
            key = adef.value.slice
            if isinstance(key, ast.Name):
                lp = parents.get(id(adef))
                while lp is not None and not (isinstance(lp, ast.For) and norm.is_name(lp.target, key.id)):
                    lp = parents.get(id(lp))
                inside = {id(x) for x in ast.walk(lp)} if lp is not None else set()
                binds = [x for x in ast.walk(fn) if isinstance(x, ast.Name) and x.id == key.id and isinstance(x.ctx, (ast.Store, ast.Del)) and id(x) in inside and x is not lp.target] if lp is not None else [1]
                if lp is None or binds or any(id(n) not in inside for n in aocc):
                    ok = False
                    break
            elif not isinstance(key, ast.Constant):
                ok = False
                break
            for n in aocc:
                if isinstance(n.ctx, ast.Load) and not use_of(n, adef.value):
                    ok = False
        if not ok:
            continue
        if any(u[0] == "field" and u[1].attr not in fields for u in uses):
            continue
        # constructor calls -> dict displays
        plan = []
        for c in ctors:
            call = c.value
            if len(call.args) > len(fields) or any(k.arg is None or k.arg not in fields for k in call.keywords):
                ok = False
                break
            vals: Dict[str, ast.expr] = {fl: a_ for fl, a_ in zip(fields, call.args)}
            for k in call.keywords:
                vals[k.arg] = k.value
            for fl, dflt in dfs[R]:
                if fl not in vals:
                    if dflt is None:
                        ok = False
                    else:
                        vals[fl] = norm.clone(dflt)
            plan.append((c, vals))
        if not ok:
            continue
        for c, vals in plan:
            c.value = ast.copy_location(ast.Dict(keys=[ast.Constant(value=fl) for fl in fields], values=[vals[fl] for fl in fields]), c.value)
        for kind, node_, entry in uses:
            ent = norm.clone(entry)
            for x in ast.walk(ent):
                if isinstance(x, (ast.Subscript, ast.Name, ast.Attribute)):
                    x.ctx = ast.Load()
            if kind == "field":
                fname = node_.attr
                ctx_ = node_.ctx
                node_.__class__ = ast.Subscript
                node_.__dict__.pop("attr", None)
                node_.value = ent
                node_.slice = ast.Constant(value=fname)
                node_.ctx = ctx_
            else:
                node_.__class__ = ast.Subscript
                for k_ in ("func", "args", "keywords"):
                    node_.__dict__.pop(k_, None)
                node_.value = ent.value
                node_.slice = ent.slice
                node_.ctx = ast.Load()
        # the alias definitions are dead now
        for a, adef in aliases.items():
            par = parents.get(id(adef))
            for fld in ("body", "orelse", "finalbody"):
                b = getattr(par, fld, None)
                if isinstance(b, list) and any(x is adef for x in b):
                    b[:] = [x for x in b if x is not adef] or [ast.copy_location(ast.Pass(), adef)]
        changed = True
        ast.fix_missing_locations(fn)
    return changed


def _ctor(e: ast.AST, recs: Dict[str, Rec]) -> Optional[Rec]:
    if isinstance(e, ast.Call) and isinstance(e.func, ast.Name) and e.func.id in recs:
        return recs[e.func.id]
    return None


class _Types:
    def __init__(self, fn: ast.AST, recs: Dict[str, Rec]):
        self.recs = recs
        self.names: Dict[str, Rec] = {}     # local name -> record type
        self.lists: Dict[str, Rec] = {}     # local name of a list whose elements are records
        self.conflict: Set[str] = set()
        self.fn = fn
        self._infer()

    def of(self, e: ast.AST) -> Optional[Rec]:
        r = _ctor(e, self.recs)
        if r is not None:
            return r
        if isinstance(e, ast.Name):
            return None if e.id in self.conflict else self.names.get(e.id)
        if isinstance(e, ast.Subscript) and isinstance(e.value, ast.Name) and not isinstance(e.slice, ast.Slice):
            return self.lists.get(e.value.id)
        if isinstance(e, ast.Call) and isinstance(e.func, ast.Attribute) and e.func.attr == "_replace":
            return self.of(e.func.value)
        return None

    def list_of(self, e: ast.AST) -> Optional[Rec]:
        if isinstance(e, ast.Name):
            return self.lists.get(e.id)
        if isinstance(e, ast.Call) and isinstance(e.func, ast.Name) and e.func.id in ("sorted", "list", "reversed", "tuple", "iter") and e.args:
            return self.list_of(e.args[0])
        if isinstance(e, ast.Subscript) and isinstance(e.slice, ast.Slice):
            return self.list_of(e.value)
        if isinstance(e, (ast.ListComp, ast.GeneratorExp)):
            return self.of(e.elt)
        if isinstance(e, (ast.List, ast.Tuple)) and e.elts:
            ts = [self.of(x) for x in e.elts]
            if all(t is not None and t is ts[0] for t in ts):
                return ts[0]
        return None

    def _set(self, table: Dict[str, Rec], name: str, r: Rec) -> bool:
        if name in table:
            if table[name] is not r:
                self.conflict.add(name)
            return False
        table[name] = r
        return True

    def _bind_target(self, tgt: ast.AST, it: ast.AST) -> bool:
        """for tgt in it / comprehension: -> changed"""
        ch = False
        if isinstance(tgt, ast.Name):
            r = self.list_of(it)
            if r is not None:
                ch |= self._set(self.names, tgt.id, r)
        elif isinstance(tgt, ast.Tuple) and isinstance(it, ast.Call) and isinstance(it.func, ast.Name):
            if it.func.id == "zip" and len(it.args) == len(tgt.elts):
                for t, a in zip(tgt.elts, it.args):
                    ch |= self._bind_target(t, a)
            elif it.func.id == "enumerate" and len(tgt.elts) == 2 and it.args:
                ch |= self._bind_target(tgt.elts[1], it.args[0])
        return ch

    def _infer(self):
        changed = True
        rounds = 0
        while changed and rounds < 8:
            changed = False
            rounds += 1
            for n in ast.walk(self.fn):
                if isinstance(n, ast.Assign) and len(n.targets) == 1 and isinstance(n.targets[0], ast.Name):
                    r = self.of(n.value)
                    if r is not None:
                        changed |= self._set(self.names, n.targets[0].id, r)
                    rl = self.list_of(n.value)
                    if rl is not None:
                        changed |= self._set(self.lists, n.targets[0].id, rl)
                elif isinstance(n, ast.Call) and isinstance(n.func, ast.Attribute) and n.func.attr in ("append", "insert") and isinstance(n.func.value, ast.Name) and n.args:
                    r = self.of(n.args[-1])
                    if r is not None:
                        changed |= self._set(self.lists, n.func.value.id, r)
                elif isinstance(n, (ast.For, ast.AsyncFor)):
                    changed |= self._bind_target(n.target, n.iter)
                elif isinstance(n, ast.comprehension):
                    changed |= self._bind_target(n.target, n.iter)
                elif isinstance(n, ast.Call) and n.keywords:
                    # L.sort(key=lambda x: ..) / sorted(L, key=lambda x: ..) / max(L, key=..) / min(..)
                    src = None
                    if isinstance(n.func, ast.Attribute) and n.func.attr == "sort":
                        src = n.func.value
                    elif isinstance(n.func, ast.Name) and n.func.id in ("sorted", "max", "min") and n.args:
                        src = n.args[0]
                    r = self.list_of(src) if src is not None else None
                    if r is not None:
                        for kw in n.keywords:
                            if kw.arg == "key" and isinstance(kw.value, ast.Lambda) and len(kw.value.args.args) == 1:
                                changed |= self._set(self.names, kw.value.args.args[0].arg, r)


def _tuple_of(r: Rec, c: ast.Call) -> Optional[ast.expr]:
    vals: Dict[str, ast.expr] = {}
    if any(isinstance(a, ast.Starred) for a in c.args) or any(k.arg is None for k in c.keywords) or len(c.args) > len(r.fields):
        return None
    for f, a in zip(r.fields, c.args):
        vals[f] = a
    for k in c.keywords:
        if k.arg not in r.fields or k.arg in vals:
            return None
        vals[k.arg] = k.value
    for f in r.fields:
        if f not in vals:
            if f not in r.defaults:
                return None
            vals[f] = norm.clone(r.defaults[f])
    return ast.Tuple(elts=[vals[f] for f in r.fields], ctx=ast.Load())


_DF_CACHE: Dict = {}
_DC_CACHE: Dict = {}


def erase(P: Program, f: Func) -> Func:
    recs = records(P)
    kd = id(P)
    if kd not in _DC_CACHE or _DC_CACHE[kd][0] is not P:
        _DC_CACHE[kd] = (P, dataclasses_(P))
    dcs = _DC_CACHE[kd][1]
    if kd not in _DF_CACHE or _DF_CACHE[kd][0] is not P:
        _DF_CACHE[kd] = (P, dataclass_fields(P))
    dfs = _DF_CACHE[kd][1]
    if not recs and not dcs and not dfs:
        return f
    k = (id(P), id(f.node))
    hit = _ERASE_CACHE.get(k)
    if hit is not None and hit[0] is P and hit[1] is f.node:
        return hit[2]
    names_used = {n.id for n in ast.walk(f.node) if isinstance(n, ast.Name)}
    if not (names_used & (set(recs) | set(dcs) | set(dfs))):
        _ERASE_CACHE[k] = (P, f.node, f)
        return f
    node = norm.clone(f.node)
    if names_used & set(dcs):
        _soa(node, dcs)
    if names_used & set(dfs):
        _aod(node, dfs)
    ty = _Types(node, recs)

    class T(ast.NodeTransformer):
        def visit_Attribute(self, a: ast.Attribute):
            r0 = _ctor(a.value, recs) if isinstance(a.ctx, ast.Load) else None
            a = self.generic_visit(a)
            if not isinstance(a.ctx, ast.Load):
                return a
            if r0 is not None and a.attr in r0.fields and isinstance(a.value, ast.Tuple) and len(a.value.elts) == len(r0.fields):
                return a.value.elts[r0.fields.index(a.attr)]          # R(x, y).f  ->  x
            r = ty.of(a.value)
            if r is None:
                return a
            if a.attr in r.fields:
                return ast.copy_location(ast.Subscript(value=a.value, slice=ast.Constant(r.fields.index(a.attr)), ctx=ast.Load()), a)
            if a.attr in r.members and r.members[a.attr][0] == "property":
                _, e, selfn = r.members[a.attr]
                e2 = norm.Subst({selfn: a.value}).visit(norm.clone(e))
                return self.visit(ast.copy_location(e2, a))
            return a

        def visit_Call(self, c: ast.Call):
            # member call on a typed receiver, before the children are rewritten
            if isinstance(c.func, ast.Attribute):
                r = ty.of(c.func.value)
                if r is not None and c.func.attr == "_replace" and not c.args and all(k.arg in r.fields for k in c.keywords):
                    recv = self.visit(c.func.value)
                    kv = {k.arg: self.visit(k.value) for k in c.keywords}
                    elts = [kv[fl] if fl in kv else ast.Subscript(value=norm.clone(recv), slice=ast.Constant(i), ctx=ast.Load()) for i, fl in enumerate(r.fields)]
                    return ast.copy_location(ast.Tuple(elts=elts, ctx=ast.Load()), c)
                if r is not None and c.func.attr in r.members and r.members[c.func.attr][0] == "method" and not c.args and not c.keywords:
                    _, e, selfn = r.members[c.func.attr]
                    e2 = norm.Subst({selfn: c.func.value}).visit(norm.clone(e))
                    return self.visit(ast.copy_location(e2, c))
            c = self.generic_visit(c)
            r = _ctor(c, recs)
            if r is not None:
                t = _tuple_of(r, c)
                if t is not None:
                    return ast.copy_location(t, c)
            return c

    # Subst keeps Name nodes whose type lookup needs the *name*: run the attribute rewrite on the typed tree (types are by name, stable)
    node = T().visit(node)
    ast.fix_missing_locations(node)
    node = _split_webs(node, {n for n in ty.names if n not in ty.conflict})
    node = _scalarise(node, ty)
    ast.fix_missing_locations(node)
    for n in ast.walk(node):
        for ch in ast.iter_child_nodes(n):
            ch._parent = n  # type: ignore[attr-defined]
    node._parent = getattr(f.node, "_parent", None)  # type: ignore[attr-defined]
    g = Func(f.mod, f.qual, node, f.cls)
    _ERASE_CACHE[k] = (P, f.node, g)
    return g


def _split_webs(fn: ast.AST, names: Set[str]) -> ast.AST:
    """A local that is bound at several places with disjoint uses (`t = X(..)` in one loop, `for s, t in zip(..)` in the next) is really several
    variables: every load is connected to the bindings that reach it (reaching definitions on the CFG), the connected components are
    renamed apart.  Comprehension targets are scopes of their own and are renamed apart first."""
    cnt = [0]
    # comprehension scopes
    for comp in [n for n in ast.walk(fn) if isinstance(n, (ast.ListComp, ast.SetComp, ast.GeneratorExp, ast.DictComp))]:
        bound = {x.id for ge in comp.generators for x in ast.walk(ge.target) if isinstance(x, ast.Name)} & names
        outer_uses = {x.id for x in ast.walk(fn) if isinstance(x, ast.Name) and x.id in bound and not any(x is y for y in ast.walk(comp))}
        for v in bound & outer_uses:
            cnt[0] += 1
            for x in ast.walk(comp):
                if isinstance(x, ast.Name) and x.id == v:
                    x.id = f"{v}__c{cnt[0]}"
    for lam in [n for n in ast.walk(fn) if isinstance(n, ast.Lambda)]:
        for a in lam.args.args:
            if a.arg in names and any(isinstance(x, ast.Name) and x.id == a.arg and not any(x is y for y in ast.walk(lam)) for x in ast.walk(fn)):
                cnt[0] += 1
                new = f"{a.arg}__c{cnt[0]}"
                for x in ast.walk(lam.body):
                    if isinstance(x, ast.Name) and x.id == a.arg:
                        x.id = new
                a.arg = new
    multi = {}
    in_comp = {id(x) for comp in ast.walk(fn) if isinstance(comp, (ast.ListComp, ast.SetComp, ast.GeneratorExp, ast.DictComp, ast.Lambda)) for x in ast.walk(comp)}
    for v in names:
        defs = []
        for n in ast.walk(fn):
            if id(n) in in_comp:
                continue
            if isinstance(n, (ast.Assign, ast.AnnAssign, ast.AugAssign)):
                tg = n.targets if isinstance(n, ast.Assign) else [n.target]
                if any(isinstance(x, ast.Name) and x.id == v and isinstance(x.ctx, ast.Store) for t in tg for x in ast.walk(t)):
                    defs.append(n)
            elif isinstance(n, (ast.For, ast.AsyncFor)) and any(isinstance(x, ast.Name) and x.id == v for x in ast.walk(n.target)):
                defs.append(n)
        if len(defs) > 1:
            multi[v] = defs
    if not multi:
        return fn
    from .cfg import CFG
    for n in ast.walk(fn):
        for ch in ast.iter_child_nodes(n):
            ch._parent = n  # type: ignore[attr-defined]
    try:
        g = CFG(fn)
    except Exception:
        return fn

    def stmt_of(x):
        while not isinstance(x, ast.stmt):
            x = getattr(x, "_parent", None)
            if x is None:
                return None
        return x
    for v, defs in multi.items():
        try:
            ids = {g.node_of(d).id: d for d in defs}
        except Exception:
            continue
        parent_ = {i: i for i in ids}

        def find(i):
            while parent_[i] != i:
                parent_[i] = parent_[parent_[i]]
                i = parent_[i]
            return i
        loads = [x for x in ast.walk(fn) if isinstance(x, ast.Name) and x.id == v and isinstance(x.ctx, ast.Load) and id(x) not in in_comp]
        load_web: Dict[int, Set[int]] = {}
        okv = True
        for x in loads:
            st = stmt_of(x)
            # a load in the header of a compound statement belongs to that statement's node
            try:
                tgt = g.node_of(st).id
            except Exception:
                okv = False
                break
            reach = set()
            for i, d in ids.items():
                if i == tgt:
                    # the statement both binds and reads v (x = f(x)): it reads what reaches it from elsewhere
                    continue
                if g.path_avoiding(i, {tgt}, set(ids) - {i}) is not None:
                    reach.add(i)
            if isinstance(st, (ast.For, ast.AsyncFor)) and tgt in ids and any(x is y for b in st.body + st.orelse for y in ast.walk(b)):
                pass
            load_web[id(x)] = reach
            rl = sorted(reach)
            for a in rl[1:]:
                parent_[find(a)] = find(rl[0])
        if not okv:
            continue
        # loads inside the body of a for-loop that binds v are reached by that loop's header: node_of(stmt in body) != header, handled above
        webs = {}
        for i in ids:
            webs.setdefault(find(i), []).append(i)
        if len(webs) < 2:
            continue
        for wi, (root, members) in enumerate(sorted(webs.items())):
            if wi == 0:
                continue
            cnt[0] += 1
            new = f"{v}__w{cnt[0]}"
            mem = set(members)
            for i in members:
                d = ids[i]
                tg = d.targets if isinstance(d, ast.Assign) else [d.target]
                for t in tg:
                    for x in ast.walk(t):
                        if isinstance(x, ast.Name) and x.id == v and isinstance(x.ctx, ast.Store):
                            x.id = new
            for x in loads:
                if load_web.get(id(x)) and load_web[id(x)] <= mem:
                    x.id = new
    return fn


def _scalarise(fn: ast.AST, ty: _Types) -> ast.AST:
    """A record-typed name that (after the rewrite above) occurs only as  <name>[<const i>]  loads, and is bound only as a loop /
    comprehension target or by one assignment from a tuple display, becomes one name per field."""
    cand = {n: r for n, r in ty.names.items() if n not in ty.conflict}
    for x in ast.walk(fn):
        if isinstance(x, ast.Name) and "__w" in x.id or isinstance(x, ast.Name) and "__c" in x.id:
            base = x.id.rsplit("__", 1)[0]
            if base in cand and x.id not in cand:
                cand[x.id] = cand[base]
    if not cand:
        return fn
    parents: Dict[int, ast.AST] = {}
    for n in ast.walk(fn):
        for ch in ast.iter_child_nodes(n):
            parents[id(ch)] = n
    ok: Dict[str, bool] = {n: True for n in cand}
    binds: Dict[str, List[ast.AST]] = {n: [] for n in cand}
    for n in ast.walk(fn):
        if isinstance(n, ast.arg) and n.arg in cand:
            # lambda parameter: handled below as a binding site only when the lambda has this single parameter
            p = parents.get(id(parents.get(id(n))))
            if isinstance(p, ast.Lambda) and len(p.args.args) == 1:
                binds[n.arg].append(n)
            else:
                ok[n.arg] = False
        if not (isinstance(n, ast.Name) and n.id in cand):
            continue
        p = parents.get(id(n))
        if isinstance(n.ctx, ast.Load):
            if not (isinstance(p, ast.Subscript) and p.value is n and isinstance(p.slice, ast.Constant) and isinstance(p.slice.value, int)
                    and isinstance(p.ctx, ast.Load) and 0 <= p.slice.value < len(cand[n.id].fields)):
                ok[n.id] = False
        elif isinstance(n.ctx, ast.Store):
            # for-target / comprehension target (possibly inside a tuple target), or `name = (a, b)`
            q = p
            while isinstance(q, (ast.Tuple, ast.List)):
                q = parents.get(id(q))
            if isinstance(q, (ast.For, ast.AsyncFor, ast.comprehension)):
                binds[n.id].append(n)
            elif isinstance(p, ast.Assign) and len(p.targets) == 1 and p.targets[0] is n and isinstance(p.value, ast.Tuple) and len(p.value.elts) == len(cand[n.id].fields):
                binds[n.id].append(n)
            else:
                ok[n.id] = False
        else:
            ok[n.id] = False
    todo = {n for n in cand if ok[n] and binds[n]}
    if not todo:
        return fn

    def fname(v: str, r, i: int) -> str:
        return f"{v}__{r.fields[i]}"

    class S(ast.NodeTransformer):
        def visit_Subscript(self, s: ast.Subscript):
            if isinstance(s.value, ast.Name) and s.value.id in todo and isinstance(s.slice, ast.Constant) and isinstance(s.ctx, ast.Load):
                return ast.copy_location(ast.Name(id=fname(s.value.id, cand[s.value.id], s.slice.value), ctx=ast.Load()), s)
            return self.generic_visit(s)

        def visit_Name(self, n: ast.Name):
            if n.id in todo and isinstance(n.ctx, ast.Store):
                r = cand[n.id]
                return ast.copy_location(ast.Tuple(elts=[ast.Name(id=fname(n.id, r, i), ctx=ast.Store()) for i in range(len(r.fields))], ctx=ast.Store()), n)
            return n

        def visit_Assign(self, a: ast.Assign):
            a = self.generic_visit(a)
            # v = (x, y)  became  (v__f, v__g) = (x, y): two plain assignments, in the order of evaluation
            if len(a.targets) == 1 and isinstance(a.targets[0], ast.Tuple) and isinstance(a.value, ast.Tuple) and len(a.targets[0].elts) == len(a.value.elts) \
                    and all(isinstance(t, ast.Name) and "__" in t.id for t in a.targets[0].elts):
                tnames = {t.id for t in a.targets[0].elts}
                if not any(isinstance(x, ast.Name) and x.id in tnames for v in a.value.elts for x in ast.walk(v)):
                    return [ast.copy_location(ast.Assign(targets=[t], value=v), a) for t, v in zip(a.targets[0].elts, a.value.elts)]
            return a

        def visit_Lambda(self, l: ast.Lambda):
            if len(l.args.args) == 1 and l.args.args[0].arg in todo:
                # lambda x: x[0]  stays a one-parameter lambda over the tuple
                v = l.args.args[0].arg
                r = cand[v]

                class L(ast.NodeTransformer):
                    def visit_Name(self, n):
                        return n
                return l   # leave `lambda x: x[i]` as it is (x is the tuple)
            return self.generic_visit(l)

    # a lambda parameter must keep its subscript form: exclude names that are (also) lambda parameters from scalar replacement inside lambdas
    lam_params = {a.arg for n in ast.walk(fn) if isinstance(n, ast.Lambda) for a in n.args.args}
    todo -= lam_params
    if not todo:
        return fn
    return S().visit(fn)
