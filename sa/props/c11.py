"""C11 — pool-level OOM kills take highest scorers first and stop once usage fits."""
from __future__ import annotations

import ast
from typing import List, Optional, Tuple

from .. import norm, ratform
from ..model import own_nodes, stmt_text, parent, AnalysisError
from ..util import cfg_of, calls_named, single_defs, package_calls
from .common import *
from . import pool

EXPLANATION = (
    "Static decision of the structural clauses of C11 in ResourcePool._run_out_of_memory_killer.  (1) the score of a candidate "
    "is usage*usage/allocation over the reals (rational normal form; usage = the container's current memory, allocation = its "
    "assignment.ram).  (2) victims are visited in descending score: the candidate list is ordered by a stable sort whose key is "
    "exactly the score component (reverse=True, or a negated key), and the kill loop iterates that list after the sort.  (3) each "
    "pool-level kill is reached only with `consumed_ram_gb > max_ram_pool` re-tested on the pool's live counters in the same "
    "iteration (stop-when-fits).  (4) candidates exclude completed containers and containers using no memory, and every other "
    "active container is a candidate.  (5) the scoring block runs only when the pool is over capacity, after the individual-limit "
    "kills.")
UNDECIDED = "behaviour at exact float ties of the score; the value of consumed_ram_gb itself is the subject of C04"
ASSUMPTIONS = COMMON_ASSUMPTIONS + ["list.sort / sorted are stable (CPython guarantee)"]

USAGE_FORMS = ("{c}.get_current_memory_usage()", "{c}._current_memory")


def killer(P):
    return P.fn(RP, "ResourcePool._run_out_of_memory_killer")


def killer_funcs(P):
    """All ResourcePool methods that call <container>.kill(...): the OOM killer, wherever its passes live."""
    c = P.cls(RP, "ResourcePool")
    from ..util import view_funcs
    # as the rules see the class: a pass that lives in a helper which is looked through at its only call site is part of that caller
    fs = [m for m in view_funcs(P, c.methods[next(iter(c.methods))].mod) if m.cls == "ResourcePool" and m.qual == f"ResourcePool.{m.name}"
          and any(isinstance(x, ast.Call) and isinstance(x.func, ast.Attribute) and x.func.attr == "kill" for x in own_nodes(m.node))]
    if not fs:
        raise AnalysisError("no ResourcePool method calls Container.kill: the OOM killer was not found")
    order = {q: i for i, q in enumerate(c.methods)}
    return [_decorated(P, m) for m in sorted(fs, key=lambda m: order.get(m.name, 0))]


def _key_expr(P, f, key: ast.expr, arg: ast.expr):
    """the value key(arg) as one expression, for a key that is a local function / lambda / method whose body is (name = expr)* return expr"""
    fn = None
    if isinstance(key, ast.Lambda) and len(key.args.args) == 1:
        return norm.Subst({key.args.args[0].arg: arg}).visit(norm.clone(key.body))
    if isinstance(key, ast.Name):
        for n in ast.walk(f.node):
            if isinstance(n, ast.FunctionDef) and n is not f.node and n.name == key.id:
                fn = n
        if fn is None and key.id in f.mod.funcs:
            fn = f.mod.funcs[key.id].node
        skip = 0
    elif isinstance(key, ast.Attribute) and isinstance(key.value, ast.Name) and f.cls and key.value.id in ("self", f.cls):
        cl = f.mod.classes.get(f.cls)
        if cl and key.attr in cl.methods:
            fn = cl.methods[key.attr].node
    if fn is None:
        return None
    params = [a.arg for a in fn.args.args]
    static = any(isinstance(d, ast.Name) and d.id == "staticmethod" for d in fn.decorator_list)
    if isinstance(key, ast.Attribute) and not static:
        params = params[1:]
    if len(params) != 1:
        return None
    body = [s_ for s_ in fn.body if not (isinstance(s_, ast.Expr) and isinstance(s_.value, ast.Constant))]
    if not body or not isinstance(body[-1], ast.Return) or body[-1].value is None:
        return None
    loc = {}
    for st in body[:-1]:
        if isinstance(st, ast.Assign) and len(st.targets) == 1 and isinstance(st.targets[0], ast.Name) and st.targets[0].id not in loc:
            loc[st.targets[0].id] = norm.subst(st.value, loc)
        else:
            return None
    return norm.Subst({params[0]: arg}).visit(norm.clone(norm.subst(body[-1].value, loc)))


def _sorted_copy_in_place(f):
    """`V = sorted(L, key=K, reverse=R)` where L is a local list that is not looked at again is `L.sort(key=K, reverse=R)` with V another name
    for L (both sorts are stable and compute each key once)."""
    from ..model import Func
    from .common import pos
    # `for v in sorted(L, ..)`: the sorted copy is made once, before the loop — give it a name
    for lp_ in [n for n in own_nodes(f.node) if isinstance(n, ast.For) and isinstance(n.iter, ast.Call) and norm.is_name(n.iter.func, "sorted") and len(n.iter.args) == 1
                and isinstance(n.iter.args[0], ast.Name)]:
        node = norm.clone(f.node)
        omap = {id(o): c_ for o, c_ in zip(ast.walk(f.node), ast.walk(node))}
        clp = omap[id(lp_)]
        V = f"{lp_.iter.args[0].id}__sorted"
        new = ast.copy_location(ast.Assign(targets=[ast.Name(id=V, ctx=ast.Store())], value=clp.iter), clp)
        clp.iter = ast.copy_location(ast.Name(id=V, ctx=ast.Load()), clp.iter)
        par = omap[id(parent(lp_))]
        for fld in ("body", "orelse", "finalbody"):
            b = getattr(par, fld, None)
            if isinstance(b, list) and any(x is clp for x in b):
                i_ = [k_ for k_, x in enumerate(b) if x is clp][0]
                b[i_:i_] = [new]
        ast.fix_missing_locations(node)
        for n in ast.walk(node):
            for ch in ast.iter_child_nodes(n):
                ch._parent = n  # type: ignore[attr-defined]
        node._parent = getattr(f.node, "_parent", None)  # type: ignore[attr-defined]
        return _sorted_copy_in_place(Func(f.mod, f.qual, node, f.cls))
    for st in [n for n in own_nodes(f.node) if isinstance(n, ast.Assign) and len(n.targets) == 1 and isinstance(n.targets[0], ast.Name) and isinstance(n.value, ast.Call)
               and norm.is_name(n.value.func, "sorted") and len(n.value.args) == 1 and isinstance(n.value.args[0], ast.Name)]:
        V, L = st.targets[0].id, st.value.args[0].id
        if V == L:
            continue
        if not any(isinstance(c, ast.Call) and isinstance(c.func, ast.Attribute) and c.func.attr == "append" and norm.is_name(c.func.value, L) for c in own_nodes(f.node)):
            continue
        later_L = [n for n in own_nodes(f.node) if isinstance(n, ast.Name) and n.id == L and pos(f, n) > pos(f, st.value.args[0])]
        v_binds = [n for n in own_nodes(f.node) if isinstance(n, ast.Name) and n.id == V and isinstance(n.ctx, (ast.Store, ast.Del))]
        if later_L or len(v_binds) != 1 or L in f.params():
            continue
        node = norm.clone(f.node)
        omap = {id(o): c_ for o, c_ in zip(ast.walk(f.node), ast.walk(node))}
        cst = omap[id(st)]
        new = ast.copy_location(ast.Expr(value=ast.Call(func=ast.Attribute(value=ast.Name(id=L, ctx=ast.Load()), attr="sort", ctx=ast.Load()), args=[],
                                                        keywords=cst.value.keywords)), cst)
        par = getattr(cst, "_parent", None) or omap.get(id(parent(st)))
        par = omap[id(parent(st))]
        for fld in ("body", "orelse", "finalbody"):
            b = getattr(par, fld, None)
            if isinstance(b, list) and any(x is cst for x in b):
                setattr(par, fld, [new if x is cst else x for x in b])
        for n in ast.walk(node):
            if isinstance(n, ast.Name) and n.id == V:
                n.id = L
        ast.fix_missing_locations(node)
        for n in ast.walk(node):
            for ch in ast.iter_child_nodes(n):
                ch._parent = n  # type: ignore[attr-defined]
        node._parent = getattr(f.node, "_parent", None)  # type: ignore[attr-defined]
        return Func(f.mod, f.qual, node, f.cls)
    return f


def _decorated(P, f):
    """`cands.append(c) ... cands.sort(key=score, reverse=..) ... for v in cands` is decorate-sort-undecorate written with a key function;
    rewrite it to the explicit (score, container) form the rules below are stated on (list.sort computes each key once, up front, and is
    stable: the two forms order the list identically)."""
    from ..model import Func
    f = _sorted_copy_in_place(f)
    for srt in [c for c in own_nodes(f.node) if isinstance(c, ast.Call) and isinstance(c.func, ast.Attribute) and c.func.attr == "sort" and isinstance(c.func.value, ast.Name)]:
        key = norm.kwarg(srt, "key")
        if key is None or (isinstance(key, ast.Lambda) and isinstance(key.body, ast.Subscript)):
            continue
        L = srt.func.value.id
        apps = [c for c in calls_named(f, "append") if isinstance(c.func, ast.Attribute) and norm.is_name(c.func.value, L)]
        loops = [n for n in own_nodes(f.node) if isinstance(n, ast.For) and norm.is_name(n.iter, L) and isinstance(n.target, ast.Name)]
        if not apps or not all(len(a.args) == 1 and isinstance(a.args[0], ast.Name) for a in apps) or not loops:
            continue
        exprs = [_key_expr(P, f, key, a.args[0]) for a in apps]
        if any(e is None for e in exprs):
            continue
        node = norm.clone(f.node)
        # the clone's nodes correspond to the originals in walk order
        omap = {id(o): c_ for o, c_ in zip(ast.walk(f.node), ast.walk(node))}
        for a, e in zip(apps, exprs):
            ca = omap[id(a)]
            ca.args = [ast.Tuple(elts=[e, ca.args[0]], ctx=ast.Load())]
        cs = omap[id(srt)]
        for kw_ in cs.keywords:
            if kw_.arg == "key":
                kw_.value = ast.Lambda(args=ast.arguments(posonlyargs=[], args=[ast.arg(arg="x")], kwonlyargs=[], kw_defaults=[], defaults=[]),
                                       body=ast.Subscript(value=ast.Name(id="x", ctx=ast.Load()), slice=ast.Constant(0), ctx=ast.Load()))
        for lp in loops:
            cl_ = omap[id(lp)]
            cl_.target = ast.Tuple(elts=[ast.Name(id="_", ctx=ast.Store()), cl_.target], ctx=ast.Store())
        ast.fix_missing_locations(node)
        for n in ast.walk(node):
            for ch in ast.iter_child_nodes(n):
                ch._parent = n  # type: ignore[attr-defined]
        node._parent = getattr(f.node, "_parent", None)  # type: ignore[attr-defined]
        return Func(f.mod, f.qual, node, f.cls)
    return f


def kill_sites(f) -> List[ast.Call]:
    return [c for c in calls_named(f, "kill") if isinstance(c.func, ast.Attribute)]


def own_limit_goal(recv: str):
    return [("cmp", "<", f"{recv}.assignment.ram", u.format(c=recv)) for u in USAGE_FORMS]


OVER_CAP = ("cmp", "<", "self.max_ram_pool", "self.consumed_ram_gb")


def classify_kills(f, g):
    """-> (step1 kills, step2 kills, unexplained kills) according to the guard that holds at each kill."""
    s1, s2, bad = [], [], []
    for k in kill_sites(f):
        recv = norm.U(k.func.value)
        fs = g.facts_at(k)
        if any(norm.entails(fs, goal) for goal in own_limit_goal(recv)):
            s1.append(k)
        elif norm.entails(fs, OVER_CAP):
            s2.append(k)
        else:
            bad.append(k)
    return s1, s2, bad


def _key_index(key: ast.expr) -> Optional[Tuple[int, bool]]:
    """lambda x: x[i]  /  lambda x: -x[i]  /  itemgetter(i)  ->  (i, negated)"""
    if isinstance(key, ast.Lambda) and len(key.args.args) == 1:
        v = key.args.args[0].arg
        b = key.body
        negd = False
        if isinstance(b, ast.UnaryOp) and isinstance(b.op, ast.USub):
            negd, b = True, b.operand
        if isinstance(b, ast.Subscript) and norm.is_name(b.value, v) and isinstance(b.slice, ast.Constant) and isinstance(b.slice.value, int):
            return b.slice.value, negd
    if isinstance(key, ast.Call) and norm.call_name(key) == "itemgetter" and len(key.args) == 1 and isinstance(key.args[0], ast.Constant):
        return key.args[0].value, False
    return None


def run(ctx):
    _run(ctx)
    # (6) the killer's input is the real usage: the pool counter is re-summed whenever a container leaves the active list (C04#3)
    from . import c04, c08
    c04.check_invariant(c08._Renumber(ctx, {3: 6, 4: 6}))
    c04.check_setter_for_active_only(c08._Renumber(ctx, {3: 6}), 3)   # ... and is not lowered again by a container that already left
    # "stop once usage fits" is tested on the pool's counter: a kill must lower it by the victim's usage at once — every change of a
    # container's usage goes through the setter that books the difference on the pool (C04#1/#2)
    c04.check_writers(c08._Renumber(ctx, {1: 6}), 1)
    c04.check_delta(c08._Renumber(ctx, {2: 6}), 2)


def _run(ctx):
    P = ctx.P
    fs = killer_funcs(P)
    total = 0
    pool_level = 0
    for f in fs:
        g = cfg_of(f)
        a, b, c = classify_kills(f, g)
        total += len(a) + len(b) + len(c)
        pool_level += len(b)
    ctx.count_min("kill sites in the OOM killer", total, 2)
    for f in fs:
        _run_one(ctx, f, last=(f is fs[-1]), pool_level_total=pool_level)


def _projection(f, lp: ast.For):
    """lp iterates  [c for (.., c, ..) in L]  (directly, or through a local defined once as that comprehension and never mutated):
    -> (L, index of c in the entry)"""
    it = lp.iter
    if isinstance(it, ast.Name):
        defs = [n for n in own_nodes(f.node) if isinstance(n, ast.Assign) and any(norm.is_name(t, it.id) for t in n.targets)]
        muts = [c for c in own_nodes(f.node) if isinstance(c, ast.Call) and isinstance(c.func, ast.Attribute) and norm.is_name(c.func.value, it.id)]
        if len(defs) != 1 or muts:
            return None
        it = defs[0].value
    if not (isinstance(it, ast.ListComp) and len(it.generators) == 1 and not it.generators[0].ifs and isinstance(it.generators[0].iter, ast.Name)):
        return None
    gen = it.generators[0]
    if isinstance(gen.target, ast.Tuple) and isinstance(it.elt, ast.Name):
        for i, e in enumerate(gen.target.elts):
            if norm.is_name(e, it.elt.id):
                return gen.iter.id, i
    if isinstance(gen.target, ast.Name) and isinstance(it.elt, ast.Subscript) and norm.is_name(it.elt.value, gen.target.id) and isinstance(it.elt.slice, ast.Constant) \
            and isinstance(it.elt.slice.value, int):
        return gen.iter.id, it.elt.slice.value
    return None


def _run_one(ctx, f, last, pool_level_total):
    P = ctx.P
    ctx.touch(f)
    g = cfg_of(f)            # conditions with single-definition locals substituted
    env = single_defs(f)
    s1, s2, bad = classify_kills(f, g)
    for k in bad:
        ctx.ob(3, "K2", "every kill is justified: the victim exceeds its own allocation, or the pool's live usage exceeds its capacity", False, f, k,
               detail=f"facts at the kill: {sorted(norm.show(x) for x in g.facts_at(k))}")
    for k in s2:
        ctx.ob(3, "K2", "a pool-level kill happens only while consumed_ram_gb > max_ram_pool, re-tested on the live counters in the same iteration "
               "(killing stops as soon as the remaining usage fits)", True, f, k, detail=f"facts at the kill: {sorted(norm.show(x) for x in g.facts_at(k))}")
    if last:
        ctx.ob(3, "K2", "there is a pool-level kill loop", pool_level_total >= 1, f, s2[0] if s2 else f.node, construct="pool-level kill", detail=f"{pool_level_total} site(s)")
    # (2) ordering
    for k in s2:
        lp = enclosing_for(k, f.node)
        ok_iter = False
        L = None
        cont_idx = None
        d = "the kill is not in a loop over the candidate list"
        proj = _projection(f, lp) if lp is not None else None
        if proj is not None and norm.is_name(lp.target, norm.U(k.func.value)):
            # for victim in [c for _, c in scored]: an order-preserving projection of the candidate list onto the container component
            L, cont_idx = proj
            ok_iter = True
            d = f"loop `{stmt_text(lp)}` over the containers of {L}, in its order; the victim is component {cont_idx} of each entry"
        elif lp is not None and isinstance(lp.iter, ast.Name):
            L = lp.iter.id
            recv = norm.U(k.func.value)
            if isinstance(lp.target, ast.Tuple):
                for i, e in enumerate(lp.target.elts):
                    if norm.is_name(e, recv):
                        cont_idx = i
            elif isinstance(lp.target, ast.Name) and isinstance(k.func.value, ast.Subscript) and norm.is_name(k.func.value.value, lp.target.id):
                cont_idx = k.func.value.slice.value if isinstance(k.func.value.slice, ast.Constant) else None
            ok_iter = cont_idx is not None
            d = f"loop `{stmt_text(lp)}`; the victim is component {cont_idx} of each entry"
        ctx.ob(2, "K6", "victims are taken by iterating the candidate list in its (sorted) order", ok_iter, f, k, detail=d)
        if not ok_iter:
            continue
        # the sort
        sorts = []
        for c in own_nodes(f.node):
            if isinstance(c, ast.Call) and isinstance(c.func, ast.Attribute) and c.func.attr == "sort" and norm.is_name(c.func.value, L):
                sorts.append(c)
            if isinstance(c, ast.Call) and norm.is_name(c.func, "sorted") and c.args and norm.is_name(c.args[0], L):
                p_ = parent(c)
                if isinstance(p_, ast.Assign) and len(p_.targets) == 1 and norm.is_name(p_.targets[0], L):
                    sorts.append(c)
        ok_sort = len(sorts) == 1
        score_idx = None
        d = f"{len(sorts)} sort(s) of {L}"
        if ok_sort:
            s = sorts[0]
            key = norm.kwarg(s, "key")
            rev = norm.kwarg(s, "reverse")
            ki = _key_index(key) if key is not None else None
            rev_true = rev is not None and isinstance(rev, ast.Constant) and rev.value is True
            rev_absent = rev is None or (isinstance(rev, ast.Constant) and rev.value is False)
            if ki is None:
                ok_sort = False
                d = f"sort key is {norm.U(key) if key is not None else 'absent (whole entries are compared: ties are broken by other components)'}"
            else:
                score_idx, negd = ki
                desc = (rev_true and not negd) or (rev_absent and negd)
                ok_sort = desc
                d = f"key = component {score_idx}{' negated' if negd else ''}, reverse={norm.U(rev) if rev is not None else 'absent'} -> {'descending' if desc else 'ASCENDING'}"
            # the sort precedes the kill loop on every path and nothing reorders in between
            if ok_sort:
                dom = g.dominates(s, lp)
                later = [c for c in own_nodes(f.node) if isinstance(c, ast.Call) and isinstance(c.func, ast.Attribute) and norm.is_name(c.func.value, L)
                         and c.func.attr in ("sort", "reverse", "insert", "append", "extend", "pop", "remove") and before(f, s, c)]
                ok_sort = dom and not later
                d += f"; sort dominates the kill loop: {dom}; later mutations of the list: {[norm.U(x) for x in later]}"
        ctx.ob(2, "K5", "the candidate list is ordered by descending score with a stable sort keyed on the score alone", ok_sort, f,
               sorts[0] if sorts else lp, construct=None if sorts else "sort of the candidate list", detail=d)
        # (1) score formula and (4) candidates
        apps = [c for c in calls_named(f, "append") if isinstance(c.func, ast.Attribute) and norm.is_name(c.func.value, L)]
        ctx.ob(1, "K6", "candidates enter the list at one site", len(apps) == 1, f, apps[0] if apps else f.node, construct="scored.append(...)",
               detail=f"{len(apps)} append site(s)")
        for ap in apps:
            ent = ap.args[0] if ap.args else None
            clp = enclosing_for(ap, f.node)
            ok = isinstance(ent, ast.Tuple) and clp is not None and pool._list_attr(clp.iter) == "active_containers" and isinstance(clp.target, ast.Name)
            if not ok:
                ctx.ob(1, "K6", "each candidate entry is a (score, container) tuple built in a loop over the active containers", False, f, ap,
                       detail=f"entry: {norm.U(ent) if ent is not None else None}; loop: {stmt_text(clp) if clp else None}")
                continue
            cv = clp.target.id
            cont_ok = cont_idx is not None and cont_idx < len(ent.elts) and norm.is_name(ent.elts[cont_idx], cv)
            ctx.ob(1, "K6", "the victim component of an entry is the container that was scored", cont_ok, f, ap,
                   detail=f"entry {norm.U(ent)}; victim component {cont_idx}; loop variable {cv}")
            if score_idx is not None and score_idx < len(ent.elts):
                sc = ent.elts[score_idx]
                okf = False
                got = "?"
                for uform in USAGE_FORMS:
                    u = uform.format(c=cv)
                    spec = ratform.parse(f"({u}) * ({u}) / {cv}.assignment.ram")
                    try:
                        r1 = ratform.to_rat(sc, env)
                        got = r1.text()
                        if r1.equals(ratform.to_rat(spec)):
                            okf = True
                    except ratform.NotArithmetic as e:
                        got = f"not arithmetic: {e}"
                ctx.ob(1, "K7", "score = usage * usage / allocation (the container's own current usage and own allocated RAM)", okf, f, ap,
                       construct="score formula", detail=f"code over the reals: {got}; documented: usage^2 / {cv}.assignment.ram")
            fs = g.facts_at(ap)
            not_done = norm.entails(fs, ("truth", f"{cv}.is_completed()", False))
            uses = any(norm.entails(fs, ("cmp", "<", "0", u.format(c=cv))) for u in USAGE_FORMS)
            ctx.ob(4, "K2", "a container that finished in this tick is never a candidate", not_done, f, ap,
                   detail=f"facts at the append: {sorted(norm.show(x) for x in fs)}")
            ctx.ob(4, "K2", "a container that uses no memory is never a candidate", uses, f, ap,
                   detail=f"facts at the append: {sorted(norm.show(x) for x in fs)}")
            # completeness: every other active container is scored
            hid = g.node_of(clp).id
            excl = [("truth", f"{cv}.is_completed()", True)] + [("cmp", "<=", u.format(c=cv), "0") for u in USAGE_FORMS]

            def edge_ok(a, b, lab, hid=hid, excl=excl):
                if a == hid and lab == "done":
                    return False
                if isinstance(lab, tuple) and lab[0] == "cond":
                    at = norm.atoms_true(lab[1])
                    if any(x in at for x in excl):
                        return False
                    if any(x[0] == "or" and all(k in excl for k in x[1]) for x in at):
                        return False      # `if done or unused: continue`: either reason justifies the skip
                return True
            skip = g.path_avoiding(hid, {hid, g.exit.id}, {g.node_of(ap).id}, edge_ok=edge_ok)
            ctx.ob(4, "K2", "every active container that is still running and uses memory is scored (no one with a higher score can be overlooked)",
                   skip is None, f, ap, construct="candidate completeness",
                   detail="no iteration skips the append except for completed / zero-usage containers" if skip is None
                   else f"an iteration can skip scoring: {g.describe_path(skip)}")
            # (5) trigger
            trig = norm.entails(fs, OVER_CAP) or g.holds_at(clp, OVER_CAP)
            ctx.ob(5, "K2", "victims are scored only when the pool's usage exceeds its capacity", trig, f, clp, construct="scoring block trigger",
                   detail=f"facts at the scoring loop: {sorted(norm.show(x) for x in g.facts_at(clp))}")
            # ... and whenever it does: the only way past the scoring block is `usage <= capacity` itself (not "few containers", not a flag)
            fits = norm.neg(OVER_CAP)

            def edge_ok(a, b, lab, fits=fits):
                if isinstance(lab, tuple) and lab[0] == "cond":
                    at = norm.atoms_true(lab[1])
                    if fits in at:
                        return False
                return True
            byp = g.path_avoiding(g.entry.id, {g.exit.id}, {g.node_of(clp).id}, edge_ok=edge_ok)
            ctx.ob(5, "K2", "the pool-level pass runs whenever the pool's usage exceeds its capacity (it is skipped only under `usage <= capacity`)", byp is None, f, clp,
                   construct="scoring block is not bypassed", detail="every path around the scoring loop passes the test usage <= capacity" if byp is None
                   else f"the pass can be skipped while the pool is over its capacity: {g.describe_path(byp)}")
            for k1 in s1:
                l1 = enclosing_for(k1, f.node) or k1
                ctx.ob(5, "K3", "containers over their own limit are killed before pool-level victims are chosen", g.dominates(l1, clp), f, k1,
                       detail=f"individual-limit pass at L{l1.lineno} dominates the scoring loop at L{clp.lineno}: {g.dominates(l1, clp)}")
