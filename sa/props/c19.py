"""C19 — the REST bridge is transparent and keeps its protocol promises."""
from __future__ import annotations

import ast
import re
from typing import Dict, List, Optional, Set, Tuple

from .. import norm, ratform
from ..model import own_nodes, stmt_text, parent, AnalysisError, Func
from ..util import cfg_of, calls_named, single_defs, resolve_callee, loop_env
from .common import *
from . import pool as poolmod

EXPLANATION = (
    "Static decision of the structural clauses of C19.  (1) K5 key tables: the JSON keys produced by the five to_dict methods and "
    "by the request payload, and the keys the reply decoders read, equal the json tags of the corresponding Go structs in "
    "go/eudoxia/types.go (read lexically; no Go toolchain), no key Python reads by subscript is `omitempty`, and the Go reference "
    "scheduler sets every Assignment field.  (2) K12 segment secrecy: no function in the call closure of the payload (the to_dict "
    "methods and what they call) reads Segment state or segment-derived quantities.  (3) protocol order in rest_scheduler: the "
    "payload reads the known-pipeline set before it is modified; every new pipeline is merged in (no iteration of the merge loop gets round the store; "
    "likewise every operator of every new pipeline is registered before the call) and completed ones removed only "
    "after the POST, on every path that made the call, never on the early return; a request that was sent is never sent again (requests.post "
    "itself, or a transport for which the module configures no retry policy).  (4) the early return requires `not pipelines "
    "and not results and time_since_last < rest_poll_interval`, time_since_last being current_tick/tps minus the time of the last "
    "call, which is updated on the calling path only.  (5) identity decoding: Assignment and Suspend are built field by field from "
    "the reply's like-named keys, operators looked up by id in the order given, and the function returns exactly the two decoded "
    "lists.  (6) true state: every to_dict builds a fresh dict literal on every call from the live fields (no cache).")
UNDECIDED = ("equality of statistics between an HTTP-driven run and an in-process replay (needs runs); anything about the Go program "
             "beyond its key tables and the fields it sets (no Go toolchain in the sandbox)")
ASSUMPTIONS = COMMON_ASSUMPTIONS + ["requests.post(json=...) serialises the dict as is; Go's encoding/json follows the struct tags"]

SECRET_ATTRS = {"baseline_cpu_seconds", "memory_gb", "storage_read_gb", "scaling_func"}
SECRET_CALLS = {"get_segments", "get_io_seconds", "get_cpu_time", "get_peak_memory_gb", "get_seconds_until_oom"}


def go_structs(src: str) -> Dict[str, List[Tuple[str, str, bool]]]:
    """struct name -> [(field, json key, omitempty)]"""
    out: Dict[str, List[Tuple[str, str, bool]]] = {}
    for m in re.finditer(r"type\s+(\w+)\s+struct\s*\{(.*?)\n\}", src, re.S):
        fields = []
        for line in m.group(2).splitlines():
            mm = re.match(r"\s*(\w+)\s+\S.*?`json:\"([^\"]*)\"`", line)
            if mm:
                parts = mm.group(2).split(",")
                fields.append((mm.group(1), parts[0], "omitempty" in parts[1:]))
        out[m.group(1)] = fields
    return out


def dict_keys_returned(f: Func) -> Optional[List[str]]:
    rs = [r for r in own_nodes(f.node) if isinstance(r, ast.Return)]
    if len(rs) != 1 or not isinstance(rs[0].value, ast.Dict):
        return None
    return [k.value if isinstance(k, ast.Constant) else None for k in rs[0].value.keys]


TO_DICT = [(PL, "Pipeline.to_dict", "Pipeline"), (PL, "Operator.to_dict", "Operator"), (RP, "ResourcePool.to_dict", "Pool"), (CT, "Container.to_dict", "Container"),
           (AS, "ExecutionResult.to_dict", "ExecutionResult")]


def response_name(rs: Func) -> str:
    """the local bound to <post result>.json()"""
    for n in own_nodes(rs.node):
        if isinstance(n, ast.Assign) and isinstance(n.targets[0], ast.Name) and isinstance(n.value, ast.Call) and norm.call_name(n.value) == "json":
            return n.targets[0].id
    return "response"


def check_keys(ctx, num=1):
    P = ctx.P
    src = P.go.get("go/eudoxia/types.go")
    ctx.need(src is not None, "go/eudoxia/types.go not found")
    gs = go_structs(src)
    for s in ("InitRequest", "ScheduleRequest", "ScheduleResponse", "Pipeline", "Operator", "Pool", "Container", "Assignment", "Suspension", "ExecutionResult"):
        ctx.need(s in gs and gs[s], f"Go struct {s} not found in types.go")
    ctx.files["go/eudoxia/types.go"] = __import__("hashlib").sha256(src.encode()).hexdigest()
    for rel, q, st in TO_DICT:
        f = P.fn(rel, q)
        ctx.touch(f)
        keys = dict_keys_returned(f)
        gk = [k for _, k, _ in gs[st]]
        ok = keys is not None and sorted(map(str, keys)) == sorted(gk) and len(set(keys)) == len(keys)
        ctx.ob(num, "K5", f"{q} emits exactly the JSON keys of the Go struct {st}", ok, f, f.node, construct=f"{q} keys vs Go {st}",
               detail=f"python: {keys}; go: {gk}" + ("" if keys is None else f"; only in python: {sorted(set(map(str, keys)) - set(gk))}; only in go: {sorted(set(gk) - set(map(str, keys)))}"))
    rs = P.fn(REST, "rest_scheduler")
    ctx.touch(rs)
    pay = [n for n in own_nodes(rs.node) if isinstance(n, ast.Assign) and isinstance(n.value, ast.Dict) and any(isinstance(k, ast.Constant) and k.value == "pools" for k in n.value.keys)]
    ctx.ob(num, "K5", "the schedule request is one dict literal", len(pay) == 1, rs, pay[0] if pay else rs.node, construct="payload literal", detail=f"{len(pay)}")
    if len(pay) == 1:
        keys = [k.value if isinstance(k, ast.Constant) else None for k in pay[0].value.keys]
        gk = [k for _, k, _ in gs["ScheduleRequest"]]
        ctx.ob(num, "K5", "the request payload has exactly the keys of the Go struct ScheduleRequest", sorted(map(str, keys)) == sorted(gk), rs, pay[0], construct="payload keys vs Go ScheduleRequest",
               detail=f"python: {keys}; go: {gk}")
    ri = P.fn(REST, "rest_init")
    ctx.touch(ri)
    ipost = [c for c in calls_named(ri, "post")]
    ipn = norm.U(norm.kwarg(ipost[0], "json")) if ipost and norm.kwarg(ipost[0], "json") is not None else "payload"
    ip = [n for n in own_nodes(ri.node) if isinstance(n, ast.Assign) and isinstance(n.value, ast.Dict) and isinstance(n.targets[0], ast.Name) and n.targets[0].id == ipn]
    keys = [k.value for k in ip[0].value.keys if isinstance(k, ast.Constant)] if ip else None
    ctx.ob(num, "K5", "the init request has exactly the keys of the Go struct InitRequest", keys == [k for _, k, _ in gs["InitRequest"]], ri, ip[0] if ip else ri.node,
           construct="init payload keys vs Go InitRequest", detail=f"python: {keys}; go: {[k for _, k, _ in gs['InitRequest']]}")
    # decoders
    for ctor_, st, var_hint in (("Assignment", "Assignment", None), ("Suspend", "Suspension", None)):
        ds_ = _decoders(P, ctor_)
        ctx.count_min(f"functions of rest.py that build {ctor_} objects (the reply decoder)", len(ds_), 1)
        f = ds_[0]
        fn_ = f.qual
        ctx.touch(f)
        # the keys read from one entry of the reply: string subscripts of the variable that ranges over the entries (loop / comprehension target)
        site = [c for c in calls_named(f, ctor_) if isinstance(c.func, ast.Name)][0]
        ev = None
        q_ = parent(site)
        while q_ is not None and q_ is not f.node and ev is None:
            if isinstance(q_, (ast.ListComp, ast.GeneratorExp)) and len(q_.generators) == 1 and isinstance(q_.generators[0].target, ast.Name):
                ev = q_.generators[0].target.id
            elif isinstance(q_, ast.For) and isinstance(q_.target, ast.Name):
                ev = q_.target.id
            q_ = parent(q_)
        read = set()
        for n in own_nodes(f.node):
            if isinstance(n, ast.Subscript) and isinstance(n.slice, ast.Constant) and isinstance(n.slice.value, str) and isinstance(n.value, ast.Name) and (ev is None or n.value.id == ev):
                read.add(n.slice.value)
        gk = {k for _, k, _ in gs[st]}
        om = {k for _, k, o in gs[st] if o}
        ctx.ob(num, "K5", f"{fn_} reads exactly the keys of the Go struct {st}", read == gk, f, f.node, construct=f"{fn_} keys vs Go {st}", detail=f"python reads: {sorted(read)}; go: {sorted(gk)}")
        ctx.ob(num, "K5", f"no key that {fn_} reads by subscript is omitempty on the Go side (a zero value would vanish and raise KeyError)", not (read & om), f, f.node,
               construct=f"omitempty in Go {st}", detail=f"omitempty keys: {sorted(om)}")
    rr = set()
    rname = response_name(rs)
    rparams = set()
    # a decoder that is handed the whole reply reads the keys through its parameter
    for d_ in {id(x): x for x in _decoders(P, "Assignment") + _decoders(P, "Suspend")}.values():
        for c_ in own_nodes(rs.node):
            if isinstance(c_, ast.Call) and isinstance(c_.func, ast.Name) and c_.func.id == d_.name:
                ps_ = d_.params()
                for i_, a_ in enumerate(c_.args):
                    if i_ < len(ps_) and (norm.is_name(a_, rname) or (isinstance(a_, ast.Call) and norm.call_name(a_) == "json")):
                        rparams.add((d_.qual, ps_[i_]))
    scopes_ = [(rs, {rname})] + [(d_, {p_ for q_, p_ in rparams if q_ == d_.qual}) for d_ in {id(x): x for x in _decoders(P, "Assignment") + _decoders(P, "Suspend")}.values()]
    for fn__, names__ in scopes_:
        for n in own_nodes(fn__.node):
            if isinstance(n, ast.Subscript) and isinstance(n.slice, ast.Constant) and ((isinstance(n.value, ast.Name) and n.value.id in names__)
                                                                                    or (fn__ is rs and isinstance(n.value, ast.Call) and norm.call_name(n.value) == "json")):
                rr.add(n.slice.value)
    gk = {k for _, k, _ in gs["ScheduleResponse"]}
    om = {k for _, k, o in gs["ScheduleResponse"] if o}
    ctx.ob(num, "K5", "the reply is read under exactly the keys of the Go struct ScheduleResponse, none of them omitempty", rr == gk and not om, rs, rs.node, construct="response keys vs Go ScheduleResponse",
           detail=f"python reads: {sorted(rr)}; go: {sorted(gk)}; omitempty: {sorted(om)}")
    # Go reference scheduler sets every Assignment field
    main = P.go.get("go/naive/main.go")
    if main is not None:
        setf = set()
        for mm in re.finditer(r"eudoxia\.Assignment\{", main):
            j = mm.end()
            depth, k = 1, j
            while k < len(main) and depth:
                depth += {"{": 1, "}": -1}.get(main[k], 0)
                k += 1
            body = main[j:k - 1]
            # top-level `Field:` entries only
            d2, cur = 0, ""
            for ch in body:
                if ch in "{[(":
                    d2 += 1
                elif ch in "}])":
                    d2 -= 1
                cur += ch if d2 == 0 else " "
            setf |= set(re.findall(r"^\s*(\w+)\s*:", cur, re.M))
        want = {fld for fld, _, _ in gs["Assignment"]}
        ctx.ob(num, "K5", "the Go reference scheduler fills in every field of Assignment", setf == want, file="go/naive/main.go", construct="eudoxia.Assignment{...} fields", detail=f"set: {sorted(setf)}; struct: {sorted(want)}")


def check_secrecy(ctx, num=2):
    P = ctx.P
    roots = [P.fn(rel, q) for rel, q, _ in TO_DICT]
    seen: Dict[int, Func] = {}
    work = list(roots)
    while work:
        f = work.pop()
        if id(f.node) in seen:
            continue
        seen[id(f.node)] = f
        for c in own_nodes(f.node):
            if isinstance(c, ast.Call):
                for callee in resolve_callee(P, f, c):
                    if callee.mod.rel.startswith("eudoxia/") and id(callee.node) not in seen and callee.name not in ("__init__",):
                        work.append(callee)
    ctx.count_min("functions in the call closure of the payload", len(seen), 5)
    leaks = 0
    for f in seen.values():
        ctx.touch(f)
        for n in own_nodes(f.node):
            bad = None
            if isinstance(n, ast.Attribute) and isinstance(n.ctx, ast.Load) and n.attr in SECRET_ATTRS:
                bad = f"reads .{n.attr}"
            elif isinstance(n, ast.Call) and norm.call_name(n) in SECRET_CALLS:
                bad = f"calls {norm.call_name(n)}()"
            elif isinstance(n, ast.Attribute) and n.attr == "values" and f.cls == "Operator" and norm.is_name(n.value, "self"):
                bad = "reads the operator's segment list"
            if bad:
                leaks += 1
                ctx.ob(num, "K12", "nothing about an operator's true resource needs (its segments) is reachable from the request payload", False, f, n,
                       detail=f"{f.qual} (in the call closure of the payload) {bad}")
    if not leaks:
        ctx.ob(num, "K12", "nothing about an operator's true resource needs (its segments) is reachable from the request payload", True, roots[0], roots[0].node,
               construct="segment reads in the payload's call closure", detail=f"closure: {sorted(f.qual for f in seen.values())}; secret attributes {sorted(SECRET_ATTRS)}, calls {sorted(SECRET_CALLS)}: 0 reads")
    # fixture: the matcher does find such reads where they exist (Container._tick_generator)
    gen = P.fn(CT, "Container._tick_generator")
    hits = [n for n in own_nodes(gen.node) if (isinstance(n, ast.Attribute) and n.attr in SECRET_ATTRS) or (isinstance(n, ast.Call) and norm.call_name(n) in SECRET_CALLS)]
    if not hits:
        raise AnalysisError("fixture failed: the segment-read matcher finds nothing in Container._tick_generator (the zero-count secrecy rule would be vacuous)")
    # the payload values are to_dict() results and clock values only
    rs = P.fn(REST, "rest_scheduler")
    pay = [n for n in own_nodes(rs.node) if isinstance(n, ast.Assign) and isinstance(n.value, ast.Dict) and any(isinstance(k, ast.Constant) and k.value == "pools" for k in n.value.keys)]
    if pay:
        s_p = rs.params()[0]
        env = single_defs(rs)
        want = {"tick": [f"{s_p}.current_tick"], "sim_time_seconds": [f"{s_p}.current_tick / {s_p}.params.get('ticks_per_second', 1000)", "current_sim_time"],
                "results": [f"[r.to_dict() for r in {rs.params()[1]}]"], "new_pipelines": [f"[p.to_dict() for p in {rs.params()[2]}]"],
                "other_pipelines": [f"[p.to_dict() for p in {s_p}.other_pipelines.values()]"], "pools": [f"[pool.to_dict() for pool in {s_p}.executor.pools]"]}
        for k, v in zip(pay[0].value.keys, pay[0].value.values):
            if isinstance(k, ast.Constant) and k.value in want:
                got = norm.U(v)
                got2 = norm.U(norm.subst(v, env))
                ok = got in want[k.value] or got2 in want[k.value] or _same_comp(got, want[k.value])
                ctx.ob(6, "K6", f"payload[{k.value!r}] carries the true current state (the live objects' own to_dict / the simulation clock)", ok, rs, v, construct=f"payload[{k.value}]",
                       detail=f"{got}")


def _same_comp(got: str, wants: List[str]) -> bool:
    """[x.to_dict() for x in SRC] irrespective of the bound variable's name."""
    m = re.fullmatch(r"\[(\w+)\.to_dict\(\) for (\w+) in (.+)\]", got)
    if not m or m.group(1) != m.group(2):
        return False
    for w in wants:
        mw = re.fullmatch(r"\[(\w+)\.to_dict\(\) for (\w+) in (.+)\]", w)
        if mw and mw.group(3) == m.group(3):
            return True
    return False


def _normalise_rest(f):
    """Two normal forms for the bridge function (applied to a copy; anything that does not match exactly is left as it is):
      * `D.update((k, v) for x in A for y in B if C)` as a statement is the nested loop `for x in A: for y in B: if C: D[k] = v`;
      * select-then-act, `L = [(a, b) for a, b in D.items() if COND]` directly followed by `for a, b in L: BODY`, where L is used nowhere else and
        BODY consists of `del` statements (possibly inside `for` loops) only, is `for a, b in list(D.items()): if COND: BODY` — deleting entries
        of the bookkeeping dicts cannot change COND (a test of a pipeline's runtime status) for a later element."""
    from ..model import Func
    from ..util import _block_lists

    def upd(st):
        if not (isinstance(st, ast.Expr) and isinstance(st.value, ast.Call) and isinstance(st.value.func, ast.Attribute) and st.value.func.attr == "update"
                and len(st.value.args) == 1 and not st.value.keywords and isinstance(st.value.args[0], (ast.GeneratorExp, ast.ListComp))):
            return None
        ge = st.value.args[0]
        if not (isinstance(ge.elt, ast.Tuple) and len(ge.elt.elts) == 2) or any(g_.is_async for g_ in ge.generators):
            return None
        return ge

    def only_dels(stmts):
        for x in stmts:
            if isinstance(x, ast.Delete):
                continue
            if isinstance(x, ast.For) and not x.orelse and only_dels(x.body):
                continue
            return False
        return True

    def sel(blk, i):
        a = blk[i]
        if i + 1 >= len(blk) or not (isinstance(a, ast.Assign) and len(a.targets) == 1 and isinstance(a.targets[0], ast.Name) and isinstance(a.value, ast.ListComp)):
            return None
        lc = a.value
        if len(lc.generators) != 1 or lc.generators[0].is_async or len(lc.generators[0].ifs) < 1:
            return None
        gen = lc.generators[0]
        if not (isinstance(gen.iter, ast.Call) and isinstance(gen.iter.func, ast.Attribute) and gen.iter.func.attr == "items" and not gen.iter.args):
            return None
        if norm.U(lc.elt) != norm.U(gen.target) and norm.U(lc.elt) != f"({norm.U(gen.target)})":
            return None
        b = blk[i + 1]
        if not (isinstance(b, ast.For) and not b.orelse and norm.is_name(b.iter, a.targets[0].id) and norm.U(b.target) == norm.U(gen.target) and only_dels(b.body)):
            return None
        L = a.targets[0].id
        uses = [x for x in own_nodes(f.node) if isinstance(x, ast.Name) and x.id == L]
        if len(uses) != 2:
            return None
        return a, b, gen
    hit = any(upd(st) is not None for o in ast.walk(f.node) for _f, blk in _block_lists(o) for st in blk) or \
        any(sel(blk, i) for o in ast.walk(f.node) for _f, blk in _block_lists(o) for i in range(len(blk)))
    if not hit:
        return f
    node = norm.clone(f.node)
    f2 = Func(f.mod, f.qual, node, f.cls)
    f_saved, f = f, f2     # `sel` counts uses in the tree it is applied to
    for o in list(ast.walk(node)):
        for _f, blk in _block_lists(o):
            i = 0
            while i < len(blk):
                ge = upd(blk[i])
                if ge is not None:
                    st = blk[i]
                    inner = ast.Assign(targets=[ast.Subscript(value=st.value.func.value, slice=ge.elt.elts[0], ctx=ast.Store())], value=ge.elt.elts[1])
                    cur = [inner]
                    for g_ in reversed(ge.generators):
                        for c_ in reversed(g_.ifs):
                            cur = [ast.If(test=c_, body=cur, orelse=[])]
                        tg = g_.target
                        for x in ast.walk(tg):
                            if isinstance(x, (ast.Name, ast.Tuple, ast.List)):
                                x.ctx = ast.Store()
                        cur = [ast.For(target=tg, iter=g_.iter, body=cur, orelse=[])]
                    for z in ast.walk(cur[0]):
                        if isinstance(z, (ast.stmt, ast.expr)) and not hasattr(z, "lineno"):
                            ast.copy_location(z, st)
                    ast.copy_location(cur[0], st)
                    blk[i] = cur[0]
                    i += 1
                    continue
                m = sel(blk, i)
                if m:
                    a, b, gen = m
                    test = gen.ifs[0] if len(gen.ifs) == 1 else ast.BoolOp(op=ast.And(), values=list(gen.ifs))
                    new = ast.For(target=b.target, iter=ast.Call(func=ast.Name(id="list", ctx=ast.Load()), args=[gen.iter], keywords=[]),
                                  body=[ast.If(test=test, body=b.body, orelse=[])], orelse=[])
                    for z in ast.walk(new):
                        if isinstance(z, (ast.stmt, ast.expr)) and not hasattr(z, "lineno"):
                            ast.copy_location(z, b)
                    ast.copy_location(new, b)
                    blk[i:i + 2] = [new]
                i += 1
    ast.fix_missing_locations(node)
    for n in ast.walk(node):
        for ch in ast.iter_child_nodes(n):
            ch._parent = n  # type: ignore[attr-defined]
    node._parent = getattr(f_saved.node, "_parent", None)  # type: ignore[attr-defined]
    return f2


def check_protocol(ctx):
    P = ctx.P
    from ..util import inline_helpers
    f = _normalise_rest(inline_helpers(P, P.fn(REST, "rest_scheduler")))
    ctx.touch(f)
    g = cfg_of(f, subst_env=False)
    env = single_defs(f)
    s_p, res_p, pip_p = f.params()[0], f.params()[1], f.params()[2]
    posts = [c for c in calls_named(f, "post")]
    ctx.ob(3, "K3", "a scheduling round makes at most one POST", len(posts) == 1, f, posts[0] if posts else f.node, construct="requests.post site", detail=f"{len(posts)}")
    # ... and the transport does not make it twice behind the bridge's back: /schedule is not idempotent (the external scheduler has consumed the
    # tick's arrivals and results when it answers), so no retrying adapter may sit between the bridge and the wire
    resend = []
    for n in ast.walk(f.mod.tree):
        if isinstance(n, ast.Call):
            nm = norm.call_name(n)
            if nm == "Retry" or nm == "mount":
                resend.append(n)
            mr = norm.kwarg(n, "max_retries")
            if mr is not None and not (isinstance(mr, ast.Constant) and mr.value in (0, None, False)):
                resend.append(n)
    plain = bool(posts) and all(isinstance(c.func, ast.Attribute) and norm.is_name(c.func.value, "requests") for c in posts)
    ctx.ob(3, "K3", "a request that was sent is never sent again: the bridge posts with requests.post itself or through a transport without a retry policy", plain or not resend,
           f, resend[0] if resend else (posts[0] if posts else f.node), construct="no retrying transport",
           detail=f"POST through {[norm.U(c.func) for c in posts]}; retry configuration in the module: {[norm.U(r)[:60] for r in resend]}")
    if len(posts) != 1:
        return
    post = posts[0]
    pj = norm.kwarg(post, "json")
    pay = [n for n in own_nodes(f.node) if isinstance(n, ast.Assign) and pj is not None and norm.is_name(n.targets[0], norm.U(pj)) and isinstance(n.value, ast.Dict)]
    okpay = len(pay) == 1 and g.dominates(pay[0], post)
    ctx.ob(3, "K6", "the POST carries the payload built in this round", okpay, f, post, detail=f"json={norm.U(pj) if pj is not None else None}")
    other = f"{s_p}.other_pipelines"
    writes = []
    for n in own_nodes(f.node):
        if isinstance(n, (ast.Assign, ast.AugAssign, ast.Delete)):
            for t in (n.targets if isinstance(n, (ast.Assign, ast.Delete)) else [n.target]):
                if isinstance(t, ast.Subscript) and norm.U(t.value) == other or norm.U(t) == other:
                    writes.append(n)
        if isinstance(n, ast.Call) and isinstance(n.func, ast.Attribute) and norm.U(n.func.value) == other and n.func.attr in ("update", "pop", "clear", "setdefault", "popitem"):
            writes.append(poolmod.stmt_of(n))
    ctx.count_min("writes to other_pipelines in rest_scheduler", len(writes), 1)
    for w in writes:
        after = g.dominates(post, w)
        ctx.ob(3, "K3", "the set of known pipelines is modified only after the call was made (so new and previously known pipelines in a payload are disjoint, and nothing "
               "changes on the early return)", after, f, w, detail=f"dominated by the POST: {after}")
    adds = [w for w in writes if isinstance(w, ast.Assign)]
    dels = [w for w in writes if isinstance(w, ast.Delete)]
    okadd = False
    for a in adds:
        lp = enclosing_for(a, f.node)
        if lp is not None and norm.is_name(lp.iter, pip_p) and isinstance(lp.target, ast.Name) and norm.U(a.targets[0].slice) == f"{lp.target.id}.pipeline_id" and norm.is_name(a.value, lp.target.id):
            byp = g.path_avoiding(g.node_of(post).id, {g.exit.id}, {g.node_of(lp).id})
            hid_ = g.node_of(lp).id
            # ... every one of them: no iteration of the merge loop gets round the store (a filter here would leave a pipeline unknown for ever)
            skip_ = g.path_avoiding(hid_, {hid_, g.exit.id}, {g.node_of(a).id}, edge_ok=lambda p_, q_, lab, hid_=hid_: not (p_ == hid_ and lab == "done"))
            okadd = byp is None and skip_ is None
    ctx.ob(3, "K3", "after the call every new pipeline joins the known set (on every path that made the call)", okadd, f, adds[0] if adds else f.node, construct="merge of new pipelines",
           detail=f"{[stmt_text(a) for a in adds]}")
    okdel = False
    d = f"{[stmt_text(x) for x in dels]}"
    for x in dels:
        lp = enclosing_for(x, f.node)
        if lp is None:
            continue
        snap = norm.U(lp.iter) in (f"list({other}.keys())", f"list({other})", f"list({other}.items())")
        le = loop_env(lp)
        fs = g.facts_at(x)
        kv = lp.target.id if isinstance(lp.target, ast.Name) else None
        pipe_t = f"{other}[{kv}]"
        if isinstance(lp.target, ast.Tuple) and len(lp.target.elts) == 2 and all(isinstance(e_, ast.Name) for e_ in lp.target.elts) and norm.U(lp.iter) == f"list({other}.items())":
            kv, pipe_t = lp.target.elts[0].id, lp.target.elts[1].id
        succ = any(a[0] == "truth" and a[2] and norm.U(norm.subst(ast.parse(a[1], mode="eval").body, le)) == f"{pipe_t}.runtime_status().is_pipeline_successful()" for a in fs)
        key_ok = norm.U(x.targets[0].slice) == kv
        byp = g.path_avoiding(g.node_of(post).id, {g.exit.id}, {g.node_of(lp).id})
        hid = g.node_of(lp).id
        comp = None
        for a in fs:
            if a[0] == "truth" and a[2] and a[1].endswith("is_pipeline_successful()"):
                nreq = ("truth", a[1], False)
                comp = g.path_avoiding(hid, {hid, g.exit.id}, {g.node_of(x).id}, edge_ok=lambda p_, q_, lab, nreq=nreq, hid=hid: not (p_ == hid and lab == "done") and not (
                    isinstance(lab, tuple) and lab[0] == "cond" and nreq in norm.atoms_true(lab[1])))
        after_add = all(g.dominates(enclosing_for(a, f.node) or a, lp) for a in adds)
        okdel = snap and succ and key_ok and byp is None and comp is None and after_add
        d = (f"sweep over a snapshot of the known set: {snap}; removes exactly the completed pipelines: {succ and key_ok}; every completed one: {comp is None}; "
             f"on every path after the call: {byp is None}; after the merge of new pipelines: {after_add}")
    ctx.ob(3, "K3", "a pipeline that completes is dropped from the known set right after the call that reported it complete (reported as complete exactly once, then never again)",
           okdel, f, dels[0] if dels else f.node, construct="removal of completed pipelines", detail=d)
    # (4) early return
    rets = [r for r in own_nodes(f.node) if isinstance(r, ast.Return)]
    early = [r for r in rets if not g.dominates(post, r)]
    ctx.ob(4, "K2", "there is one early return (no call)", len(early) == 1, f, early[0] if early else f.node, construct="early return", detail=f"{len(early)}")
    for r in early:
        fs = g.facts_at(r)
        fse = set()
        for a in fs:
            fse.add(a)
        nopipe = norm.entails(fs, ("truth", pip_p, False))
        nores = norm.entails(fs, ("truth", res_p, False))
        lt = [a for a in fs if a[0] == "cmp" and a[1] == "<" and a[3] == f"{s_p}.rest_poll_interval"]
        oklt = False
        dd = ""
        if lt:
            tv = lt[0][2]
            e1 = env.get(tv)
            if e1 is not None:
                # time_since_last = current_tick / tps - last_call_sim_time
                okt = ratform.same(e1, ratform.parse(f"{s_p}.current_tick / TPS - {s_p}.last_call_sim_time"), {k: v for k, v in env.items() if k != tv} | {"TPS": ast.parse(f"{s_p}.params.get('ticks_per_second', 1000)", mode='eval').body})
                oklt = okt
                dd = f"{tv} = {norm.U(norm.subst(e1, env))}"
        ok = nopipe and nores and oklt
        ctx.ob(4, "K2", "the call is skipped only if nothing arrived, nothing finished, and less than one poll interval of simulated time has passed since the last call", ok, f, r,
               detail=f"not pipelines: {nopipe}; not results: {nores}; time since last call < rest_poll_interval: {oklt} ({dd}); value returned: {norm.U(r.value)}")
        empt = isinstance(r.value, ast.Tuple) and len(r.value.elts) == 2 and all(isinstance(e, ast.List) and not e.elts for e in r.value.elts)
        ctx.ob(4, "K6", "the early return makes no decisions", empt, f, r, construct="early return value", detail=norm.U(r.value))
    # completeness: if something arrived or finished the call is made: the only way to avoid the POST is the early return
    ups = [n for n in own_nodes(f.node) if isinstance(n, ast.Assign) and any(norm.U(t) == f"{s_p}.last_call_sim_time" for t in n.targets)]
    okup = len(ups) == 1 and norm.U(norm.subst(ups[0].value, env)) == f"{s_p}.current_tick / {s_p}.params.get('ticks_per_second', 1000)" and all(not g.dominates(ups[0], r) for r in early) \
        and g.path_avoiding(g.entry.id, {g.node_of(post).id}, {g.node_of(ups[0]).id}) is None
    ctx.ob(4, "K3", "the time of the last call is updated exactly on the calling path (never on the early return)", okup, f, ups[0] if ups else f.node, construct="last_call_sim_time update",
           detail=f"{[stmt_text(u) for u in ups]}")
    tick_inc = [n for n in own_nodes(f.node) if isinstance(n, ast.AugAssign) and norm.U(n.target) == f"{s_p}.current_tick"]
    okti = len(tick_inc) == 1 and isinstance(tick_inc[0].op, ast.Add) and isinstance(tick_inc[0].value, ast.Constant) and tick_inc[0].value.value == 1 \
        and g.path_avoiding(g.entry.id, {g.exit.id}, {g.node_of(tick_inc[0]).id}) is None
    ctx.ob(4, "K3", "the bridge's clock advances by one tick per scheduler round, on every path", okti, f, tick_inc[0] if tick_inc else f.node, construct="current_tick += 1", detail=f"{len(tick_inc)}")
    # final return: exactly the decoded lists
    final = [r for r in rets if g.dominates(post, r)]
    for r in final:
        ok = isinstance(r.value, ast.Tuple) and len(r.value.elts) == 2
        if ok:
            a, b = (norm.U(norm.subst(e, env)) for e in r.value.elts)
            rname = response_name(f)
            rdefs = [n for n in own_nodes(f.node) if isinstance(n, ast.Assign) and norm.is_name(n.targets[0], rname)]
            rj = len(rdefs) == 1 and isinstance(rdefs[0].value, ast.Call) and norm.call_name(rdefs[0].value) == "json" and isinstance(parent(post), ast.Assign) \
                and norm.U(rdefs[0].value.func.value) == norm.U(parent(post).targets[0])
            ea, eb = (norm.subst(e, env) for e in r.value.elts)
            R_texts = {rname} | ({norm.U(rdefs[0].value)} if rdefs else set()) | {norm.U(c_) for c_ in own_nodes(f.node) if isinstance(c_, ast.Call) and norm.call_name(c_) == "json"}
            ok = rj_or_direct(f, post, rdefs) and _decoded_from(P, f, g, r.value.elts[0], "Suspend", "suspensions", R_texts, env) \
                and _decoded_from(P, f, g, r.value.elts[1], "Assignment", "assignments", R_texts, env)
            a, b = norm.U(ea), norm.U(eb)
            d = f"({a}, {b})"
        else:
            d = norm.U(r.value)
        ctx.ob(5, "K6", "the round returns exactly the decoded suspensions and assignments of the reply", ok, f, r, detail=d)


def _rebound_params(f) -> set:
    """parameters of f that are bound again somewhere in f (assignment, loop target, with/except target, comprehension target in f's own scope is separate)"""
    ps = set(f.params())
    out = set()
    for n in own_nodes(f.node):
        tg = []
        if isinstance(n, ast.Assign):
            tg = n.targets
        elif isinstance(n, (ast.AugAssign, ast.AnnAssign)):
            tg = [n.target]
        elif isinstance(n, (ast.For, ast.AsyncFor)):
            tg = [n.target]
        elif isinstance(n, (ast.With, ast.AsyncWith)):
            tg = [i.optional_vars for i in n.items if i.optional_vars is not None]
        elif isinstance(n, ast.NamedExpr):
            tg = [n.target]
        elif isinstance(n, ast.ExceptHandler) and n.name:
            if n.name in ps:
                out.add(n.name)
        for t in tg:
            for x in ast.walk(t):
                if isinstance(x, ast.Name) and isinstance(x.ctx, ast.Store) and x.id in ps:
                    out.add(x.id)
    return out


def _decoders(P, what: str):
    """functions of rest.py that construct `what` (Assignment / Suspend): the decoders of the reply, wherever they live"""
    m = P.mod(REST)
    from ..util import view_funcs
    return [f for f in view_funcs(P, m) if any(isinstance(c.func, ast.Name) for c in calls_named(f, what))]     # as the rules see them: helpers looked through


def _reply_source(f, e: ast.expr, key: str) -> bool:
    """e is the reply's list `key`: a parameter of the decoder (the caller passes response[key]) or a subscript [key] of the reply"""
    if isinstance(e, ast.Name) and e.id in f.params():
        return True
    return isinstance(e, ast.Subscript) and isinstance(e.slice, ast.Constant) and e.slice.value == key


def check_decoding(ctx, num=5):
    P = ctx.P
    fa = _decoders(P, "Assignment")
    ctx.count_min("functions of rest.py that build Assignment objects (the reply decoder)", len(fa), 1)
    f = fa[0]
    ctx.touch(f)
    g = cfg_of(f, subst_env=False)
    cs = [c for c in calls_named(f, "Assignment") if isinstance(c.func, ast.Name)]
    ok = len(cs) == 1 and len(fa) == 1
    ctx.ob(num, "K6", "one Assignment is built per entry of the reply", ok, f, cs[0] if cs else f.node, construct="Assignment( in the reply decoder", detail=f"{len(cs)} site(s) in {[x.qual for x in fa]}")
    if ok:
        c = cs[0]
        lp = enclosing_for(c, f.node)
        av = lp.target.id if lp is not None and isinstance(lp.target, ast.Name) else "a"
        le = loop_env(lp) if lp is not None else {}
        want = {"cpu": f"{av}['cpu']", "ram": f"{av}['ram_gb']", "pool_id": f"{av}['pool_id']", "priority": f"Priority[{av}['priority']]", "is_resume": f"{av}['is_resume']",
                "force_run": f"{av}['force_run']"}
        for k, w in want.items():
            v = norm.kwarg(c, k)
            ctx.ob(num, "K6", f"Assignment.{k} is the reply's value, unchanged", v is not None and norm.U(v) == w, f, c, construct=f"Assignment({k}=...)", detail=f"{norm.U(v) if v is not None else None}; required {w}")
        ops = norm.kwarg(c, "ops", 0)
        opsr = norm.subst(ops, le) if ops is not None else None
        okops = False
        reg = None
        if isinstance(opsr, ast.ListComp) and len(opsr.generators) == 1 and not opsr.generators[0].ifs and norm.U(opsr.generators[0].iter) == f"{av}['operator_ids']" \
                and isinstance(opsr.elt, ast.Subscript) and isinstance(opsr.elt.value, ast.Attribute) and opsr.elt.value.attr == "operator_lookup" \
                and isinstance(opsr.elt.value.value, ast.Name) and norm.is_name(opsr.elt.slice, opsr.generators[0].target.id):
            reg = opsr.elt.value.value.id
            # the registry is read through the scheduler object the decoder was given: a parameter that nothing in the decoder binds again
            okops = reg in f.params() and reg not in _rebound_params(f)
        ctx.ob(num, "K6", "the operators of an assignment are looked up by id in the scheduler's registry, in the order given (an unknown id raises)", okops, f, c, construct="ops from operator_ids",
               detail=f"{norm.U(opsr) if opsr is not None else None}; registry read through `{reg}` (a parameter, never re-bound in the decoder: {okops})")
        hid = g.node_of(lp).id if lp is not None else None
        # every Assignment built joins the list that is returned
        rets = [r for r in own_nodes(f.node) if isinstance(r, ast.Return) and r.value is not None]
        outs = set()
        for r in rets:
            for x in ([r.value] if isinstance(r.value, ast.Name) else (r.value.elts if isinstance(r.value, ast.Tuple) else [])):
                if isinstance(x, ast.Name):
                    outs.add(x.id)
        p_ = parent(c)
        app = None
        if isinstance(p_, ast.Call) and isinstance(p_.func, ast.Attribute) and p_.func.attr == "append" and isinstance(p_.func.value, ast.Name):
            app = p_
        elif isinstance(p_, ast.Assign) and len(p_.targets) == 1 and isinstance(p_.targets[0], ast.Name):
            cand = [a for a in calls_named(f, "append") if isinstance(a.func, ast.Attribute) and isinstance(a.func.value, ast.Name) and a.args and norm.is_name(a.args[0], p_.targets[0].id)]
            app = cand[0] if len(cand) == 1 else None
        okall = lp is not None and _reply_source(f, lp.iter, "assignments") and app is not None and app.func.value.id in outs \
            and g.path_avoiding(hid, {hid, g.exit.id}, {g.node_of(app).id}, edge_ok=lambda a, b, lab: not (a == hid and lab == "done")) is None
        ctx.ob(num, "K6", "every entry of the reply is decoded and returned, in order", okall, f, lp or f.node, construct="all assignments decoded", detail=f"loop: {stmt_text(lp) if lp else None}")
    fs2 = _decoders(P, "Suspend")
    ctx.count_min("functions of rest.py that build Suspend objects (the reply decoder)", len(fs2), 1)
    f2 = fs2[0]
    ctx.touch(f2)
    sc = [c for c in calls_named(f2, "Suspend") if isinstance(c.func, ast.Name)]
    ok = False
    d = f"{len(sc)} Suspend( site(s) in {[x.qual for x in fs2]}"
    if len(sc) == 1 and len(fs2) == 1:
        e = sc[0]
        comp = parent(e)
        v = src = None
        every = False
        if isinstance(comp, ast.ListComp) and len(comp.generators) == 1 and not comp.generators[0].ifs and isinstance(comp.generators[0].target, ast.Name) and comp.elt is e:
            v, src, every = comp.generators[0].target.id, comp.generators[0].iter, True
        else:
            lp2 = enclosing_for(e, f2.node)
            if lp2 is not None and isinstance(lp2.target, ast.Name):
                g2 = cfg_of(f2, subst_env=False)
                h2 = g2.node_of(lp2).id
                v, src = lp2.target.id, lp2.iter
                every = g2.path_avoiding(h2, {h2, g2.exit.id}, {g2.node_of(e).id}, edge_ok=lambda a, b, lab: not (a == h2 and lab == "done")) is None
        ok = v is not None and every and norm.U(norm.kwarg(e, "container_id", 0)) == f"{v}['container_id']" and norm.U(norm.kwarg(e, "pool_id", 1)) == f"{v}['pool_id']" \
            and _reply_source(f2, src, "suspensions")
        d = f"entry variable `{v}` over {norm.U(src) if src is not None else None}; every entry decoded: {every}"
    ctx.ob(num, "K6", "every suspension of the reply is decoded into Suspend(container_id, pool_id), unchanged and in order", ok, f2, sc[0] if sc else f2.node, detail=d)
    # operator registry: filled for every operator of every new pipeline before the call
    rs = _normalise_rest(P.fn(REST, "rest_scheduler"))
    g = cfg_of(rs, subst_env=False)
    s_p = rs.params()[0]
    regs = [n for n in own_nodes(rs.node) if isinstance(n, ast.Assign) and isinstance(n.targets[0], ast.Subscript) and norm.U(n.targets[0].value) == f"{s_p}.operator_lookup"]
    posts = calls_named(rs, "post")
    okreg = False
    if len(regs) == 1 and posts:
        il = enclosing_for(regs[0], rs.node)
        ol = enclosing_for(il, rs.node) if il is not None else None
        okreg = il is not None and ol is not None and norm.is_name(ol.iter, rs.params()[2]) and norm.U(il.iter) == f"{ol.target.id}.values" \
            and norm.U(regs[0].targets[0].slice) == f"str({il.target.id}.id)" and norm.is_name(regs[0].value, il.target.id) and g.dominates(ol, posts[0])
        if okreg:
            # every operator of every new pipeline: neither loop has an iteration that gets round the store
            for lp_ in (il, ol):
                h_ = g.node_of(lp_).id
                if g.path_avoiding(h_, {h_, g.exit.id}, {g.node_of(regs[0]).id} | ({g.node_of(il).id} if lp_ is ol else set()),
                                   edge_ok=lambda p_, q_, lab, h_=h_: not (p_ == h_ and lab == "done")) is not None:
                    okreg = False
    ctx.ob(num, "K6", "every operator of every newly arrived pipeline is registered under str(id) before the call, so the reply can name it", okreg, rs, regs[0] if regs else rs.node,
           construct="operator_lookup registration", detail=f"{[stmt_text(r) for r in regs]}")


def check_true_state(ctx, num=6):
    P = ctx.P
    for rel, q, st in TO_DICT:
        f = P.fn(rel, q)
        g = cfg_of(f, subst_env=False)
        rs = [r for r in own_nodes(f.node) if isinstance(r, ast.Return)]
        fresh = len(rs) == 1 and isinstance(rs[0].value, ast.Dict)
        stores = [n for n in own_nodes(f.node) if isinstance(n, (ast.Assign, ast.AugAssign)) and any(isinstance(x, ast.Attribute) and isinstance(x.ctx, ast.Store) for t in
                  (n.targets if isinstance(n, ast.Assign) else [n.target]) for x in ast.walk(t))]
        ctx.ob(num, "K6", f"{q} builds a fresh dict from the live object on every call (no cached or stored serialisation)", fresh and not stores, f, rs[0] if rs else f.node,
               construct=f"{q} returns a dict literal", detail=f"returns: {[type(r.value).__name__ for r in rs]}; attribute stores in the method: {[stmt_text(s) for s in stores]}")
    # field-level sources
    want = {
        ("Pipeline.to_dict", "pipeline_id"): ["self.pipeline_id"], ("Pipeline.to_dict", "priority"): ["self.priority.name"],
        ("Pipeline.to_dict", "arrival_tick"): ["self.runtime_status().arrival_tick"], ("Pipeline.to_dict", "is_complete"): ["self.runtime_status().is_pipeline_successful()"],
        ("Pipeline.to_dict", "has_failures"): ["self.runtime_status().state_counts[OperatorState.FAILED] > 0"], ("Pipeline.to_dict", "operators"): ["[op.to_dict() for op in self.values]"],
        ("Operator.to_dict", "id"): ["str(self.id)"], ("Operator.to_dict", "state"): ["self.pipeline.runtime_status().operator_states[self].value"],
        ("Operator.to_dict", "is_assignable_state"): ["self.pipeline.runtime_status().operator_states[self] in ASSIGNABLE_STATES"],
        ("Operator.to_dict", "parents_complete"): ["all((self.pipeline.runtime_status().operator_states[p] == OperatorState.COMPLETED for p in self.parents))"],
        ("ResourcePool.to_dict", "pool_id"): ["self.pool_id"], ("ResourcePool.to_dict", "max_cpu"): ["self.max_cpu_pool"], ("ResourcePool.to_dict", "max_ram_gb"): ["self.max_ram_pool"],
        ("ResourcePool.to_dict", "avail_cpu"): ["self.avail_cpu_pool"], ("ResourcePool.to_dict", "avail_ram_gb"): ["self.avail_ram_pool"], ("ResourcePool.to_dict", "consumed_ram_gb"): ["self.consumed_ram_gb", "self.get_consumed_ram_gb()"],
        ("ResourcePool.to_dict", "active_containers"): ["[c.to_dict() for c in self.active_containers]"], ("ResourcePool.to_dict", "suspending_containers"): ["[c.to_dict() for c in self.suspending_containers]"],
        ("ResourcePool.to_dict", "suspended_containers"): ["[c.to_dict() for c in self.suspended_containers]"],
        ("Container.to_dict", "container_id"): ["self.container_id"], ("Container.to_dict", "pipeline_id"): ["self.get_pipeline_id()"], ("Container.to_dict", "operator_ids"): ["[str(op.id) for op in self.operators]"],
        ("Container.to_dict", "cpu"): ["self.assignment.cpu"], ("Container.to_dict", "ram_gb"): ["self.assignment.ram"], ("Container.to_dict", "current_memory_gb"): ["self.get_current_memory_usage()", "self._current_memory"],
        ("Container.to_dict", "priority"): ["self.priority.name", "self.assignment.priority.name"],
        ("ExecutionResult.to_dict", "ops"): ["[str(op.id) for op in self.ops]"], ("ExecutionResult.to_dict", "cpu"): ["self.cpu"], ("ExecutionResult.to_dict", "ram"): ["self.ram"],
        ("ExecutionResult.to_dict", "priority"): ["self.priority.name"], ("ExecutionResult.to_dict", "pool_id"): ["self.pool_id"], ("ExecutionResult.to_dict", "container_id"): ["self.container_id"],
        ("ExecutionResult.to_dict", "error"): ["self.error"],
    }
    for rel, q, st in TO_DICT:
        f = P.fn(rel, q)
        env = single_defs(f)
        rs = [r for r in own_nodes(f.node) if isinstance(r, ast.Return) and isinstance(r.value, ast.Dict)]
        if len(rs) != 1:
            continue
        for k, v in zip(rs[0].value.keys, rs[0].value.values):
            if not isinstance(k, ast.Constant) or (q, k.value) not in want:
                continue
            got = norm.U(norm.subst(v, env))
            ok = got in want[(q, k.value)] or _same_comp(got, want[(q, k.value)]) or _same_gen(got, want[(q, k.value)]) or \
                _canon_cmp(got) in {_canon_cmp(w) for w in want[(q, k.value)]}
            ctx.ob(num, "K6", f"{q}[{k.value!r}] is the object's live {k.value}", ok, f, v, construct=f"{q}[{k.value}]", detail=f"{got}")


def rj_or_direct(f, post, rdefs) -> bool:
    """the reply is <result of this round's POST>.json(), bound to a name once or used directly"""
    pv = parent(post).targets[0] if isinstance(parent(post), ast.Assign) and len(parent(post).targets) == 1 else None
    if pv is None:
        return False
    js = [c for c in own_nodes(f.node) if isinstance(c, ast.Call) and norm.call_name(c) == "json" and isinstance(c.func, ast.Attribute)]
    return len(js) >= 1 and all(norm.U(j.func.value) == norm.U(pv) for j in js) and len(rdefs) <= 1


def _decoded_from(P, f, g, e: ast.expr, ctor: str, key: str, R_texts: set, env, depth: int = 0) -> bool:
    """e is the list of `ctor` objects decoded from reply[key], one per entry, in order: a call of the decoder on reply[key] (or on the whole
    reply, for a decoder that returns both lists in this position), a comprehension over reply[key], a list filled by a loop over reply[key],
    or a name bound to one of these (also by tuple unpacking)."""
    if depth > 4:
        return False
    names = {x.name for x in _decoders(P, ctor)}

    def is_src(x) -> bool:
        t = norm.U(norm.subst(x, env))
        return any(t == f"{R}['{key}']" for R in R_texts)
    if isinstance(e, ast.Call) and isinstance(e.func, ast.Name) and e.func.id in names:
        return any(is_src(a) for a in e.args)
    if isinstance(e, ast.ListComp) and len(e.generators) == 1 and not e.generators[0].ifs and isinstance(e.elt, ast.Call) and norm.call_name(e.elt) == ctor:
        return is_src(e.generators[0].iter)
    if isinstance(e, ast.Name):
        defs = [n for n in own_nodes(f.node) if isinstance(n, ast.Assign) and len(n.targets) == 1 and
                (norm.is_name(n.targets[0], e.id) or (isinstance(n.targets[0], ast.Tuple) and any(norm.is_name(t, e.id) for t in n.targets[0].elts)))]
        if len(defs) != 1:
            return False
        d = defs[0]
        if isinstance(d.targets[0], ast.Tuple):
            i = [k for k, t in enumerate(d.targets[0].elts) if norm.is_name(t, e.id)][0]
            v = d.value
            if isinstance(v, ast.Tuple) and len(v.elts) == len(d.targets[0].elts):
                return _decoded_from(P, f, g, v.elts[i], ctor, key, R_texts, env, depth + 1)
            if isinstance(v, ast.Call) and isinstance(v.func, ast.Name) and v.func.id in names:
                # a decoder of the whole reply that returns (suspensions, assignments): position i of its return tuple is this list
                dec = [x for x in _decoders(P, ctor) if x.name == v.func.id][0]
                ps = dec.params()
                whole = [ps[k] for k, a in enumerate(v.args) if k < len(ps) and norm.U(norm.subst(a, env)) in R_texts]
                rets = [x for x in own_nodes(dec.node) if isinstance(x, ast.Return) and isinstance(x.value, ast.Tuple) and len(x.value.elts) == len(d.targets[0].elts)]
                if len(whole) == 1 and len(rets) == 1:
                    gd = cfg_of(dec, subst_env=False)
                    return _decoded_from(P, dec, gd, rets[0].value.elts[i], ctor, key, {whole[0]}, single_defs(dec), depth + 1)
            return False
        v = d.value
        if isinstance(v, ast.List) and not v.elts:
            apps = [c for c in calls_named(f, "append") if isinstance(c.func, ast.Attribute) and norm.is_name(c.func.value, e.id)]
            others = [c for c in own_nodes(f.node) if isinstance(c, ast.Call) and isinstance(c.func, ast.Attribute) and norm.is_name(c.func.value, e.id) and c.func.attr != "append"]
            if len(apps) != 1 or others:
                return False
            a = apps[0]
            lp = enclosing_for(a, f.node)
            arg = a.args[0] if a.args else None
            if isinstance(arg, ast.Name):
                ad = [n for n in own_nodes(f.node) if isinstance(n, ast.Assign) and any(norm.is_name(t, arg.id) for t in n.targets)]
                arg = ad[0].value if len(ad) == 1 else arg
            if lp is None or not (isinstance(arg, ast.Call) and norm.call_name(arg) == ctor):
                return False
            hid = g.node_of(lp).id
            every = g.path_avoiding(hid, {hid, g.exit.id}, {g.node_of(a).id}, edge_ok=lambda x, y, lab: not (x == hid and lab == "done")) is None
            return every and is_src(lp.iter) and enclosing_for(lp, f.node) is None
        return _decoded_from(P, f, g, v, ctor, key, R_texts, env, depth + 1)
    return False


def check_getters(ctx, num=6):
    """Getters the payload goes through report the object's own state: the pipeline a container is reported under is derived from the
    operators it actually holds (the assignment's pipeline_id is only a label set by whoever built the assignment — the bridge copies it
    from the first operator), and the memory figures are the live fields."""
    P = ctx.P
    f = P.fn(CT, "Container.get_pipeline_id")
    ctx.touch(f)
    reads_asg = [n for n in own_nodes(f.node) if isinstance(n, ast.Attribute) and n.attr == "assignment"]
    over_ops = [n for n in own_nodes(f.node) if (isinstance(n, ast.For) and norm.U(n.iter) == "self.operators") or (isinstance(n, ast.comprehension) and norm.U(n.iter) == "self.operators")]
    from_ops = any(isinstance(x, ast.Attribute) and x.attr == "pipeline_id" and isinstance(x.value, ast.Attribute) and x.value.attr == "pipeline" for n in own_nodes(f.node) for x in [n])
    ctx.ob(num, "K6", "the pipeline a container is reported under is derived from the operators it holds, not from the label on its assignment", not reads_asg and bool(over_ops) and from_ops,
           f, reads_asg[0] if reads_asg else f.node, construct="Container.get_pipeline_id source",
           detail=f"iterates self.operators: {bool(over_ops)}; reads op.pipeline.pipeline_id: {from_ops}; reads self.assignment: {bool(reads_asg)}")
    for q, want in (("Container.get_current_memory_usage", "self._current_memory"), ("ResourcePool.get_consumed_ram_gb", "self.consumed_ram_gb")):
        rel = CT if q.startswith("Container") else RP
        if not P.has_fn(rel, q):
            continue
        h = P.fn(rel, q)
        ctx.touch(h)
        rs = [r for r in own_nodes(h.node) if isinstance(r, ast.Return)]
        ctx.ob(num, "K6", f"{q}() reports the live field", len(rs) == 1 and rs[0].value is not None and norm.U(rs[0].value) == want, h, rs[0] if rs else h.node, detail=f"{[stmt_text(r) for r in rs]}")


def _canon_cmp(t: str) -> str:
    """orientation-independent text: every comparison replaced by its normal form (a > b == b < a, == operands sorted); bound variables renamed."""
    try:
        e = ast.parse(t, mode="eval").body
    except SyntaxError:
        return t

    class T(ast.NodeTransformer):
        def visit_Compare(self, n):
            self.generic_visit(n)
            if len(n.ops) == 1:
                f = norm.nnf(n)
                if f[0] == "cmp":
                    return ast.Name(f"<{f[1]}|{f[2]}|{f[3]}>", ast.Load())
            return n
    for n in ast.walk(e):
        if isinstance(n, (ast.ListComp, ast.GeneratorExp)) and len(n.generators) == 1 and isinstance(n.generators[0].target, ast.Name):
            old = n.generators[0].target.id
            for m in ast.walk(n):
                if isinstance(m, ast.Name) and m.id == old:
                    m.id = "_v"
    return ast.unparse(T().visit(e))


def _same_gen(got: str, wants: List[str]) -> bool:
    def canon(t: str) -> str:
        try:
            e = ast.parse(t, mode="eval").body
        except SyntaxError:
            return t
        for n in ast.walk(e):
            if isinstance(n, (ast.ListComp, ast.GeneratorExp)) and len(n.generators) == 1 and isinstance(n.generators[0].target, ast.Name):
                old = n.generators[0].target.id
                for m in ast.walk(n):
                    if isinstance(m, ast.Name) and m.id == old:
                        m.id = "_v"
        return ast.unparse(e)
    return canon(got) in {canon(w) for w in wants}


def run(ctx):
    check_keys(ctx, 1)
    check_secrecy(ctx, 2)
    check_protocol(ctx)
    check_decoding(ctx, 5)
    check_true_state(ctx, 6)
    check_getters(ctx, 6)
