"""C14 — trace files round-trip: what is written is what is read, for any pipeline DAG."""
from __future__ import annotations

import ast
from typing import Dict, List, Optional, Set

from .. import norm
from ..model import own_nodes, stmt_text, parent
from ..util import cfg_of, calls_named, single_defs
from .common import *
from . import c05, c13, pool as poolmod

EXPLANATION = (
    "Static decision of the structural clauses of C14.  (1) K5 one column table: the fields of CSVOperatorRow, the DictWriter "
    "fieldnames, the keys write_row emits and the keys _parse_row reads are the same nine names (the first two in the same "
    "order).  (2) K6 field-wise identity flow: write_row's value for column k is row.k; _parse_row's field k is read from "
    "row_dict[k]; the reader builds Segment(k=row.k) for the four resource columns; the trace generator builds each row's column "
    "k from segment.k; the only conversions on the way are float(), .strip() and None <-> '' for the two optional columns.  "
    "(3) K2 None-vs-zero discipline: the Optional[float] fields arrival_seconds and memory_gb are tested only with "
    "`is None` / `is not None`, never by truthiness (an explicit 0 must stay distinct from unset); truthiness is allowed on the raw "
    "CSV string only.  (4) operator numbering: op<i+1> by position in the pipeline's creation-order operator list, parent "
    "references by the parent's position in that same list; the reader resolves parent ids with a raising lookup among the "
    "operators already created and adds operators in row order.  (5) refusals raise: missing priority/arrival on a first row, "
    "either present on a later row, unknown priority, unknown scaling law, undefined parent, unknown scaling function on write.  "
    "(6) the seven scaling names map to seven distinct functions (reverse lookup injective).  (7) the per-pipeline and per-arrival "
    "grouping flushes its last group.")
UNDECIDED = "that repr(float)/float(str) round-trip every value (trusted: CPython guarantee); no file is written or read"
ASSUMPTIONS = COMMON_ASSUMPTIONS + ["csv.DictWriter/DictReader and float()/repr() behave as documented"]

COLUMNS = ["pipeline_id", "arrival_seconds", "priority", "operator_id", "parents", "baseline_cpu_seconds", "cpu_scaling", "memory_gb", "storage_read_gb"]
OPTIONAL = {"arrival_seconds", "memory_gb"}
RESOURCE = ["baseline_cpu_seconds", "cpu_scaling", "memory_gb", "storage_read_gb"]


def check_tables(ctx, num=1):
    P = ctx.P
    row = P.cls(CSV, "CSVOperatorRow")
    fields = [st.target.id for st in row.node.body if isinstance(st, ast.AnnAssign) and isinstance(st.target, ast.Name)]
    ctx.files[row.mod.rel] = row.mod.sha
    ctx.ob(num, "K5", "CSVOperatorRow has exactly the nine documented columns", fields == COLUMNS, file=CSV, construct="CSVOperatorRow fields", detail=f"{fields}")
    wi = P.fn(CSV, "CSVWorkloadWriter.__init__")
    ctx.touch(wi)
    dw = calls_named(wi, "DictWriter")
    fn = None
    if len(dw) == 1:
        a = norm.kwarg(dw[0], "fieldnames", 1)
        if isinstance(a, ast.Call) and isinstance(a.func, ast.Name) and a.func.id in ("list", "tuple") and len(a.args) == 1:
            a = a.args[0]
        if isinstance(a, ast.Name):   # a module-level constant
            a = P.mod(CSV).module_assigns().get(a.id, a)
        if isinstance(a, (ast.List, ast.Tuple)) and all(isinstance(e, ast.Constant) for e in a.elts):
            fn = [e.value for e in a.elts]
    ctx.ob(num, "K5", "the writer's header lists the same columns as the row type, in the same order", fn == fields, wi, dw[0] if dw else wi.node, construct="DictWriter(fieldnames=...)", detail=f"{fn}")
    hdr = calls_named(wi, "writeheader")
    ctx.ob(num, "K3", "the header row is written", len(hdr) == 1, wi, hdr[0] if hdr else wi.node, construct="writer.writeheader()", detail=f"{len(hdr)}")
    wr = P.fn(CSV, "CSVWorkloadWriter.write_row")
    ctx.touch(wr)
    calls = calls_named(wr, "writerow")
    keys = None
    dct = None
    if len(calls) == 1 and calls[0].args and isinstance(calls[0].args[0], ast.Dict):
        dct = calls[0].args[0]
        keys = [k.value if isinstance(k, ast.Constant) else None for k in dct.keys]
    ctx.ob(num, "K5", "write_row emits exactly the header's columns", keys is not None and sorted(map(str, keys)) == sorted(fields) and len(keys) == len(set(keys)), wr,
           calls[0] if calls else wr.node, construct="writerow({...}) keys", detail=f"{keys}")
    pr = P.fn(CSV, "CSVWorkloadReader._parse_row")
    ctx.touch(pr)
    rp = pr.params()[1] if len(pr.params()) > 1 else "row_dict"
    read: Set[str] = set()
    for n in own_nodes(pr.node):
        if isinstance(n, ast.Subscript) and norm.is_name(n.value, rp) and isinstance(n.slice, ast.Constant):
            read.add(n.slice.value)
        if isinstance(n, ast.Call) and isinstance(n.func, ast.Attribute) and n.func.attr == "get" and norm.is_name(n.func.value, rp) and n.args and isinstance(n.args[0], ast.Constant):
            read.add(n.args[0].value)
    ctx.ob(num, "K5", "_parse_row reads exactly the nine columns", read == set(fields), pr, pr.node, construct="keys read from the CSV row", detail=f"{sorted(read)}")
    return dct, wr, pr, rp


def _strip_conv(e: ast.expr) -> ast.expr:
    """Remove the allowed conversions float(x), x.strip()."""
    changed = True
    while changed:
        changed = False
        if isinstance(e, ast.Call) and norm.is_name(e.func, "float") and len(e.args) == 1:
            e, changed = e.args[0], True
        elif isinstance(e, ast.Call) and isinstance(e.func, ast.Attribute) and e.func.attr == "strip" and not e.args:
            e, changed = e.func.value, True
    return e


def check_flows(ctx, dct, wr, pr, rp, num=2):
    P = ctx.P
    # write_row: key k <- row.k  (optional columns:  row.k if row.k is not None else '')
    rowp = wr.params()[1] if len(wr.params()) > 1 else "row"
    if dct is not None:
        for k, v in zip(dct.keys, dct.values):
            if not isinstance(k, ast.Constant):
                continue
            col = k.value
            ok = norm.U(v) == f"{rowp}.{col}"
            how = "identity"
            if not ok and isinstance(v, ast.IfExp):       # for a required column the same thing: csv writes None as the empty cell anyway
                t = norm.nnf(v.test)
                ok = (t == ("cmp", "isnot", f"{rowp}.{col}", "None") and norm.U(v.body) == f"{rowp}.{col}" and isinstance(v.orelse, ast.Constant) and v.orelse.value == "") \
                    or (t == ("cmp", "is", f"{rowp}.{col}", "None") and norm.U(v.orelse) == f"{rowp}.{col}" and isinstance(v.body, ast.Constant) and v.body.value == "")     # '' if x is None else x
                how = "value if it is not None else ''"
            ctx.ob(num, "K6", f"the value written in column {col} is the row's own {col}" + (" (unset written as an empty cell, an explicit 0 kept)" if col in OPTIONAL else ""),
                   ok, wr, v, construct=f"write_row[{col}]", detail=f"{norm.U(v)} ({how})")
    # _parse_row: field k <- row_dict[k]
    env = single_defs(pr)
    rets = [r for r in own_nodes(pr.node) if isinstance(r, ast.Return) and isinstance(r.value, ast.Call) and norm.call_name(r.value) == "CSVOperatorRow"]
    ctx.ob(num, "K6", "_parse_row builds one CSVOperatorRow", len(rets) == 1, pr, rets[0] if rets else pr.node, construct="return CSVOperatorRow(...)", detail=f"{len(rets)}")
    if len(rets) == 1:
        kw = {k.arg: k.value for k in rets[0].value.keywords}
        for i, a in enumerate(rets[0].value.args):
            kw[COLUMNS[i]] = a
        for col in COLUMNS:
            v = kw.get(col)
            ok = False
            d = f"{norm.U(v) if v is not None else None}"
            if v is not None:
                vv = norm.subst(v, env)
                if col in OPTIONAL and isinstance(vv, ast.IfExp):
                    # float(s) if s else None   with s the raw string of this column
                    body = _strip_conv(vv.body)
                    test = _strip_conv(vv.test)
                    ok = _reads_col(body, rp, col) and _reads_col(test, rp, col) and isinstance(vv.orelse, ast.Constant) and vv.orelse.value is None \
                        and isinstance(vv.body, ast.Call) and norm.is_name(vv.body.func, "float")
                    d = f"{norm.U(vv)} (empty cell -> None, anything else -> float)"
                else:
                    src = _strip_conv(vv)
                    ok = _reads_col(src, rp, col)
                    numeric = col in ("baseline_cpu_seconds", "storage_read_gb")
                    if numeric:
                        ok = ok and isinstance(vv, ast.Call) and norm.is_name(vv.func, "float")
                    d = f"{norm.U(vv)}"
            ctx.ob(num, "K6", f"field {col} of a parsed row is read from column {col}" + (" (blank -> None, '0' -> 0.0)" if col in OPTIONAL else ""), ok, pr, v or rets[0],
                   construct=f"_parse_row[{col}]", detail=d)
    # reader: Segment(k=row.k)
    cp = P.fn(CSV, "CSVWorkloadReader.create_pipeline_from_batch")
    ctx.touch(cp)
    segs = calls_named(cp, "Segment")
    ctx.ob(num, "K6", "the reader builds one Segment per row", len(segs) == 1, cp, segs[0] if segs else cp.node, construct="Segment(...) in the reader", detail=f"{len(segs)}")
    if len(segs) == 1:
        lp = enclosing_for(segs[0], cp.node)
        rv = lp.target.id if lp is not None and isinstance(lp.target, ast.Name) else "row"
        if lp is not None:
            # ... for every row: a segment that is looked up instead of built (a cache keyed on some of the columns) carries another row's values
            gcp = cfg_of(cp, subst_env=False)
            hid = gcp.node_of(lp).id
            skip = gcp.path_avoiding(hid, {hid, gcp.exit.id}, {gcp.node_of(segs[0]).id}, edge_ok=lambda a, b, lab, hid=hid: not (a == hid and lab == "done"))
            adds = [c for c in ast.walk(lp) if isinstance(c, ast.Call) and isinstance(c.func, ast.Attribute) and c.func.attr == "add_segment"]
            fresh = len(adds) == 1 and adds[0].args and (adds[0].args[0] is segs[0] or (isinstance(adds[0].args[0], ast.Name) and len(
                [d_ for d_ in ast.walk(lp) if isinstance(d_, ast.Assign) and norm.is_name(d_.targets[0], adds[0].args[0].id)]) == 1
                and isinstance(parent(segs[0]), ast.Assign) and norm.is_name(parent(segs[0]).targets[0], adds[0].args[0].id)))
            ctx.ob(num, "K6", "every row gets a segment built from its own columns (constructed in every iteration, and that object is the one attached)", skip is None and bool(fresh), cp, segs[0],
                   construct="Segment(...) per row, attached", detail=("constructed on every path of the iteration" if skip is None else f"an iteration can avoid the construction: {gcp.describe_path(skip)}")
                   + f"; add_segment receives the freshly built object: {bool(fresh)}")
        for col in RESOURCE:
            v = norm.kwarg(segs[0], col)
            ctx.ob(num, "K6", f"the segment's {col} is the row's {col}, unchanged", v is not None and norm.U(v) == f"{rv}.{col}", cp, segs[0], construct=f"Segment({col}=row.{col})",
                   detail=f"{norm.U(v) if v is not None else None}")
    pl = calls_named(cp, "Pipeline")
    ok = len(pl) == 1 and len(pl[0].args) == 2
    if ok:
        e = single_defs(cp)
        ok = norm.U(norm.subst(pl[0].args[0], e)) == "batch[0].pipeline_id" and norm.U(norm.subst(pl[0].args[1], e)) == "Priority[batch[0].priority]"
    ctx.ob(num, "K6", "the pipeline gets the id and the priority named in its first row (unknown priority names raise)", ok, cp, pl[0] if pl else cp.node,
           construct="Pipeline(batch[0].pipeline_id, Priority[batch[0].priority])", detail=f"{[norm.U(c) for c in pl]}")
    # writer side: rows from segments
    tr = P.fn(CSV, "WorkloadTraceGenerator._pipeline_to_rows")
    ctx.touch(tr)
    ys = [c for c in calls_named(tr, "CSVOperatorRow")]
    ctx.ob(num, "K6", "the trace generator builds one row per operator", len(ys) == 1, tr, ys[0] if ys else tr.node, construct="CSVOperatorRow(...) in the generator", detail=f"{len(ys)}")
    if len(ys) == 1:
        lp = enclosing_for(ys[0], tr.node)
        from ..util import loop_env
        le = loop_env(lp)
        kw = {k.arg: k.value for k in ys[0].keywords}
        segn = None
        for col in ("baseline_cpu_seconds", "memory_gb", "storage_read_gb"):
            v = kw.get(col)
            ok = isinstance(v, ast.Attribute) and v.attr == col and isinstance(v.value, ast.Name)
            if ok:
                segn = v.value.id
            ctx.ob(num, "K6", f"the row's {col} is the segment's {col}, unchanged (None stays None, 0 stays 0)", ok, tr, ys[0], construct=f"row.{col} = segment.{col}",
                   detail=f"{norm.U(v) if v is not None else None}")
        if segn:
            sd = le.get(segn)
            ovn = lp.target.elts[1].id if lp is not None and isinstance(lp.target, ast.Tuple) and len(lp.target.elts) == 2 and isinstance(lp.target.elts[1], ast.Name) else "operator"
            oks = sd is not None and norm.U(norm.subst(sd, le)) in (f"{ovn}.get_segments()[0]", f"{ovn}.values[0]")
            lens = [n for n in ast.walk(lp) if isinstance(n, ast.If) and "len(" in norm.U(n.test) and any(isinstance(x, ast.Raise) for x in n.body)]
            ctx.ob(num, "K6", "the segment written is the operator's single segment (operators with another number of segments are refused)", oks and bool(lens), tr, ys[0],
                   construct="segment = operator.get_segments()[0]", detail=f"{segn} = {norm.U(sd) if sd is not None else None}; segment-count refusal: {bool(lens)}")
        pid, arr, pri = kw.get("pipeline_id"), kw.get("arrival_seconds"), kw.get("priority")
        ps = tr.params()
        okh = pid is not None and norm.is_name(pid, ps[2]) and arr is not None and pri is not None
        if okh:
            a2, p2 = norm.subst(arr, le), norm.subst(pri, le)
            iv = lp.target.elts[0].id if lp is not None and isinstance(lp.target, ast.Tuple) else "i"
            first = norm.mk_cmp("==", "0", iv)
            okh = isinstance(a2, ast.IfExp) and norm.nnf(a2.test) == first and norm.is_name(a2.body, ps[3]) and isinstance(a2.orelse, ast.Constant) and a2.orelse.value is None \
                and isinstance(p2, ast.IfExp) and norm.nnf(p2.test) == first and norm.U(p2.body) == f"{ps[1]}.priority.name" and isinstance(p2.orelse, ast.Constant) and p2.orelse.value == ""
        ctx.ob(num, "K6", "priority (by name) and arrival are written on a pipeline's first row only, blank/None on the others", okh, tr, ys[0], construct="first-row-only columns",
               detail=f"arrival_seconds={norm.U(norm.subst(arr, le)) if arr is not None else None}; priority={norm.U(norm.subst(pri, le)) if pri is not None else None}")
        # (4) numbering
        opid, par = kw.get("operator_id"), kw.get("parents")
        oknum = False
        d = ""
        if lp is not None and isinstance(lp.iter, ast.Call) and norm.is_name(lp.iter.func, "enumerate") and isinstance(lp.target, ast.Tuple):
            iv, ov = lp.target.elts[0].id, lp.target.elts[1].id
            lst = lp.iter.args[0]
            lst_def = single_defs(tr).get(lst.id) if isinstance(lst, ast.Name) else lst
            order_ok = lst_def is not None and norm.U(lst_def) == f"list({ps[1]}.values.node_lookup.values())"
            id_ok = opid is not None and norm.U(norm.subst(opid, le)) == f"f'op{{{iv} + 1}}'"
            # parents: for parent in operator.parents: idx = operators.index(parent); ids.append(f"op{idx+1}") ; ';'.join(ids)
            pj = norm.subst(par, le) if par is not None else None
            par_ok = False
            if isinstance(pj, ast.Call) and isinstance(pj.func, ast.Attribute) and pj.func.attr == "join" and isinstance(pj.func.value, ast.Constant) and pj.func.value.value == ";" \
                    and len(pj.args) == 1 and isinstance(pj.args[0], ast.ListComp):
                ldef = pj.args[0]
                if len(ldef.generators) == 1 and not ldef.generators[0].ifs and isinstance(ldef.generators[0].target, ast.Name) and norm.U(ldef.generators[0].iter) == f"{ov}.parents":
                    par_ok = norm.U(ldef.elt) == f"f'op{{{norm.U(lst)}.index({ldef.generators[0].target.id}) + 1}}'"
            if isinstance(pj, ast.Call) and isinstance(pj.func, ast.Attribute) and pj.func.attr == "join" and isinstance(pj.func.value, ast.Constant) and pj.func.value.value == ";" \
                    and len(pj.args) == 1 and isinstance(pj.args[0], ast.Name):
                L = pj.args[0].id
                ldef = le.get(L)
                if isinstance(ldef, ast.ListComp) and len(ldef.generators) == 1 and not ldef.generators[0].ifs and isinstance(ldef.generators[0].target, ast.Name) \
                        and norm.U(ldef.generators[0].iter) == f"{ov}.parents":
                    par_ok = norm.U(ldef.elt) == f"f'op{{{norm.U(lst)}.index({ldef.generators[0].target.id}) + 1}}'"
                apps = [c for c in ast.walk(lp) if isinstance(c, ast.Call) and isinstance(c.func, ast.Attribute) and c.func.attr == "append" and norm.is_name(c.func.value, L)]
                if len(apps) == 1:
                    pl_ = enclosing_for(apps[0], tr.node)
                    if pl_ is not None and pl_ is not lp and norm.U(pl_.iter) == f"{ov}.parents" and isinstance(pl_.target, ast.Name):
                        ple = loop_env(pl_)
                        got = norm.U(norm.subst(apps[0].args[0], ple))
                        d_got = got
                        par_ok = par_ok or got == f"f'op{{{norm.U(lst)}.index({pl_.target.id}) + 1}}'"
            oknum = order_ok and id_ok and par_ok
            d = f"operator list in creation order (node_lookup.values()): {order_ok}; operator_id = op<i+1>: {id_ok}; parents = ';'-joined op<index of parent + 1> in parent order: {par_ok}"
        ctx.ob(4, "K6", "operators are numbered op<i+1> by their position in the pipeline's creation-order list, and parent references use the parent's position in that same list",
               oknum, tr, ys[0], construct="operator numbering", detail=d)
        # reverse lookup of the scaling law
        cs = kw.get("cpu_scaling")
        okc = False
        if cs is not None and isinstance(cs, ast.Name):
            nm = cs.id
            g = cfg_of(tr, subst_env=False)
            nd = [n for n in ast.walk(lp) if isinstance(n, ast.Assign) and norm.is_name(n.targets[0], nm)]
            if len(nd) == 1 and isinstance(nd[0].value, ast.Call) and norm.is_name(nd[0].value.func, "next") and len(nd[0].value.args) == 2 \
                    and isinstance(nd[0].value.args[1], ast.Constant) and nd[0].value.args[1].value is None and isinstance(nd[0].value.args[0], ast.GeneratorExp):
                ge = nd[0].value.args[0]
                gen = ge.generators[0]
                if norm.U(gen.iter) == "Segment.SCALING_FUNCS.items()" and isinstance(gen.target, ast.Tuple) and len(gen.ifs) == 1:
                    kn, fnv = (x.id for x in gen.target.elts)
                    okeq = norm.is_name(ge.elt, kn) and norm.nnf(gen.ifs[0]) == norm.mk_cmp("==", fnv, f"{segn}.scaling_func")
                    raises = [n for n in ast.walk(lp) if isinstance(n, ast.If) and norm.nnf(n.test) == ("cmp", "is", nm, "None") and any(isinstance(x, ast.Raise) for x in n.body)]
                    okc = okeq and len(raises) == 1 and g.dominates(raises[0], ys[0])
            fl = [n for n in ast.walk(lp) if isinstance(n, ast.For) and norm.U(n.iter) == "Segment.SCALING_FUNCS.items()"]
            if len(fl) == 1 and isinstance(fl[0].target, ast.Tuple):
                kn, fnv = (x.id for x in fl[0].target.elts)
                g = cfg_of(tr, subst_env=False)
                sets = [n for n in ast.walk(fl[0]) if isinstance(n, ast.Assign) and norm.is_name(n.targets[0], nm) and norm.is_name(n.value, kn)]
                if kn == nm:
                    # the scan variable itself is the name: it keeps the registered key where the scan is left with `break`
                    sets = [n for b_ in fl[0].body for n in ast.walk(b_) if isinstance(n, ast.Break) and enclosing_loop_any(n, tr.node) is fl[0]]
                okeq = bool(sets) and all(norm.entails(g.facts_at(n), norm.mk_cmp("==", fnv, f"{segn}.scaling_func")) for n in sets)
                # the row is reached only through such an assignment: every other way (no name found) ends in the refusal — whether that is
                # written as `if name is None: raise` after the scan or as the scan's `else: raise`
                noname = g.escapes(lp, {g.node_of(n).id for n in sets}, {g.node_of(ys[0]).id}) if sets else 0
                okc = okc or (okeq and noname is None)
        ctx.ob(5, "K2", "the scaling law is written by the name under which the segment's function is registered; a function without a name is refused (raise)", okc, tr, ys[0],
               construct="reverse lookup of cpu_scaling", detail=f"cpu_scaling={norm.U(cs) if cs is not None else None}")
    # reader side of the numbering
    g = cfg_of(cp, subst_env=False)
    ops = calls_named(cp, "new_operator")
    okr = False
    d = f"{len(ops)} new_operator call(s)"
    if len(ops) == 1:
        lp = enclosing_for(ops[0], cp.node)
        if lp is not None and norm.is_name(lp.iter, cp.params()[1]) and isinstance(lp.target, ast.Name):
            rv = lp.target.id
            le = {}
            for n in ast.walk(lp):
                if isinstance(n, ast.Assign) and len(n.targets) == 1 and isinstance(n.targets[0], ast.Name):
                    le.setdefault(n.targets[0].id, []).append(n)
            reg = [n for n in ast.walk(lp) if isinstance(n, ast.Assign) and isinstance(n.targets[0], ast.Subscript) and norm.U(n.targets[0].slice) == f"{rv}.operator_id"]
            opn = parent(ops[0]).targets[0].id if isinstance(parent(ops[0]), ast.Assign) else None
            okreg = len(reg) == 1 and opn and norm.is_name(reg[0].value, opn) and g.dominates(ops[0], reg[0])
            D = norm.U(reg[0].targets[0].value) if reg else None
            # parents resolved by raising subscript on D, in the order listed
            arg = ops[0].args[0] if ops[0].args else None
            pdefs = le.get(arg.id, []) if isinstance(arg, ast.Name) else []
            okpar = False
            for n in pdefs:
                v = n.value
                if isinstance(v, ast.ListComp) and len(v.generators) == 1 and not v.generators[0].ifs and isinstance(v.elt, ast.Subscript) and norm.U(v.elt.value) == D \
                        and norm.is_name(v.elt.slice, v.generators[0].target.id):
                    src = v.generators[0].iter
                    srcd = le.get(src.id, [None])[0] if isinstance(src, ast.Name) else None
                    if srcd is not None and ".split(';')" in norm.U(srcd.value) and f"{rv}.parents" in norm.U(srcd.value):
                        okpar = True
            segadd = [c for c in ast.walk(lp) if isinstance(c, ast.Call) and norm.call_name(c) == "add_segment" and opn and norm.is_name(c.func.value, opn)]
            okr = okreg and okpar and len(segadd) == 1
            d = f"operators created in row order and registered under their operator_id: {okreg}; parents looked up with a raising subscript among those already created, in listed order: {okpar}; one segment added: {len(segadd) == 1}"
    ctx.ob(4, "K6", "the reader creates the operators in row order, resolves each parent id among the operators already created (an undefined parent raises) and gives each operator its segment",
           okr, cp, ops[0] if ops else cp.node, construct="reader DAG construction", detail=d)


def _reads_col(e: ast.expr, rp: str, col: str) -> bool:
    if isinstance(e, ast.Subscript) and norm.is_name(e.value, rp) and isinstance(e.slice, ast.Constant) and e.slice.value == col:
        return True
    if isinstance(e, ast.Call) and isinstance(e.func, ast.Attribute) and e.func.attr == "get" and norm.is_name(e.func.value, rp) and e.args \
            and isinstance(e.args[0], ast.Constant) and e.args[0].value == col:
        return len(e.args) == 1 or (isinstance(e.args[1], ast.Constant) and e.args[1].value in ("", None))
    return False


def check_none_vs_zero(ctx, num=3):
    """Optional[float] fields must not be tested by truthiness anywhere in the package."""
    P = ctx.P
    n_tests = 0
    for f in P.all_funcs(include_template=False):
        for n in own_nodes(f.node):
            if not (isinstance(n, ast.Attribute) and n.attr in OPTIONAL and isinstance(n.ctx, ast.Load)):
                continue
            p_ = parent(n)
            ctxk = None
            if isinstance(p_, ast.Compare):
                ops = p_.ops
                others = [p_.left] + p_.comparators
                if all(isinstance(o, (ast.Is, ast.IsNot)) for o in ops) and any(isinstance(x, ast.Constant) and x.value is None for x in others):
                    n_tests += 1
                    ctx.ob(num, "K2", f"the optional field {n.attr} is tested with `is None` / `is not None` (so an explicit 0 is distinct from unset)", True, f, p_, detail=norm.U(p_))
                continue
            # truthiness contexts
            q = n
            while isinstance(parent(q), ast.UnaryOp) and isinstance(parent(q).op, ast.Not):
                q = parent(q)
            pq = parent(q)
            if isinstance(pq, ast.BoolOp):
                ctxk = f"operand of `{norm.U(pq)}`"
            elif isinstance(pq, (ast.If, ast.While, ast.IfExp)) and pq.test is q:
                ctxk = f"test of `{stmt_text(pq) if isinstance(pq, ast.stmt) else norm.U(pq)}`"
            elif isinstance(pq, ast.Assert) and pq.test is q:
                ctxk = "assert"
            elif isinstance(pq, ast.Call) and norm.is_name(pq.func, "bool"):
                ctxk = "bool()"
            elif q is not n:
                ctxk = "not"
            if ctxk:
                n_tests += 1
                ctx.ob(num, "K2", f"the optional field {n.attr} is never tested by truthiness (0 / 0.0 would be taken for unset)", False, f, n, construct=f"truthiness of .{n.attr} in {ctxk}"[:180],
                       detail=f"`{norm.U(n)}` used as a truth value in {ctxk}")
    ctx.count_min("None-tests of the optional fields", n_tests, 6)


def check_refusals(ctx, num=5):
    P = ctx.P
    cp = P.fn(CSV, "CSVWorkloadReader.create_pipeline_from_batch")
    g = cfg_of(cp, subst_env=False)
    raises = [n for n in own_nodes(cp.node) if isinstance(n, ast.Raise)]
    want = {
        "first row without priority": lambda fs, rv, iv: norm.entails(fs, norm.mk_cmp("==", "0", iv)) and norm.entails(fs, ("truth", f"{rv}.priority", False)),
        "first row without arrival": lambda fs, rv, iv: norm.entails(fs, norm.mk_cmp("==", "0", iv)) and norm.entails(fs, ("cmp", "is", f"{rv}.arrival_seconds", "None")),
        "later row with priority": lambda fs, rv, iv: norm.entails(fs, norm.mk_cmp("!=", "0", iv)) and norm.entails(fs, ("truth", f"{rv}.priority", True)),
        "later row with arrival": lambda fs, rv, iv: norm.entails(fs, norm.mk_cmp("!=", "0", iv)) and norm.entails(fs, ("cmp", "isnot", f"{rv}.arrival_seconds", "None")),
    }
    found = {k: None for k in want}
    for r in raises:
        lp = enclosing_for(r, cp.node)
        if lp is None or not (isinstance(lp.iter, ast.Call) and norm.is_name(lp.iter.func, "enumerate")) or not isinstance(lp.target, ast.Tuple):
            continue
        iv, rv = lp.target.elts[0].id, lp.target.elts[1].id
        fs = g.facts_at(r)
        for k, pred in want.items():
            if pred(fs, rv, iv):
                found[k] = (r, True)
    # ... and these are the only reasons: a further `raise` rejects traces the writer may well have produced (a zero, an unusual but legal value)
    bp = cp.params()[1] if len(cp.params()) > 1 else "batch"
    matched = {id(v[0]) for v in found.values() if v}
    for r in raises:
        if id(r) in matched:
            continue
        fs = g.facts_at(r)
        lp = enclosing_for(r, cp.node)
        rv = lp.target.elts[1].id if lp is not None and isinstance(lp.target, ast.Tuple) and len(lp.target.elts) == 2 and isinstance(lp.target.elts[1], ast.Name) else None
        iv = lp.target.elts[0].id if rv else None
        env_ = single_defs(cp)

        def _is_pid(term):
            """a pipeline id: the field itself, or a local bound once to one (whatever the local is called)"""
            return term.endswith(".pipeline_id") or term == "pipeline_id" or (term in env_ and norm.U(env_[term]).endswith(".pipeline_id"))
        known = norm.entails(fs, ("truth", bp, False)) \
            or any(a[0] == "cmp" and a[1] == "!=" and _is_pid(a[2]) and _is_pid(a[3]) for a in fs) \
            or (rv is not None and any(pred(fs, rv, iv) for pred in want.values()))
        ctx.ob(num, "K2", "the reader refuses a pipeline only for the documented malformations (empty group, mixed pipeline ids, priority / arrival on the wrong rows); "
               "everything the writer can produce is accepted", known, cp, r, construct="no further refusal",
               detail=f"facts at the raise: {sorted(norm.show(x) for x in fs)[:8]}")
    for k, v in found.items():
        ctx.ob(num, "K2", f"a trace with a {k} is refused with an error", v is not None and v[1], cp, v[0] if v else cp.node, construct=f"refusal: {k}",
               detail="raise reached under exactly this condition" if v and v[1] else ("raise found but under additional conditions" if v else "no raise under this condition"))
    # the validation loop covers every row of the batch and precedes pipeline construction
    vl = [enclosing_for(v[0], cp.node) for v in found.values() if v]
    pl = calls_named(cp, "Pipeline")
    okv = bool(vl) and all(l is vl[0] for l in vl) and norm.U(vl[0].iter) == f"enumerate({cp.params()[1]})" and bool(pl) and g.dominates(vl[0], pl[0])
    ctx.ob(num, "K3", "every row of a pipeline is validated before the pipeline is built", okv, cp, vl[0] if vl else cp.node, construct="validation loop over the whole batch",
           detail=stmt_text(vl[0]) if vl else "none")
    si = P.fn(PL, "Segment.__init__")
    gs = cfg_of(si, subst_env=False)
    rs = [n for n in own_nodes(si.node) if isinstance(n, ast.Raise)]
    ok = any(norm.entails(gs.facts_at(r), ("cmp", "notin", "cpu_scaling", "Segment.SCALING_FUNCS")) and norm.entails(gs.facts_at(r), ("truth", "callable(cpu_scaling)", False)) for r in rs)
    ctx.ob(num, "K2", "an unknown scaling law is refused when the segment is created", ok, si, rs[0] if rs else si.node, construct="refusal: unknown scaling law",
           detail=f"{len(rs)} raise(s) in Segment.__init__")


def enclosing_loop_any(n, root):
    p_ = parent(n)
    while p_ is not None and p_ is not root:
        if isinstance(p_, (ast.For, ast.While)):
            return p_
        p_ = parent(p_)
    return None


def check_writer_ids(ctx, num=2):
    """Pipelines are told apart in the file by their id alone (the reader groups consecutive rows with the same id): every pipeline
    written must get an id of its own."""
    P = ctx.P
    wr = P.fn(CSV, "WorkloadTraceGenerator.generate_rows")
    ctx.touch(wr)
    g = cfg_of(wr, subst_env=False)
    calls = [c for c in own_nodes(wr.node) if isinstance(c, ast.Call) and norm.call_name(c) == "_pipeline_to_rows"]
    ctx.count_min("_pipeline_to_rows call sites in generate_rows", len(calls), 1)
    for c in calls:
        lp = enclosing_for(c, wr.node)
        ida = c.args[1] if len(c.args) >= 2 else norm.kwarg(c, "pipeline_id")
        ok, d = False, f"id argument: {norm.U(ida) if ida is not None else None}"
        if lp is not None and isinstance(ida, (ast.Name, ast.JoinedStr)):
            if isinstance(ida, ast.JoinedStr):
                # the id is formed in the call itself
                st_ = c
                while not isinstance(st_, ast.stmt):
                    st_ = parent(st_)
                defs = [ast.copy_location(ast.Assign(targets=[ast.Name(id="<id>", ctx=ast.Store())], value=ida), st_)]
                g.stmt_node[id(defs[0])] = g.stmt_node[id(st_)]
            else:
                defs = [n for n in ast.walk(lp) if isinstance(n, ast.Assign) and any(norm.is_name(t, ida.id) for t in n.targets)]
            if len(defs) == 1 and isinstance(defs[0].value, ast.JoinedStr):
                names = [x.id for x in ast.walk(defs[0].value) if isinstance(x, ast.Name)]
                cn = names[0] if len(names) == 1 else None
                incs = [n for n in own_nodes(wr.node) if isinstance(n, ast.AugAssign) and cn and norm.is_name(n.target, cn)]
                others = [n for n in own_nodes(wr.node) if isinstance(n, ast.Assign) and cn and any(norm.is_name(t, cn) for t in n.targets) and any(a is lp for a in _anc14(n))]
                if cn and len(incs) == 1 and not others:
                    hid = g.node_of(lp).id
                    every = g.path_avoiding(hid, {hid, g.exit.id}, {g.node_of(incs[0]).id}, edge_ok=lambda a, b, lab: not (a == hid and lab == "done")) is None
                    mono = isinstance(incs[0].op, (ast.Add, ast.Sub)) and isinstance(incs[0].value, ast.Constant) and isinstance(incs[0].value.value, int) and incs[0].value.value != 0
                    order = g.dominates(incs[0], defs[0]) and g.dominates(defs[0], c) and enclosing_for(incs[0], wr.node) is lp
                    ok = every and mono and order
                    d = (f"id = {norm.U(defs[0].value)}; `{stmt_text(incs[0])}` once per pipeline: {every}; strictly monotone: {mono}; counter stepped, then the id formed, then the rows written: {order}")
        ctx.ob(num, "K3", "every pipeline written to a trace gets an id of its own (a counter stepped once per pipeline before the id is formed)", ok, wr, c,
               construct="fresh pipeline id per written pipeline", detail=d)


def check_arrival_source(ctx, num=2):
    """What batch_by_pipeline hands on for a group of rows: the arrival time written on the group's *first* row (the only row that
    carries one) and the pipeline built from that very group."""
    P = ctx.P
    f = P.fn(CSV, "CSVWorkloadReader.batch_by_pipeline")
    ctx.touch(f)
    from ..util import single_defs
    g = cfg_of(f, subst_env=False)
    ys = [c for c in own_nodes(f.node) if isinstance(c, ast.Call) and norm.call_name(c) == "PipelineArrival"]
    ctx.count_min("PipelineArrival( sites in batch_by_pipeline", len(ys), 1)
    from . import sched
    for c in ys:
        a = norm.kwarg(c, "arrival_seconds", 0)
        p_ = norm.kwarg(c, "pipeline", 1)

        def resolve(e):
            if isinstance(e, ast.Name):
                ds = [d for d in sched.reaching_defs(f, g, c, e.id) if isinstance(d, ast.Assign)]
                if len(ds) == 1:
                    return ds[0].value
            return e
        ar, pr = resolve(a) if a is not None else None, resolve(p_) if p_ is not None else None
        grp = None
        if isinstance(pr, ast.Call) and norm.call_name(pr) == "create_pipeline_from_batch" and len(pr.args) == 1:
            grp = norm.U(pr.args[0])
        ok = grp is not None and ar is not None and norm.U(ar) == f"{grp}[0].arrival_seconds"
        ctx.ob(num, "K6", "a pipeline read from a trace carries the arrival time of the first row of its own group, and is built from that group", ok, f, c,
               construct="PipelineArrival(group[0].arrival_seconds, create_pipeline_from_batch(group))", detail=f"arrival = {norm.U(ar) if ar is not None else None}; pipeline = {norm.U(pr) if pr is not None else None}")


def _anc14(n):
    out = []
    p_ = parent(n)
    while p_ is not None:
        out.append(p_)
        p_ = parent(p_)
    return out


REFUSAL_ERRORS = {"ValueError", "KeyError", "EudoxiaException", "Exception", "BaseException", "LookupError", "TypeError"}


def check_refusals_propagate(ctx, num=5):
    """Error discipline on the loading path: the reader refuses a malformed trace by raising (ValueError / KeyError /
    EudoxiaException) — lazily, while its generators are consumed.  No handler on the way from the reader to the simulator may
    swallow such an error: a handler either names only `StopIteration` (the end of the trace) or re-raises."""
    P = ctx.P
    scopes = [f for f in (list(P.mod(CSV).funcs.values()) + [f for f in P.mod(WL).funcs.values() if f.qual.startswith("WorkloadTrace")]
                          + [f for f in P.mod(SIM).funcs.values() if f.name in ("get_workload", "run_simulator")])]
    n_h = 0
    for f in scopes:
        for t in own_nodes(f.node):
            if not isinstance(t, ast.Try):
                continue
            for h in t.handlers:
                n_h += 1
                names = []
                if h.type is None:
                    names = ["<bare except>"]
                elif isinstance(h.type, ast.Tuple):
                    names = [norm.U(e).split(".")[-1] for e in h.type.elts]
                else:
                    names = [norm.U(h.type).split(".")[-1]]
                reraises = bool(h.body) and isinstance(h.body[-1], ast.Raise)
                swallowed = [x for x in names if x in REFUSAL_ERRORS or x == "<bare except>"]
                ctx.ob(num, "K12", "no handler on the trace-loading path swallows the error with which a malformed trace is refused "
                       "(a handler catches only the end of the iteration, or other errors it re-raises)", not swallowed or reraises, f, h,
                       construct=f"except {', '.join(names)} in {f.qual}", detail=f"catches {names}; re-raises: {reraises}")
    ctx.count_min("exception handlers on the trace-loading path", n_h, 1)


def run(ctx):
    check_refusals_propagate(ctx, 5)
    dct, wr, pr, rp = check_tables(ctx, 1)
    check_flows(ctx, dct, wr, pr, rp, 2)
    check_writer_ids(ctx, 2)
    check_arrival_source(ctx, 2)
    check_none_vs_zero(ctx, 3)
    check_refusals(ctx, 5)
    from . import c01
    c01.check_dag(Renumber(ctx, {10: 4}, drop=(9,)))      # the reader rebuilds each parent list through add_node, in the order the row names them
    c05.check_scaling(_R(ctx, {1: 6, 2: 6, 3: 6, 4: 6}), 6)
    c13.check_flush(ctx, 7, only=("batch_by_pipeline",))


class _R:
    def __init__(self, ctx, table):
        self._ctx, self._t = ctx, table

    def __getattr__(self, k):
        return getattr(self._ctx, k)

    def ob(self, num, *a, **kw):
        return self._ctx.ob(self._t.get(num, num), *a, **kw)
