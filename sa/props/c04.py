"""C04 — memory limits hold after every tick and reported usage is the real usage."""
from __future__ import annotations

import ast
from typing import List

from .. import norm, ratform
from ..model import own_nodes, stmt_text, parent
from ..util import attr_writes, cfg_of, calls_named, package_calls, single_defs
from .common import *
from . import pool, c11

EXPLANATION = (
    "Static decision of the structural clauses of C04.  (1) K1: consumed_ram_gb is written only by ResourcePool.__init__, "
    "Container.set_current_memory_usage and ResourcePool._reconcile_consumed_ram; a container's _current_memory only by its "
    "constructor and set_current_memory_usage.  (2) K7: set_current_memory_usage adds exactly (new - old) to the pool's counter, "
    "the old value being read before it is overwritten.  (3) K4 invariant maintenance of consumed_ram_gb = sum over active "
    "containers of their current memory: whenever a container enters or leaves the active list, either it is fresh (memory 0 by "
    "construction) or a re-sum (_reconcile_consumed_ram) is executed on every path before the counter is next consumed (OOM "
    "killer) or the tick returns.  (4) the re-sum is sum(c.get_current_memory_usage() for c in active_containers) and the getter "
    "returns the field.  (5) Container.kill is called only from the OOM killer.  (6) every kill is justified by its guard: the "
    "victim's own usage > own allocation, or the pool's live usage > capacity.  (7) sibling predicates agree: the generator "
    "freezes a container under exactly the predicate under which the killer's first pass kills it.  (8) per tick: all active "
    "containers tick, then the killer, then the collection of ended containers (so nothing over a limit survives a tick).")
UNDECIDED = ("float drift of the incrementally maintained sum between re-sums; that the sum of allocations <= capacity without "
             "overcommit is C03 (admission) and is not re-proved for floats")
ASSUMPTIONS = COMMON_ASSUMPTIONS


def check_writers(ctx, num=1):
    P = ctx.P
    allowed = {"consumed_ram_gb": {f"{RP}::ResourcePool.__init__", f"{CT}::Container.set_current_memory_usage", f"{RP}::ResourcePool._reconcile_consumed_ram"},
               "_current_memory": {f"{CT}::Container.__init__", f"{CT}::Container.set_current_memory_usage"}}
    for attr, al in allowed.items():
        ws = attr_writes(P, attr)
        ctx.count_min(f"writers of {attr}", len(ws), len(al))
        for w in ws:
            who = f"{w.fn.mod.rel}::{w.fn.qual}"
            ctx.ob(num, "K1", f"{attr} is written only by {', '.join(sorted(a.split('::')[1] for a in al))}", who in al and w.how != "dynamic", w.fn, w.node,
                   detail=f"{w.how} in {who}")
    ci = P.fn(CT, "Container.__init__")
    z = [n for n in own_nodes(ci.node) if isinstance(n, (ast.Assign, ast.AnnAssign)) and self_attr(n.targets[0] if isinstance(n, ast.Assign) else n.target, "_current_memory")]
    ok = len(z) == 1 and isinstance(z[0].value, ast.Constant) and z[0].value.value == 0
    ctx.ob(num, "K1", "a fresh container uses no memory", ok, ci, z[0] if z else ci.node, construct="self._current_memory = 0.0", detail=f"{[stmt_text(x) for x in z]}")
    ri = P.fn(RP, "ResourcePool.__init__")
    z = [n for n in own_nodes(ri.node) if isinstance(n, ast.Assign) and any(self_attr(t, "consumed_ram_gb") for t in n.targets)]
    ok = len(z) == 1 and isinstance(z[0].value, ast.Constant) and z[0].value.value == 0
    ctx.ob(num, "K1", "a new pool reports zero usage", ok, ri, z[0] if z else ri.node, construct="self.consumed_ram_gb = 0.0", detail=f"{[stmt_text(x) for x in z]}")


def check_delta(ctx, num=2):
    P = ctx.P
    f = P.fn(CT, "Container.set_current_memory_usage")
    ctx.touch(f)
    g = cfg_of(f, subst_env=False)
    params = f.params()
    ctx.need(len(params) >= 2, "set_current_memory_usage must take (self, new_memory)")
    newp = params[1]
    env = single_defs(f)
    augs = [n for n in own_nodes(f.node) if isinstance(n, ast.AugAssign) and isinstance(n.target, ast.Attribute) and n.target.attr == "consumed_ram_gb"]
    sets = [n for n in own_nodes(f.node) if isinstance(n, ast.Assign) and any(self_attr(t, "_current_memory") for t in n.targets)]
    okp = len(augs) == 1 and norm.U(augs[0].target.value) == "self.pool"
    ctx.ob(num, "K6", "the counter updated is the one of the container's own pool", okp, f, augs[0] if augs else f.node, construct="self.pool.consumed_ram_gb += ...",
           detail=f"{[stmt_text(a) for a in augs]}")
    if len(augs) == 1 and len(sets) == 1:
        a = augs[0]
        sign = 1 if isinstance(a.op, ast.Add) else -1 if isinstance(a.op, ast.Sub) else 0
        val = a.value if sign == 1 else ast.UnaryOp(ast.USub(), a.value)
        okf = sign != 0 and ratform.same(val, ratform.parse(f"{newp} - self._current_memory"), env)
        ctx.ob(num, "K7", "the pool counter changes by exactly (new usage - old usage)", okf, f, a,
               detail=f"delta over the reals: {ratform.to_rat(val, env).text() if sign else '?'}; required: {newp} - self._current_memory")
        # where is the old value read? before the overwrite
        reads = []
        if isinstance(a.value, ast.Name) and a.value.id in env:
            reads = [n for n in own_nodes(f.node) if isinstance(n, ast.Assign) and len(n.targets) == 1 and norm.is_name(n.targets[0], a.value.id)]
        else:
            reads = [a]
        sid = g.node_of(sets[0]).id
        ok = bool(reads) and all(g.dominates(r, sets[0]) and g.node_of(r).id != sid and g.path_avoiding(sid, {g.node_of(r).id}, set()) is None for r in reads)
        ctx.ob(num, "K3", "the old usage is read before it is overwritten with the new one", ok, f, sets[0],
               detail=f"old value read at L{[r.lineno for r in reads]}, store at L{sets[0].lineno}")
        oks = norm.U(sets[0].value) == newp
        ctx.ob(num, "K6", "the container's usage becomes the value given", oks, f, sets[0], detail=stmt_text(sets[0]))
        for n in (a, sets[0]):
            byp = g.path_avoiding(g.entry.id, {g.exit.id}, {g.node_of(n).id})
            ctx.ob(num, "K3", "both the field and the pool counter are updated on every path", byp is None, f, n, construct=f"unconditional: {stmt_text(n)}",
                   detail="on every path" if byp is None else "can be bypassed")
    else:
        ctx.ob(num, "K7", "set_current_memory_usage has one counter update and one field store", False, f, f.node, construct="delta update",
               detail=f"{len(augs)} counter updates, {len(sets)} field stores")
    gt = P.fn(CT, "Container.get_current_memory_usage")
    ctx.touch(gt)
    rs = [r for r in own_nodes(gt.node) if isinstance(r, ast.Return)]
    ok = len(rs) == 1 and rs[0].value is not None and norm.U(rs[0].value) == "self._current_memory"
    ctx.ob(num, "K6", "get_current_memory_usage() returns the field", ok, gt, rs[0] if rs else gt.node, detail=f"{[stmt_text(r) for r in rs]}")
    # every memory change of a container goes through the setter: in the generator, memory is only set by the setter (K1 above)


def check_invariant(ctx, num=3):
    P = ctx.P
    pa = pool.pool_analysis(P)
    f, g = pa.f, pa.g
    recs = [c for c in calls_named(f, "_reconcile_consumed_ram") if isinstance(c.func, ast.Attribute) and norm.is_name(c.func.value, "self")]
    rec_ids = {g.node_of(c).id for c in recs}
    consumers = {g.node_of(c).id for c in pool.may_kill_calls(P, f)}
    consumers |= {g.exit.id}
    for mv in pa.moves:
        if "active" not in mv.kind:
            continue
        if mv.kind == "new->active":
            ctx.ob(num, "K4", "a container entering the active list is fresh (its memory is 0 by construction), so the sum is unchanged", mv.ctor is not None,
                   f, mv.anchor, detail="constructed in the same block; Container.__init__ sets _current_memory = 0 (obligation #1)")
            continue
        # the list operation that changes active_containers
        site = [s for s in mv.sites if isinstance(s, ast.Call) and pool._list_attr(s.func.value) == "active_containers"]
        if not site:
            continue
        s0 = site[0]
        loopL = mv.drain_loop.iter.id if mv.drain_loop is not None and isinstance(mv.drain_loop.iter, ast.Name) else None

        def edge_ok(a, b, lab, loopL=loopL):
            # having executed the body of `for x in L`, L is non-empty: the branch `not L` is infeasible
            if loopL and isinstance(lab, tuple) and lab[0] == "cond" and ("truth", loopL, False) in norm.atoms_true(lab[1]):
                return False
            return True
        pth = g.path_avoiding(g.node_of(s0).id, consumers, rec_ids, edge_ok=edge_ok)
        ctx.ob(num, "K4", f"after the move {mv.kind} the pool's usage is re-summed over the remaining active containers before it is consumed again "
               "(OOM killer) or the tick returns", pth is None, f, s0,
               detail="every path from the removal to the next consumer passes self._reconcile_consumed_ram()" if pth is None
               else f"path without a re-sum: {g.describe_path(pth)}")
    r = P.fn(RP, "ResourcePool._reconcile_consumed_ram")
    ctx.touch(r)
    st = [n for n in own_nodes(r.node) if isinstance(n, ast.Assign) and any(self_attr(t, "consumed_ram_gb") for t in n.targets)]
    ok = False
    d = f"{[stmt_text(s) for s in st]}"
    if len(st) == 1:
        from ..util import single_defs as _sd4
        v = norm.subst(st[0].value, _sd4(r))        # `snapshot = [usage for c in active]; consumed = sum(snapshot)`: the local is looked through
        if isinstance(v, ast.Call) and norm.call_name(v) in ("sum", "fsum") and len(v.args) >= 1 and isinstance(v.args[0], ast.Call) and norm.call_name(v.args[0]) in ("list", "tuple") \
                and len(v.args[0].args) == 1 and isinstance(v.args[0].args[0], (ast.GeneratorExp, ast.ListComp)):
            v = ast.Call(func=v.func, args=[v.args[0].args[0]] + v.args[1:], keywords=v.keywords)
        if isinstance(v, ast.Call) and norm.call_name(v) in ("sum", "fsum") and len(v.args) >= 1 and isinstance(v.args[0], (ast.GeneratorExp, ast.ListComp)):
            ge = v.args[0]
            if len(ge.generators) == 1 and not ge.generators[0].ifs and isinstance(ge.generators[0].target, ast.Name) \
                    and pool._list_attr(ge.generators[0].iter) == "active_containers":
                cv = ge.generators[0].target.id
                ok = norm.U(ge.elt) in [u.format(c=cv) for u in c11.USAGE_FORMS]
                if len(v.args) > 1:
                    ok = ok and isinstance(v.args[1], ast.Constant) and v.args[1].value == 0
        rg = cfg_of(r)
        ok = ok and rg.path_avoiding(rg.entry.id, {rg.exit.id}, {rg.node_of(st[0]).id}) is None
    ctx.ob(4, "K7", "the re-sum is the sum of the current usage of exactly the active containers", ok, r, st[0] if st else r.node,
           construct="self.consumed_ram_gb = sum(c.get_current_memory_usage() for c in self.active_containers)", detail=d)
    gq = P.fn(RP, "ResourcePool.get_consumed_ram_gb")
    rs = [x for x in own_nodes(gq.node) if isinstance(x, ast.Return)]
    ok = len(rs) == 1 and rs[0].value is not None and norm.U(rs[0].value) == "self.consumed_ram_gb"
    ctx.ob(4, "K6", "the usage a pool reports is its counter", ok, gq, rs[0] if rs else gq.node, detail=f"{[stmt_text(x) for x in rs]}")


def check_kills(ctx):
    P = ctx.P
    kfs = c11.killer_funcs(P)
    sites = [(fn_, c) for fn_, c in package_calls(P, "kill") if isinstance(c.func, ast.Attribute)]
    ctx.count_min("Container.kill call sites", len(sites), 1)
    for fn_, c in sites:
        ok = fn_.mod.rel == RP and fn_.cls == "ResourcePool"
        ctx.ob(5, "K1", "containers are killed only by the pool's OOM killer (a ResourcePool method)", ok, fn_, c, detail=f"kill call in {fn_.mod.rel}::{fn_.qual}")
    for kf in kfs:
        _check_kills_in(ctx, P, kf)
    _check_freeze(ctx, P, any(c11.classify_kills(kf, cfg_of(kf))[0] for kf in kfs))


def _check_kills_in(ctx, P, kf):
    ctx.touch(kf)
    g = cfg_of(kf)
    s1, s2, bad = c11.classify_kills(kf, g)
    for k in s1:
        ctx.ob(6, "K2", "an individual kill requires the victim's own usage > its own allocation", True, kf, k,
               detail=f"facts at the kill: {sorted(norm.show(x) for x in g.facts_at(k))}")
        lp = enclosing_for(k, kf.node)
        ok = lp is not None and pool._list_attr(lp.iter) == "active_containers" and isinstance(lp.target, ast.Name) and norm.is_name(k.func.value, lp.target.id)
        comp = None
        if ok:
            hid = g.node_of(lp).id
            cv = lp.target.id
            nreq = [("cmp", "<=", u.format(c=cv), f"{cv}.assignment.ram") for u in c11.USAGE_FORMS]

            def edge_ok(a, b, lab, hid=hid, nreq=nreq):
                if a == hid and lab == "done":
                    return False
                if isinstance(lab, tuple) and lab[0] == "cond" and any(x in norm.atoms_true(lab[1]) for x in nreq):
                    return False
                return True
            comp = g.path_avoiding(hid, {hid, g.exit.id}, {g.node_of(k).id}, edge_ok=edge_ok)
            byp = g.path_avoiding(g.entry.id, {g.exit.id}, {hid})
            ok = comp is None and byp is None
        ctx.ob(6, "K2", "every active container whose usage exceeds its allocation is killed in that tick (no running container stays over its limit)", ok,
               kf, k, construct="individual-limit pass completeness",
               detail=f"loop over active containers: {stmt_text(lp) if lp else None}; every over-limit container reaches the kill: {comp is None}")
    for k in s2:
        ctx.ob(6, "K2", "a pool-level kill requires the pool's live usage > capacity", True, kf, k,
               detail=f"facts at the kill: {sorted(norm.show(x) for x in g.facts_at(k))}")
    for k in bad:
        ctx.ob(6, "K2", "a container is killed only if its own demand exceeds its allocation or the pool's usage exceeds capacity", False, kf, k,
               detail=f"facts at the kill: {sorted(norm.show(x) for x in g.facts_at(k))}")
    # after the pool-level loop the usage fits or every candidate was killed: loop has no other exit than `fits` or exhaustion
    for k in s2:
        lp = enclosing_for(k, kf.node)
        ctx.ob(6, "K3", "pool-level kills are repeated over the candidates until the usage fits (a single kill may leave the pool above its capacity)", lp is not None, kf, k,
               construct="pool-level kill loop", detail=f"enclosing loop: {stmt_text(lp) if lp else None}")
        if lp is None:
            continue
        brk = [n for n in ast.walk(lp) if isinstance(n, (ast.Break, ast.Return))]
        ok = all(norm.entails(g.facts_at(b), ("cmp", "<=", "self.consumed_ram_gb", "self.max_ram_pool")) for b in brk)
        ctx.ob(6, "K2", "the pool-level loop stops early only when usage fits into the pool", ok, kf, lp, construct="early exits of the victim loop",
               detail=f"{len(brk)} early exit(s); each requires consumed_ram_gb <= max_ram_pool")


def _check_freeze(ctx, P, has_s1):
    s1 = [1] if has_s1 else []
    ctx.ob(6, "K2", "the killer has an individual-limit pass", has_s1, c11.killer_funcs(P)[0], c11.killer_funcs(P)[0].node, construct="individual-limit kill", detail=f"present: {has_s1}")
    # (7) freeze predicate
    gen = P.fn(CT, "Container._tick_generator")
    ctx.touch(gen)
    freezes = []
    for n in own_nodes(gen.node):
        if isinstance(n, ast.While):
            t = norm.nnf(n.test)
            ys = [x for x in n.body if isinstance(x, ast.Expr) and isinstance(x.value, ast.Yield)]
            if ys and len(n.body) == len(ys):
                freezes.append((n, t))
    ctx.ob(7, "K5", "the generator has exactly one freeze loop (yield until killed)", len(freezes) == 1, gen, freezes[0][0] if freezes else gen.node,
           construct="while <over limit>: yield", detail=f"{len(freezes)} found")
    for n, t in freezes:
        want = [("cmp", "<", "self.assignment.ram", u.format(c="self")) for u in c11.USAGE_FORMS]
        ok = t in want
        ctx.ob(7, "K5", "a container freezes exactly when its usage exceeds its allocation — the same predicate under which the killer's first pass kills it",
               ok and len(s1) >= 1, gen, n, detail=f"freeze predicate: {norm.show(t)}; kill predicate: usage > <c>.assignment.ram")


def check_setter_for_active_only(ctx, num=3):
    """The pool's counter is the sum over its *active* containers and is re-summed whenever one leaves that list.  A container that has left
    (being written out, or suspended) must therefore not report a change of its usage to the pool any more: the setter would take its share
    off the counter a second time.  Rule: no Container method that the pool invokes on elements of its non-active lists reaches the setter,
    the usage field or the pool counter."""
    P = ctx.P
    entry = {}
    for f in P.all_funcs(False, raw=True):
        if f.mod.rel != RP or f.cls != "ResourcePool":
            continue
        for n in own_nodes(f.node):
            its = []
            if isinstance(n, ast.For) and isinstance(n.target, ast.Name):
                its.append((n.iter, n.target.id, n))
            elif isinstance(n, (ast.ListComp, ast.SetComp, ast.GeneratorExp, ast.DictComp)):
                for ge in n.generators:
                    if isinstance(ge.target, ast.Name):
                        its.append((ge.iter, ge.target.id, n))
            for it, v, scope in its:
                src = it
                while isinstance(src, ast.Call) and isinstance(src.func, ast.Name) and src.func.id in ("list", "tuple", "sorted", "reversed", "enumerate") and src.args:
                    src = src.args[0]
                if isinstance(src, ast.Subscript) and isinstance(src.slice, ast.Slice):
                    src = src.value
                la = pool._list_attr(src)
                if la in ("suspending_containers", "suspended_containers"):
                    for c in ast.walk(scope):
                        if isinstance(c, ast.Call) and isinstance(c.func, ast.Attribute) and norm.is_name(c.func.value, v):
                            entry.setdefault(c.func.attr, (f, c, la))
    ctx.count_min("Container methods the pool invokes on containers that are being written out / suspended", len(entry), 1)
    mod = P.modules[CT]
    cls = mod.classes.get("Container")
    seen = {}
    work = [(m, m) for m in sorted(entry)]
    while work:
        m, root = work.pop()
        if m in seen or cls is None or m not in cls.methods:
            continue
        seen[m] = root
        for c in own_nodes(cls.methods[m].node):
            if isinstance(c, ast.Call) and isinstance(c.func, ast.Attribute) and norm.is_name(c.func.value, "self"):
                work.append((c.func.attr, root))
    for m, root in sorted(seen.items()):
        fn = cls.methods[m]
        ctx.touch(fn)
        bad = []
        for n in own_nodes(fn.node):
            if isinstance(n, ast.Call) and isinstance(n.func, ast.Attribute) and n.func.attr == "set_current_memory_usage":
                bad.append(n)
            elif isinstance(n, ast.Attribute) and isinstance(n.ctx, ast.Store) and n.attr in ("_current_memory", "consumed_ram_gb"):
                bad.append(n)
        if m == "set_current_memory_usage":
            continue   # reported at the call that reaches it
        ctx.ob(num, "K1", "a container that is no longer active (being written out or suspended) does not report memory changes to its pool: "
               "its share was dropped from the pool's sum when it left the active list", not bad, fn, bad[0] if bad else fn.node,
               construct=f"{m} (reached from the pool's handling of {entry[root][2]} via {root})",
               detail=f"{[stmt_text(pool.stmt_of(b)) for b in bad]}" if bad else "no call of the setter, no store to the usage field or the pool counter")


def run(ctx):
    check_writers(ctx, 1)
    check_delta(ctx, 2)
    pool.ob_moves_classified(ctx, 3)
    pool.ob_deltas(ctx, 3)        # admission trusts the free counters: they change only with a container move, by that container's own allocation (C03#2)
    check_invariant(ctx, 3)
    check_setter_for_active_only(ctx, 3)
    check_kills(ctx)
    # "a pool's total use does not exceed its capacity after a tick": the pool-level pass must be able to reach every container that holds
    # memory — a candidate list that leaves some out can run dry while the pool is still over its capacity (C11#4)
    c11._run(Renumber(ctx, {2: 6, 4: 6}, drop=(1, 3, 5, 6)))
    # "without overcommit a container that stays within its allocation is never killed": the pool-level pass can only trigger when the
    # allocations of a pool add up to more than its RAM, which the admission check rules out (C03#3: a batch is accepted only if it fits the FREE RAM)
    from . import c03
    c03.check_admission(Renumber(ctx, {3: 6}), 3)
    # "reported usage": what a container reports is its segment's demand, and an explicit memory_gb of 0 is a demand of 0 — the optional field is
    # tested with `is None` only (C14#3), never by truthiness
    from . import c14
    c14.check_none_vs_zero(Renumber(ctx, {3: 2}), 3)
    pool.ob_phases(ctx, 8)
    from . import c09
    c09.check_every_pool_ticked(ctx, 8)     # the limits are enforced by the killer that runs in the pool's tick: no pool may be left out
