"""Shared analyses of the scheduler functions (C08, C12, C16, C17, C18)."""
from __future__ import annotations

import ast
from typing import Dict, List, Optional, Set, Tuple

from .. import norm
from ..model import AnalysisError, Func, Program, own_nodes, parent, stmt_text
from ..util import cfg_of, calls_named, single_defs, resolve_callee
from .common import *

IN_PROCESS = ("naive", "priority", "priority-pool", "overbook", "tmpl")


def scheduler(P: Program, key: str) -> Func:
    """The function registered for `key`, with its private single-purpose helpers inlined ("extract function" changes nothing)."""
    from ..util import inline_helpers, dealias, desugar_extend, prefix_counter_to_list
    # ... dict comprehensions / extend(<comprehension>) written as the loops they abbreviate, object aliases such as
    # `stats = pool_stats[pool_id]` written out
    from ..partition import pool_walks
    return dealias(desugar_extend(prefix_counter_to_list(pool_walks(P, inline_helpers(P, P.scheduler(key))))))


def module_helpers(P: Program, f: Func, depth: int = 3) -> List[Func]:
    """f plus the same-module functions it (transitively) calls by bare name."""
    seen = {id(f.node): f}
    work = [f]
    while work and depth > 0:
        nxt = []
        for g in work:
            for c in own_nodes(g.node):
                if isinstance(c, ast.Call) and isinstance(c.func, ast.Name) and c.func.id in g.mod.funcs:
                    h = P.fn(g.mod.rel, c.func.id)      # as the rules see it: its own helpers looked through
                    if id(h.node) not in seen:
                        seen[id(h.node)] = h
                        nxt.append(h)
        work = nxt
        depth -= 1
    return list(seen.values())


def assignment_sites(P: Program, f: Func) -> List[Tuple[Func, ast.Call]]:
    out = []
    for g in module_helpers(P, f):
        for c in calls_named(g, "Assignment"):
            if isinstance(c.func, ast.Name):
                out.append((g, c))
    return out


def suspend_sites(P: Program, f: Func) -> List[Tuple[Func, ast.Call]]:
    out = []
    for g in module_helpers(P, f):
        for c in calls_named(g, "Suspend"):
            if isinstance(c.func, ast.Name):
                out.append((g, c))
    return out


ASG_POS = ["ops", "cpu", "ram", "priority", "pool_id", "pipeline_id", "container_id", "is_resume", "force_run"]


def asg_arg(c: ast.Call, name: str) -> Optional[ast.expr]:
    return norm.kwarg(c, name, ASG_POS.index(name))


def resolved(f: Func, e: ast.expr) -> ast.expr:
    return norm.subst(e, single_defs(f))


def reaching_defs(f: Func, g, at: ast.AST, name: str, within: Optional[Set[int]] = None) -> List[ast.stmt]:
    """Assignments `name = ...` (or for-targets binding name) from which `at` is reachable without passing another def.
    With `within` (a set of CFG node ids, e.g. what is reachable from a branch): only definitions among those nodes, if there are any."""
    defs = []
    for n in own_nodes(f.node):
        if isinstance(n, ast.Assign) and any(norm.is_name(t, name) for t in n.targets):
            defs.append(n)
        elif isinstance(n, (ast.AugAssign, ast.AnnAssign)) and norm.is_name(n.target, name):
            defs.append(n)
        elif isinstance(n, ast.For) and any(isinstance(x, ast.Name) and x.id == name for x in ast.walk(n.target)):
            defs.append(n)
    ids = {g.node_of(d).id: d for d in defs}
    tgt = g.node_of(at).id
    out = []
    for i, d in ids.items():
        if i == tgt:
            continue
        if g.path_avoiding(i, {tgt}, set(ids) - {i}) is not None:
            out.append(d)
    if within is not None and any(g.node_of(d).id in within for d in out):
        out = [d for d in out if g.node_of(d).id in within]
    return out


def suspension_returns(P: Program, f: Func) -> List[Tuple[ast.Return, Optional[ast.expr]]]:
    """(return stmt, first element of the returned tuple)"""
    out = []
    for r in own_nodes(f.node):
        if isinstance(r, ast.Return):
            v = r.value
            first = v.elts[0] if isinstance(v, ast.Tuple) and len(v.elts) == 2 else None
            out.append((r, first))
    return out


def ob_never_suspends(ctx, num, key: str, label: str):
    """K1: no Suspend( constructed; every return hands back an empty suspension list."""
    P = ctx.P
    f = scheduler(P, key)
    ctx.touch(f)
    sites = suspend_sites(P, f)
    for g, c in sites:
        ctx.ob(num, "K1", f"the {label} scheduler never constructs a Suspend", False, g, c, detail=f"Suspend( in {g.qual}")
    if not sites:
        ctx.ob(num, "K1", f"the {label} scheduler never constructs a Suspend", True, f, f.node, construct=f"Suspend( sites in {label}", detail="0 sites (fixture: priority.py has one)")
    rets = suspension_returns(P, f)
    ctx.count_min(f"returns of the {label} scheduler", len(rets), 1)
    for r, first in rets:
        ok = False
        d = f"returns {norm.U(r.value) if r.value is not None else None}"
        if isinstance(first, ast.List) and not first.elts:
            ok = True
        elif isinstance(first, ast.Name):
            nm = first.id
            inits = [n for n in own_nodes(f.node) if isinstance(n, ast.Assign) and any(norm.is_name(t, nm) for t in n.targets)]
            muts = [c for c in own_nodes(f.node) if isinstance(c, ast.Call) and isinstance(c.func, ast.Attribute) and norm.is_name(c.func.value, nm)]
            augs = [n for n in own_nodes(f.node) if isinstance(n, ast.AugAssign) and norm.is_name(n.target, nm)]
            ok = len(inits) == 1 and isinstance(inits[0].value, ast.List) and not inits[0].value.elts and not muts and not augs
            d += f"; `{nm}` is initialised once to [] and never mutated: {ok}"
        ctx.ob(num, "K1", f"the suspension list the {label} scheduler returns is always empty", ok, f, r, detail=d)
    return f


def fixture_suspend_present(ctx, num):
    """Positive fixture for the zero-count rule: the Suspend( matcher must find the site in a tiny scheduler that has one."""
    from ..model import Module
    m = Module("<fixture>", "def fx(s, results, pipelines):\n    sus = [Suspend(c.container_id, c.pool_id) for c in s.executor.pools[0].active_containers]\n    return sus, []\n", virtual=True)
    n = len(suspend_sites(ctx.P, m.funcs["fx"]))
    if n != 1:
        raise AnalysisError("fixture failed: the Suspend( matcher does not find the site of the positive example (the zero-count rule would be vacuous)")


def ops_origin_ok(f: Func, g, site: ast.Call) -> Tuple[bool, str]:
    """C08#4 / C01#11: the ops argument derives from get_ops(...), list(p.values), r.ops / c.operators through
    order-preserving operations (identity, slicing with positive step, filtering comprehension, list(), one-element literal)."""
    e = asg_arg(site, "ops")
    if e is None:
        return False, "no ops argument"
    return _origin(f, g, site, e, 0)


ORDER_BREAKERS = {"sorted", "reversed", "set", "frozenset", "shuffle", "permutation", "sample", "choice"}


def _origin(f: Func, g, at: ast.AST, e: ast.expr, depth: int) -> Tuple[bool, str]:
    if depth > 6:
        return False, "origin too deep"
    if isinstance(e, ast.Subscript) and isinstance(e.slice, ast.Slice):
        st = e.slice.step
        if st is not None and not (isinstance(st, ast.Constant) and isinstance(st.value, int) and st.value > 0):
            return False, f"slice with non-positive step: {norm.U(e)}"
        return _origin(f, g, at, e.value, depth + 1)
    if isinstance(e, ast.Call):
        fn = norm.call_name(e)
        if fn == "get_ops":
            return True, f"get_ops: {norm.U(e)}"
        if fn == "list" and len(e.args) == 1:
            a = e.args[0]
            if isinstance(a, ast.Attribute) and a.attr == "values":
                return True, f"DAG iteration order: {norm.U(e)}"
            return _origin(f, g, at, a, depth + 1)
        if fn in ORDER_BREAKERS:
            return False, f"order-destroying operation: {norm.U(e)}"
        return False, f"unrecognised producer: {norm.U(e)}"
    if isinstance(e, ast.ListComp) and len(e.generators) == 1:
        gen = e.generators[0]
        if isinstance(gen.target, ast.Name) and norm.is_name(e.elt, gen.target.id):
            return _origin(f, g, at, gen.iter, depth + 1)
        return False, f"comprehension that is not a pure filter: {norm.U(e)}"
    if isinstance(e, ast.List) and len(e.elts) == 1:
        return True, f"one-element list: {norm.U(e)}"
    if isinstance(e, ast.Attribute) and e.attr in ("ops", "operators"):
        return True, f"operator list of a job/result/container: {norm.U(e)}"
    if isinstance(e, ast.Name):
        defs = reaching_defs(f, g, at, e.id)
        if not defs:
            return False, f"no definition of {e.id} reaches the assignment"
        notes = []
        for d in defs:
            if isinstance(d, ast.Assign):
                ok, why = _origin(f, g, d, d.value, depth + 1)
            else:
                ok, why = False, f"`{stmt_text(d)}` is not a plain assignment"
            notes.append(why)
            if not ok:
                return False, why
        # in-place reordering of the named list
        for c in own_nodes(f.node):
            if isinstance(c, ast.Call) and isinstance(c.func, ast.Attribute) and norm.is_name(c.func.value, e.id) and c.func.attr in ("sort", "reverse"):
                return False, f"in-place reordering: {norm.U(c)}"
        return True, "; ".join(notes)
    return False, f"unrecognised expression: {norm.U(e)}"


def snapshot_name(f: Func) -> str:
    """Name of the per-round snapshot dict: the local D with  D[i] = {..., 'avail_cpu': ..., ...}  stored per pool."""
    for n in own_nodes(f.node):
        if isinstance(n, ast.Assign) and len(n.targets) == 1 and isinstance(n.targets[0], ast.Subscript) and isinstance(n.targets[0].value, ast.Name) \
                and isinstance(n.value, ast.Dict) and any(isinstance(k, ast.Constant) and k.value == "avail_cpu" for k in n.value.keys):
            return n.targets[0].value.id
    return "pool_stats"


def stmt_of(n: ast.AST) -> ast.stmt:
    while not isinstance(n, ast.stmt):
        n = parent(n)
    return n


def copy_closure(f: Func, v: str) -> Set[str]:
    """v and the names bound by plain copies `w = v` (transitively)"""
    names = {v}
    grew = True
    while grew:
        grew = False
        for n in own_nodes(f.node):
            if isinstance(n, ast.Assign) and len(n.targets) == 1 and isinstance(n.targets[0], ast.Name) and isinstance(n.value, ast.Name) \
                    and n.value.id in names and n.targets[0].id not in names:
                names.add(n.targets[0].id)
                grew = True
    return names


def ob_assignments_returned(ctx, num, key: str, label: str):
    """Every Assignment a scheduler constructs is handed to the executor: the constructor already moved the operators to ASSIGNED, so an
    assignment that is dropped on the way to the returned list leaves its operators assigned to nothing, for ever.
    Flow accepted:  v = Assignment(..) ; L.append(v)  [same path]  ;  ( for j in L: M.append(j) | M.extend(L) | M += L )*  ;  return (.., M)."""
    P = ctx.P
    f = scheduler(P, key)
    g = cfg_of(f, subst_env=False)
    rets = [r for r in own_nodes(f.node) if isinstance(r, ast.Return) and r.value is not None]
    returned = set()
    for r in rets:
        v = r.value
        second = v.elts[1] if isinstance(v, ast.Tuple) and len(v.elts) == 2 else None
        if isinstance(second, ast.Name):
            returned.add(second.id)
    sites = [(fn_, c) for fn_, c in assignment_sites(P, f) if fn_.node is f.node]

    def feeds(L: str, at: ast.AST, depth: int = 0) -> Tuple[bool, str]:
        """the content of list L (as filled at `at`) reaches a returned list"""
        if L in returned:
            return True, f"`{L}` is returned"
        if depth > 3:
            return False, "too many hops"
        for n in own_nodes(f.node):
            tgt = None
            how = None
            if isinstance(n, ast.For) and norm.is_name(n.iter, L) and isinstance(n.target, ast.Name):
                apps = [c for c in ast.walk(n) if isinstance(c, ast.Call) and isinstance(c.func, ast.Attribute) and c.func.attr == "append" and isinstance(c.func.value, ast.Name)
                        and len(c.args) == 1 and norm.is_name(c.args[0], n.target.id)]
                for a in apps:
                    hid = g.node_of(n).id
                    if g.path_avoiding(hid, {hid, g.exit.id}, {g.node_of(a).id}, edge_ok=lambda x, y, lab, hid=hid: not (x == hid and lab == "done")) is None:
                        tgt, how = a.func.value.id, f"every element of `{L}` is appended to `{a.func.value.id}`"
            elif isinstance(n, ast.Expr) and isinstance(n.value, ast.Call) and isinstance(n.value.func, ast.Attribute) and n.value.func.attr == "extend" \
                    and isinstance(n.value.func.value, ast.Name) and len(n.value.args) == 1 and norm.is_name(n.value.args[0], L):
                tgt, how = n.value.func.value.id, f"`{n.value.func.value.id}.extend({L})`"
            elif isinstance(n, ast.AugAssign) and isinstance(n.op, ast.Add) and isinstance(n.target, ast.Name) and norm.is_name(n.value, L):
                tgt, how = n.target.id, f"`{n.target.id} += {L}`"
            if tgt is None:
                continue
            # the hand-over runs after the fill, on every path from it to the exit (unless L is reset first - not modelled: a reset of L between is a miss)
            if g.path_avoiding(g.node_of(at).id, {g.exit.id}, {g.node_of(n).id}) is not None:
                continue
            ok, why = feeds(tgt, n, depth + 1)
            if ok:
                return True, f"{how}; {why}"
        return False, f"`{L}` is neither returned nor handed over to a returned list on every path"

    for fn_, c in sites:
        p_ = parent(c)
        ok, why = False, "the Assignment is not bound to a name"
        if isinstance(p_, ast.Assign) and len(p_.targets) == 1 and isinstance(p_.targets[0], ast.Name):
            v = p_.targets[0].id
            apps = [a for a in calls_named(f, "append") if isinstance(a.func, ast.Attribute) and isinstance(a.func.value, ast.Name) and len(a.args) == 1 and norm.is_name(a.args[0], v)]
            ok, why = False, f"`{v}` is never appended to a list"
            # the object may travel through plain copies (`w = v`, e.g. the result variable of a looked-through helper) before it is appended:
            # then the rule is the path form — from the construction, no feasible path reaches the exit, the construction again or a re-binding
            # of one of the names without passing an append of one of them
            names, copies = {v}, []
            grew = True
            while grew:
                grew = False
                for n in own_nodes(f.node):
                    if isinstance(n, ast.Assign) and len(n.targets) == 1 and isinstance(n.targets[0], ast.Name) and isinstance(n.value, ast.Name) \
                            and n.value.id in names and n.targets[0].id not in names:
                        names.add(n.targets[0].id)
                        copies.append(n)
                        grew = True
            if copies:
                al_apps = [a for a in calls_named(f, "append") if isinstance(a.func, ast.Attribute) and isinstance(a.func.value, ast.Name) and len(a.args) == 1
                           and isinstance(a.args[0], ast.Name) and a.args[0].id in names]
                through = {g.node_of(stmt_of(a)).id for a in al_apps}
                stops = {g.exit.id, g.node_of(p_).id}
                for n in own_nodes(f.node):
                    if isinstance(n, ast.Name) and isinstance(n.ctx, (ast.Store, ast.Del)) and n.id in names:
                        st_ = stmt_of(n)
                        if st_ is not p_ and st_ not in copies:
                            stops.add(g.node_of(st_).id)
                esc = g.escapes(p_, through, stops)
                if esc is None and al_apps:
                    IN = g.facts(blocked=set(through), start=g.node_of(p_).id)
                    ok, why = True, ""
                    for a in al_apps:
                        if IN[g.node_of(stmt_of(a)).id] is None:
                            continue
                        ok1, why1 = feeds(a.func.value.id, stmt_of(a))
                        why = f"`{norm.U(a)}` on every path from the construction (through {sorted(names)}); " + why1
                        if not ok1:
                            ok = False
                            break
                    apps = []
                elif al_apps:
                    why = f"a path from the construction reaches L{g.nodes[esc].line} without an append of {sorted(names)}"
                    apps = []
            for a in apps:
                sa_ = a
                while not isinstance(sa_, ast.stmt):
                    sa_ = parent(sa_)
                lp = None
                q = parent(p_)
                while q is not None and q is not f.node:
                    if isinstance(q, (ast.For, ast.While)):
                        lp = q
                        break
                    q = parent(q)
                if g.dominates(p_, sa_) and g.control_equivalent(p_, sa_, lp):
                    ok, why = feeds(a.func.value.id, sa_)
                    why = f"`{norm.U(a)}` together with the construction; " + why
                    if ok:
                        break
        elif isinstance(p_, ast.Call) and isinstance(p_.func, ast.Attribute) and p_.func.attr == "append" and isinstance(p_.func.value, ast.Name):
            sa_ = p_
            while not isinstance(sa_, ast.stmt):
                sa_ = parent(sa_)
            ok, why = feeds(p_.func.value.id, sa_)
        elif isinstance(p_, ast.Return):
            ok, why = True, "returned directly"
        ctx.ob(num, "K6", f"[{label}] every Assignment constructed is handed to the executor (its operators were already moved to ASSIGNED by the constructor)", ok, f, c,
               construct="Assignment reaches the returned list", detail=why)


def ob_retry_record_plain(ctx, num):
    """RetryStats is a plain record: old_cpu / old_ram come out as they went in (the doubling, the half-pool cap and the resume size are
    computed from them)."""
    P = ctx.P
    from ..util import attr_writes
    m = P.mod("eudoxia/scheduler/waiting_queue.py")
    cl = m.classes.get("RetryStats")
    if cl is None:
        raise AnalysisError("class RetryStats not found in eudoxia/scheduler/waiting_queue.py")
    hooks = [n for n in cl.methods if n in ("__setattr__", "__getattribute__", "__getattr__", "__new__")]
    props = [n for n, f in cl.methods.items() if any(isinstance(d, ast.Name) and d.id == "property" for d in f.decorators()) and n in ("old_cpu", "old_ram")]
    # the constructor (written by hand, or the one @dataclass generates — model._dataclass_init writes it out, __post_init__ included) stores
    # each of the two parameters once, unchanged; nothing else in the package writes the fields
    ws = []
    ini = cl.methods.get("__init__")
    for a in ("old_cpu", "old_ram"):
        plain = 0
        for w in attr_writes(P, a, include_mutation=False):
            st = w.node
            if ini is not None and w.fn.qual == ini.qual and w.fn.mod is ini.mod and isinstance(st, ast.Assign) and len(st.targets) == 1 \
                    and norm.U(st.targets[0]) == f"self.{a}" and norm.is_name(st.value, a) \
                    and not any(isinstance(x, ast.Name) and x.id == a and isinstance(x.ctx, ast.Store) for x in own_nodes(ini.node)):
                plain += 1
            else:
                ws.append(w)
        if plain != 1:
            hooks.append(f"__init__ stores {a} {plain} time(s)")
    dec = [norm.U(d) for d in cl.node.decorator_list]
    ok = not hooks and not props and not ws
    anchor = cl.methods.get(hooks[0]) if hooks else None
    ctx.ob(num, "K6", "a retry record hands back old_cpu / old_ram exactly as they were stored (a plain dataclass: no hook rewrites the fields, nothing writes them later)",
           ok, anchor, anchor.node if anchor else None, file="eudoxia/scheduler/waiting_queue.py", construct="RetryStats is a plain record",
           detail=f"decorators: {dec}; hooks defined: {hooks}; properties over the fields: {props}; later writes: {[repr(w) for w in ws]}")


LIST_MUTATORS = {"remove", "pop", "insert", "append", "extend", "clear", "sort", "reverse", "popleft", "appendleft"}


def ob_wrapper_passes_through(ctx, num):
    """Scheduler.run_one_tick is the only way a policy is reached: it calls the registered policy in every tick, with the tick's own results and
    new pipelines as they were handed in (not held back, merged or reordered), and returns what the policy returns."""
    P = ctx.P
    rel = "eudoxia/scheduler/scheduler.py"
    f = P.fn(rel, "Scheduler.run_one_tick")
    ctx.touch(f)
    g = cfg_of(f, subst_env=False)
    ps = f.params()
    calls = [c for c in own_nodes(f.node) if isinstance(c, ast.Call) and isinstance(c.func, ast.Attribute) and norm.is_name(c.func.value, ps[0]) and c.func.attr.endswith("func")
             or (isinstance(c, ast.Call) and isinstance(c.func, ast.Attribute) and norm.is_name(c.func.value, ps[0]) and c.func.attr in ("algo_func", "scheduler_algo"))]
    ok = len(calls) == 1 and len(ps) >= 3
    d = f"policy calls: {[norm.U(c) for c in calls]}"
    if ok:
        c = calls[0]
        args_ok = len(c.args) == 3 and norm.is_name(c.args[0], ps[0]) and norm.is_name(c.args[1], ps[1]) and norm.is_name(c.args[2], ps[2])
        rebound = [n for n in own_nodes(f.node) if isinstance(n, ast.Name) and n.id in ps[1:3] and isinstance(n.ctx, (ast.Store, ast.Del))]
        muts = [n for n in own_nodes(f.node) if isinstance(n, ast.Call) and isinstance(n.func, ast.Attribute) and isinstance(n.func.value, ast.Name) and n.func.value.id in ps[1:3]
                and n.func.attr in LIST_MUTATORS]
        byp = g.path_avoiding(g.entry.id, {g.exit.id}, {g.node_of(c).id})
        ok = args_ok and not rebound and not muts and byp is None
        d += f"; arguments are the parameters themselves: {args_ok}; parameters re-bound: {len(rebound)}, mutated: {len(muts)}; called on every path: {byp is None}"
    ctx.ob(num, "K3", "the scheduler wrapper hands every tick's results and new pipelines to the policy as they came, in that tick", ok, f, calls[0] if calls else f.node,
           construct="policy(self, results, pipelines) on every path", detail=d)


def ob_inputs_not_mutated(ctx, num, key: str, label: str):
    """The two lists a scheduler is called with (this tick's results and new pipelines) belong to the main loop, which goes on using them
    after the call (`len(new_pipelines)` is the number of pipelines created in the tick): the scheduler, and the same-module functions it
    hands them to, never add to, remove from or reorder them - directly or through a plain alias (`todo = pipelines`)."""
    P = ctx.P
    f0 = scheduler(P, key)
    params = f0.params()
    if len(params) < 3:
        ctx.ob(num, "K1", f"[{label}] the scheduler takes (s, results, pipelines)", False, f0, f0.node, detail=f"parameters: {params}")
        return
    seen = set()
    work = [(f0, set(params[1:3]), 0)]
    bad = []
    n = 0
    while work:
        f, tainted, depth = work.pop()
        k = (f.mod.rel, f.qual, tuple(sorted(tainted)))
        if k in seen or not tainted:
            continue
        seen.add(k)
        n += 1
        names = set(tainted)
        grew = True
        while grew:
            grew = False
            for x in own_nodes(f.node):
                if isinstance(x, ast.Assign) and len(x.targets) == 1 and isinstance(x.targets[0], ast.Name) and isinstance(x.value, ast.Name) and x.value.id in names \
                        and x.targets[0].id not in names:
                    names.add(x.targets[0].id)
                    grew = True
        for x in own_nodes(f.node):
            if isinstance(x, ast.Call) and isinstance(x.func, ast.Attribute) and x.func.attr in LIST_MUTATORS and isinstance(x.func.value, ast.Name) and x.func.value.id in names:
                bad.append((f, x))
            elif isinstance(x, ast.AugAssign) and isinstance(x.target, ast.Name) and x.target.id in names:
                bad.append((f, x))
            elif isinstance(x, (ast.Subscript,)) and isinstance(x.ctx, (ast.Store, ast.Del)) and isinstance(x.value, ast.Name) and x.value.id in names:
                bad.append((f, x))
            elif isinstance(x, ast.Call) and isinstance(x.func, ast.Name) and x.func.id in f.mod.funcs and depth < 3:
                h = f.mod.funcs[x.func.id]
                hp = h.params()
                t2 = set()
                for i, a in enumerate(x.args):
                    if isinstance(a, ast.Name) and a.id in names and i < len(hp):
                        t2.add(hp[i])
                for kw in x.keywords:
                    if kw.arg and isinstance(kw.value, ast.Name) and kw.value.id in names and kw.arg in hp:
                        t2.add(kw.arg)
                if t2:
                    work.append((h, t2, depth + 1))
    ctx.ob(num, "K1", f"[{label}] the lists the scheduler is called with (results, new pipelines) are only read: the main loop counts and reports from them after the call",
           not bad, bad[0][0] if bad else f0, stmt_of(bad[0][1]) if bad else f0.node, construct="results / pipelines are not mutated",
           detail=f"mutations: {[(b[0].qual, norm.U(b[1])[:70]) for b in bad]}" if bad else f"{n} function(s) followed; no append/extend/remove/sort/+=/item store on the parameters or their aliases")


def ob_no_mutation_while_iterating(ctx, num, key: str, label: str):
    """No `for x in L` loop of the scheduler changes L inside its own body: removing or inserting while iterating makes the loop skip or
    repeat elements (a job that is skipped stays queued for the round although it could have been placed)."""
    P = ctx.P
    f0 = scheduler(P, key)
    n = 0
    for f in module_helpers(P, f0):
        for lp in [x for x in own_nodes(f.node) if isinstance(x, (ast.For, ast.AsyncFor))]:
            it = lp.iter
            if isinstance(it, ast.Call) and norm.call_name(it) in ("enumerate", "reversed", "iter") and it.args:
                it = it.args[0]
            t = norm.attr_chain(it) if isinstance(it, (ast.Name, ast.Attribute)) else None
            if t is None:
                continue
            n += 1
            bad = []
            for b in lp.body + lp.orelse:
                for x in ast.walk(b):
                    if isinstance(x, ast.Call) and isinstance(x.func, ast.Attribute) and x.func.attr in LIST_MUTATORS and norm.attr_chain(x.func.value) == t:
                        bad.append(x)
                    if isinstance(x, ast.Delete) and any(isinstance(tg, ast.Subscript) and norm.attr_chain(tg.value) == t for tg in x.targets):
                        bad.append(x)
            ctx.ob(num, "K3", f"[{label}] a list is not changed inside the loop that walks it (a removal makes the loop skip the next element)", not bad, f, bad[0] if bad else lp,
                   construct=f"for .. in {t}", detail=f"mutations of `{t}` inside its own loop: {[norm.U(b)[:60] if not isinstance(b, ast.Delete) else stmt_text(b) for b in bad]}")
    return n


def ob_arrivals_considered(ctx, num, key: str, label: str):
    """Every pipeline handed to the policy is taken up in that round: the loop over the arriving pipelines either collects each of them
    (`D[..] = p` in every iteration) into a local table whose values the intake loop then walks, nothing being removed from it — or puts a job
    for each of them on a queue in every iteration.  A filter in that loop leaves ready operators waiting for ever beside idle pools."""
    P = ctx.P
    f = scheduler(P, key)
    ctx.touch(f)
    g = cfg_of(f, subst_env=False)
    pip_p = f.params()[2]
    s_p = f.params()[0]
    loops = [lp for lp in own_nodes(f.node) if isinstance(lp, ast.For) and norm.is_name(lp.iter, pip_p) and isinstance(lp.target, ast.Name)]
    ctx.count_min(f"loops over the arriving pipelines in the {label} scheduler", len(loops), 1)
    good, why = [], []
    for lp in loops:
        pv = lp.target.id
        hid = g.node_of(lp).id
        inner = [n for b in lp.body for n in ast.walk(b)]
        stores = [n for n in inner if isinstance(n, ast.Assign) and len(n.targets) == 1 and isinstance(n.targets[0], ast.Subscript)
                  and isinstance(n.targets[0].value, ast.Name) and norm.is_name(n.value, pv)]
        apps = [c for c in inner if isinstance(c, ast.Call) and isinstance(c.func, ast.Attribute) and c.func.attr == "append" and isinstance(c.func.value, ast.Attribute)
                and norm.is_name(c.func.value.value, s_p) and c.args and isinstance(c.args[0], ast.Name)]
        # an if/elif chain on the pipeline's priority that names every member of Priority has no way out at its end
        dead = set()
        try:
            from .c16 import priority_members
            members = set(priority_members(P))
        except Exception:
            members = set()
        for top in inner:
            if not isinstance(top, ast.If) or (isinstance(parent(top), ast.If) and top in parent(top).orelse and len(parent(top).orelse) == 1):
                continue
            seen_m, cur, last, subj = set(), top, None, None
            while isinstance(cur, ast.If):
                t = cur.test
                m_ = None
                if isinstance(t, ast.Compare) and len(t.ops) == 1 and isinstance(t.ops[0], (ast.Eq, ast.Is)):
                    for x, y in ((t.left, t.comparators[0]), (t.comparators[0], t.left)):
                        # one subject throughout the chain: the pipeline's priority, or the priority of the job just built for it (`job.priority`,
                        # a local bound to it) — whatever it is called, it is compared with every member of Priority in turn
                        if isinstance(y, ast.Attribute) and norm.is_name(y.value, "Priority") and not (isinstance(x, ast.Attribute) and norm.is_name(x.value, "Priority")) \
                                and (subj is None or norm.U(x) == subj):
                            m_, subj = y.attr, norm.U(x)
                if m_ is None:
                    break
                seen_m.add(m_)
                last = cur
                cur = cur.orelse[0] if len(cur.orelse) == 1 else None
            if last is not None and not last.orelse and members and seen_m == members:
                dead.add(g.node_of(last).id)

        def every(nodes):
            ids = {g.node_of(stmt_of(n) if isinstance(n, ast.Call) else n).id for n in nodes}

            def edge_ok(a, b, lab):
                if a == hid and lab == "done":
                    return False
                if a in dead and isinstance(lab, tuple) and lab[0] == "cond" and any(x[0] == "cmp" and x[1] in ("!=", "isnot") for x in norm.atoms_true(lab[1])):
                    return False      # the false branch of the last test of an exhaustive chain
                return True
            return g.path_avoiding(hid, {hid, g.exit.id}, ids, edge_ok=edge_ok) is None
        # reached whenever something arrived: a way round the loop exists only over a test that says nothing arrived
        def nothing_arrived(lab):
            return isinstance(lab, tuple) and lab[0] == "cond" and ("truth", pip_p, False) in norm.atoms_true(lab[1])
        reached = g.path_avoiding(g.entry.id, {g.exit.id}, {hid}, edge_ok=lambda a, b, lab: not nothing_arrived(lab)) is None
        if stores:
            D = stores[0].targets[0].value.id
            walks = [w for w in own_nodes(f.node) if isinstance(w, ast.For) and isinstance(w.iter, ast.Call) and isinstance(w.iter.func, ast.Attribute)
                     and w.iter.func.attr in ("values", "items") and norm.is_name(w.iter.func.value, D)]
            removed = [n for n in own_nodes(f.node) if (isinstance(n, ast.Delete) and any(isinstance(t, ast.Subscript) and norm.is_name(t.value, D) for t in n.targets))
                       or (isinstance(n, ast.Call) and isinstance(n.func, ast.Attribute) and norm.is_name(n.func.value, D) and n.func.attr in ("pop", "clear", "popitem"))]
            rebinds = [n for n in own_nodes(f.node) if isinstance(n, ast.Assign) and any(norm.is_name(t, D) for t in n.targets)]
            after = [n for n in rebinds if g.node_of(n).id != hid and g.path_avoiding(hid, {g.node_of(n).id}, set()) is not None and not g.dominates(n, lp)]
            walked = False
            for w in walks:
                # the walk is skipped only when the table is empty
                wid = g.node_of(w).id
                byp = g.path_avoiding(hid, {g.exit.id}, {wid}, edge_ok=lambda a, b, lab, D=D: not (a == hid and lab != "done") and not (
                    isinstance(lab, tuple) and lab[0] == "cond" and ("truth", D, False) in norm.atoms_true(lab[1])))
                walked = walked or byp is None
            # ... and the pipeline of every result joins the same table (a completion makes children ready, a failure makes a retry due): a store
            # `D[..] = <..>.pipeline` under a loop over the results, reached in every iteration of every loop around it
            res_p = f.params()[1]
            res_ok = False
            for n in own_nodes(f.node):
                if not (isinstance(n, ast.Assign) and len(n.targets) == 1 and isinstance(n.targets[0], ast.Subscript) and norm.is_name(n.targets[0].value, D)):
                    continue
                chain, a_ = [], enclosing(n, (ast.For,), f.node)
                while a_ is not None:
                    chain.append(a_)
                    a_ = enclosing(a_, (ast.For,), f.node)
                if not chain or not norm.is_name(chain[-1].iter, res_p):
                    continue
                vtxt = norm.U(norm.subst(n.value, {k: v for lp_ in chain for k, v in _loop_env(lp_).items()}))
                if not vtxt.endswith(".pipeline"):
                    continue
                tgt, good_chain = g.node_of(n).id, True
                for lp_ in chain:
                    h_ = g.node_of(lp_).id
                    if g.path_avoiding(h_, {h_, g.exit.id}, {tgt}, edge_ok=lambda a, b, lab, h_=h_: not (a == h_ and lab == "done")) is not None:
                        good_chain = False
                    tgt = h_
                res_ok = res_ok or (good_chain and g.dominates(chain[-1], walks[0]) if walks else False)
            ok = every(stores) and walked and not removed and not after and reached and res_ok
            why.append(f"`{stmt_text(lp)}` collects into {D}: every arrival stored: {every(stores)}; the pipeline of every result stored too: {res_ok}; "
                       f"table walked afterwards (skipped only when empty): {walked}; "
                       f"nothing removed or re-bound: {not removed and not after}; reached whenever something arrived: {reached}")
            if ok:
                good.append(lp)
        elif apps:
            ok = every(apps) and reached
            why.append(f"`{stmt_text(lp)}` queues a job per arrival: in every iteration: {every(apps)}; reached whenever something arrived: {reached}")
            if ok:
                good.append(lp)
    ctx.ob(num, "K3", f"[{label}] every arriving pipeline (and the pipeline of every result) is taken up in that round: none is filtered out before its ready operators are queued", bool(good), f,
           (good or loops)[0], construct="intake of arrivals", detail="; ".join(why) or "no loop over the arrivals stores or queues them")


def _loop_env(lp: ast.For) -> dict:
    """single plain assignments at the top of a loop body (name -> expression), for looking through `pipeline = only(r.ops).pipeline`"""
    env = {}
    for st in lp.body:
        if isinstance(st, ast.Assign) and len(st.targets) == 1 and isinstance(st.targets[0], ast.Name):
            env.setdefault(st.targets[0].id, st.value)
    return env
