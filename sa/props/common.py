"""Repository facts shared by several property checks (each re-validated structurally where it is used)."""
from __future__ import annotations

import ast
from typing import Dict, List, Optional, Tuple

from .. import norm
from ..model import AnalysisError, Func, Program, own_nodes, parent, stmt_text, same_fn
from ..util import calls_named

RS = "eudoxia/workload/runtime_status.py"
PL = "eudoxia/workload/pipeline.py"
CT = "eudoxia/executor/container.py"
RP = "eudoxia/executor/resource_pool.py"
EX = "eudoxia/executor/executor.py"
AS = "eudoxia/executor/assignment.py"
DAG = "eudoxia/utils/dag.py"
SIM = "eudoxia/simulator.py"
WL = "eudoxia/workload/workload.py"
CSV = "eudoxia/workload/csv_io.py"
TOOLS = "eudoxia/tools.py"
MAIN = "eudoxia/__main__.py"
REST = "eudoxia/scheduler/rest.py"
NAIVE = "eudoxia/scheduler/naive.py"
PRIO = "eudoxia/scheduler/priority.py"
PPOOL = "eudoxia/scheduler/priority_pool.py"
OVER = "eudoxia/scheduler/overbook.py"
CONSTS = "eudoxia/utils/consts.py"

STATES = ["PENDING", "ASSIGNED", "RUNNING", "SUSPENDING", "COMPLETED", "FAILED"]

COMMON_ASSUMPTIONS = [
    "assertions are enabled (the interpreter is not run with -O)",
    "schedulers are the functions registered through the decorators (no monkey-patching at run time)",
    "fields are not written through setattr/__dict__ (the K1 scan fails closed on dynamic writes in the package)",
    "only the sources under /repo/eudoxia (and go/) are analysed; nothing of the repository is imported or executed",
]


def transition_calls(f: Func) -> List[Tuple[ast.Call, ast.expr, Optional[str]]]:
    """Calls  <recv>.transition(OperatorState.X)  in f  ->  (call, receiver, 'X' or None if not a literal member)."""
    out = []
    for c in calls_named(f, "transition"):
        if isinstance(c.func, ast.Attribute) and c.args:
            arg = c.args[-1] if len(c.args) <= 2 else c.args[1]
            out.append((c, c.func.value, norm.enum_member(arg, "OperatorState")))
    return out


def state_of(e: ast.expr) -> Optional[str]:
    return norm.enum_member(e, "OperatorState")


def self_attr(e: ast.expr, attr: str, selfname: str = "self") -> bool:
    return isinstance(e, ast.Attribute) and e.attr == attr and isinstance(e.value, ast.Name) and e.value.id == selfname


def enclosing_for(n: ast.AST, stop: ast.AST) -> Optional[ast.For]:
    p = parent(n)
    while p is not None and p is not stop:
        if isinstance(p, ast.For):
            return p
        p = parent(p)
    return None


def enclosing(n: ast.AST, types, stop: ast.AST = None):
    p = parent(n)
    while p is not None and p is not stop:
        if isinstance(p, types):
            return p
        p = parent(p)
    return None


def transition_calls_deep(P, f: Func, depth: int = 2, _seen=None):
    """transition calls in f and in same-class helpers reached through self.<m>() calls:
    [(function containing the call, call, receiver, state, call-site chain in f)]"""
    _seen = _seen or set()
    out = [(f, c, r, s, []) for (c, r, s) in transition_calls(f)]
    if depth <= 0 or not f.cls:
        return out
    cls = f.mod.classes.get(f.cls)
    for c in own_nodes(f.node):
        if isinstance(c, ast.Call) and isinstance(c.func, ast.Attribute) and norm.is_name(c.func.value, "self") and cls \
                and c.func.attr in cls.methods and c.func.attr != "transition":
            g = cls.methods[c.func.attr]
            if id(g.node) in _seen or same_fn(g, f):
                continue
            for (fn2, c2, r2, s2, chain) in transition_calls_deep(P, g, depth - 1, _seen | {id(f.node)}):
                out.append((fn2, c2, r2, s2, [c] + chain))
    return out



class Renumber:
    """Proxy that files another property's obligations under this property's clause numbers; clauses listed in `drop` are the
    other property's own and are not filed here."""

    def __init__(self, ctx, table, drop=(), only=None):
        """only(what, fn) -> bool: file an obligation here only if it concerns this property (e.g. only the rules about one column, or
        about one module); the others are evaluated but belong to the property they come from"""
        self._ctx, self._t, self._drop, self._only = ctx, table, set(drop), only

    def __getattr__(self, k):
        return getattr(self._ctx, k)

    def ob(self, num, *a, **kw):
        if num in self._drop:
            return bool(a[2]) if len(a) > 2 else True
        if self._only is not None:
            what = a[1] if len(a) > 1 else kw.get("what", "")
            fn = a[3] if len(a) > 3 else kw.get("fn")
            if not self._only(what, fn):
                return bool(a[2]) if len(a) > 2 else True
        return self._ctx.ob(self._t.get(num, num), *a, **kw)

    def count_min(self, label, found, minimum):
        if self._only is not None:
            return   # the anchors of filtered rules are the other property's
        return self._ctx.count_min(label, found, minimum)


def pos(f: Func, n: ast.AST) -> int:
    """position of node n in the text of f as the rules see it (depth-first order; meaningful also where helpers were inlined, whose
    statements keep the line numbers of their own definition)"""
    from ..util import source_order
    o = source_order(f.node).get(id(n))
    return o[0] if o is not None else 10 ** 9 + getattr(n, "lineno", 0)


def before(f: Func, a: ast.AST, b: ast.AST) -> bool:
    return pos(f, a) < pos(f, b)


def value_equality_defs(P: Program, clsname: str):
    """Definitions that give objects of class `clsname` (or one of its base classes inside the package) an equality / hash that is not
    object identity: a `__eq__` / `__hash__` method or class-level binding, or a `@dataclass` with eq enabled.  Accepted as
    identity-equivalent (and not listed): bodies that only compare / hash the per-object `id` field that Node.__init__ draws fresh
    (`self.id == other.id`, `self is other`, `isinstance(other, X)`, `hash(self.id)`, `id(self)`).
    Returns [(Cls, node, text)]."""
    out = []
    seen = set()
    todo = [clsname]
    while todo:
        cn = todo.pop()
        if cn in seen:
            continue
        seen.add(cn)
        hits = [m.classes[cn] for m in P.modules.values() if not m.virtual and cn in m.classes]
        for c in hits:
            for b in c.node.bases:
                bn = b.attr if isinstance(b, ast.Attribute) else (b.id if isinstance(b, ast.Name) else (b.value.id if isinstance(b, ast.Subscript) and isinstance(b.value, ast.Name) else None))
                if bn:
                    todo.append(bn)
            for d in c.node.decorator_list:
                dn = d.func if isinstance(d, ast.Call) else d
                name = dn.attr if isinstance(dn, ast.Attribute) else (dn.id if isinstance(dn, ast.Name) else "")
                if name == "dataclass":
                    eq_off = isinstance(d, ast.Call) and any(k.arg == "eq" and isinstance(k.value, ast.Constant) and k.value.value is False for k in d.keywords)
                    if not eq_off:
                        out.append((c, d, f"@{ast.unparse(d)} on class {cn} (field-wise __eq__)"))
            for st in c.node.body:
                if isinstance(st, (ast.FunctionDef, ast.AsyncFunctionDef)) and st.name in ("__eq__", "__hash__"):
                    if not _identity_equivalent(st):
                        out.append((c, st, f"{cn}.{st.name}"))
                elif isinstance(st, (ast.Assign, ast.AnnAssign)):
                    tg = st.targets if isinstance(st, ast.Assign) else [st.target]
                    if any(isinstance(t, ast.Name) and t.id in ("__eq__", "__hash__") for t in tg):
                        out.append((c, st, f"{cn}: {ast.unparse(st)}"))
    return out


def _identity_equivalent(fn: ast.FunctionDef) -> bool:
    params = [a.arg for a in fn.args.args]
    if not params:
        return False
    me = params[0]
    other = params[1] if len(params) > 1 else None
    body = [s for s in fn.body if not (isinstance(s, ast.Expr) and isinstance(s.value, ast.Constant))]

    def idref(e, who):
        return isinstance(e, ast.Attribute) and e.attr == "id" and isinstance(e.value, ast.Name) and e.value.id == who

    def ok_expr(e) -> bool:
        if isinstance(e, ast.BoolOp):
            return all(ok_expr(v) for v in e.values)
        if isinstance(e, ast.Constant) and e.value is NotImplemented:
            return True
        if isinstance(e, ast.Name) and e.id == "NotImplemented":
            return True
        if isinstance(e, ast.Call) and isinstance(e.func, ast.Name):
            if e.func.id == "isinstance" and len(e.args) == 2 and isinstance(e.args[0], ast.Name) and e.args[0].id == other:
                return True
            if e.func.id == "hash" and len(e.args) == 1 and idref(e.args[0], me):
                return True
            if e.func.id == "id" and len(e.args) == 1 and isinstance(e.args[0], ast.Name) and e.args[0].id == me:
                return True
            return False
        if isinstance(e, ast.Compare) and len(e.ops) == 1 and other is not None:
            l, r = e.left, e.comparators[0]
            if isinstance(e.ops[0], ast.Is) and {getattr(l, "id", None), getattr(r, "id", None)} == {me, other}:
                return True
            if isinstance(e.ops[0], ast.Eq) and ((idref(l, me) and idref(r, other)) or (idref(l, other) and idref(r, me))):
                return True
        return False

    for s in body:
        if isinstance(s, ast.Return) and s.value is not None and ok_expr(s.value):
            continue
        if isinstance(s, ast.If) and isinstance(s.test, ast.UnaryOp) and isinstance(s.test.op, ast.Not) and ok_expr(s.test.operand) \
                and len(s.body) == 1 and isinstance(s.body[0], ast.Return) and not s.orelse \
                and (ok_expr(s.body[0].value) or (isinstance(s.body[0].value, ast.Constant) and s.body[0].value.value is False)):
            continue
        return False
    return bool(body)


CORE_MODULES = ("eudoxia/executor/", "eudoxia/scheduler/", "eudoxia/workload/runtime_status.py", "eudoxia/workload/pipeline.py", "eudoxia/simulator.py",
                "eudoxia/utils/dag.py")


def swallowing_handlers(P: Program):
    """`except` clauses in the simulation core that can catch an AssertionError and do not pass it on: a bare `except:`, `except Exception`,
    `except BaseException`, `except AssertionError` (alone or in a tuple) whose body does not end in a bare `raise` / `raise <the caught name>`.
    The refusals the properties speak of (an inadmissible decision, an illegal transition, an oversold pool, an unknown pool number) are
    assertions of the executor layer that reach the caller only while nobody in between catches them.  Returns [(Module, handler, text)]."""
    out = []
    broad = {"Exception", "BaseException", "AssertionError"}
    for m in P.modules.values():
        if m.virtual or not m.rel.startswith(CORE_MODULES):
            continue
        for n in ast.walk(m.tree):
            if not isinstance(n, ast.Try):
                continue
            for h in n.handlers:
                names = []
                t = h.type
                if t is None:
                    names = ["<bare>"]
                else:
                    for e in (t.elts if isinstance(t, ast.Tuple) else [t]):
                        names.append(e.attr if isinstance(e, ast.Attribute) else (e.id if isinstance(e, ast.Name) else ast.unparse(e)))
                if not (t is None or any(x in broad for x in names)):
                    continue
                last = h.body[-1] if h.body else None
                reraises = isinstance(last, ast.Raise) and (last.exc is None or (h.name and isinstance(last.exc, ast.Name) and last.exc.id == h.name))
                if reraises:
                    continue
                out.append((m, h, f"{m.rel}:{m.line(h)} except {', '.join(names)}"))
    return out


def ob_errors_propagate(ctx, num, what: str):
    bad = swallowing_handlers(ctx.P)
    ctx.ob(num, "K1", f"{what}: no `except` clause in the simulation core catches AssertionError / Exception / everything without re-raising "
           "(the refusal reaches the caller)", not bad, file=bad[0][0].rel if bad else "eudoxia/executor/resource_pool.py", construct="exception handlers of the simulation core",
           detail="; ".join(t for _, _, t in bad) if bad else "only narrow handlers (StopIteration, FileNotFoundError, TOMLDecodeError, ImportError) exist")
    if bad:
        ctx.obs[-1].line = bad[0][0].line(bad[0][1])
