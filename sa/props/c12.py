"""C12 — priority scheduler: strict priority order, work conservation, query-only preemption."""
from __future__ import annotations

import ast
from typing import Dict, List, Optional, Set

from .. import norm
from ..model import own_nodes, stmt_text, parent
from ..util import cfg_of, calls_named, single_defs, package_calls
from .common import *
from . import sched, c16, pool as poolmod

EXPLANATION = (
    "Static decision of the structural clauses of C12.  (1) priority scheduler: the queue<->priority map is read from the "
    "queues_by_prio literal, and the list of queues drained in a round is in ascending Priority.value (QUERY first).  (2) "
    "priority-pool: the shared pool's queue list is [query, interactive] (map taken from the enqueue chains, C16).  (3) queues "
    "are appended at the tail and scanned from the head; the only removals are the jobs handled in this round (deferred "
    "to_remove list drained after the scan); in priority-pool a job taken from a queue never goes back to the tail (no append / extend / "
    "insert(i != 0) of a value taken from a queue, no rotate / sort / reverse); arrivals reach the policy in the call and order in which they came.  (4) a job is left waiting only through the `break` taken when "
    "get_pool_with_max_avail_ram returned -1; that helper returns an index iff some pool has free CPU > 0 and free RAM > 0 (it "
    "returns the pool with most free RAM among those), scanning all pools; in priority-pool the scan of a pool's queue stops only on depletion of that "
    "pool, every pool is served in every round, and the placement pass is on every path of a round (no early return); every arriving pipeline and the "
    "pipeline of every result is taken up in that round (stored into the intake table / queued in every iteration, nothing filtered or removed).  (5) Suspend objects are constructed only in the "
    "priority scheduler (and the REST decoder).  (6) the suspension block runs only while a query job is waiting; a container is "
    "selected only if can_suspend_container(), its priority != QUERY, and fewer than len(qry_jobs) were selected.  (7) re-offer "
    "(K18): every Suspend issued is accompanied, in the same block, by the registration of the displaced work (the container's "
    "non-COMPLETED operators, its priority and allocation) under the container's id, and every container found in "
    "suspended_containers whose id is registered is re-queued on the queue of its priority — so re-offering does not depend on "
    "observing the transient `suspending` state.")
UNDECIDED = "long-run fairness; the sizing policy (10 %, doubling) is not part of the property; which containers exist at run time"
ASSUMPTIONS = COMMON_ASSUMPTIONS


def check_queue_order(ctx):
    P = ctx.P
    pm = c16.priority_members(P)
    ini = P.scheduler_init("priority")
    f = sched.scheduler(P, "priority")
    ctx.touch(ini)
    ctx.touch(f)
    s_i = ini.params()[0]
    s_p = f.params()[0]
    qb = [n for n in own_nodes(ini.node) if isinstance(n, ast.Assign) and any(isinstance(t, ast.Attribute) and t.attr == "queues_by_prio" for t in n.targets)]
    qmap: Dict[str, str] = {}
    ok = len(qb) == 1 and isinstance(qb[0].value, ast.Dict)
    if ok:
        for k, v in zip(qb[0].value.keys, qb[0].value.values):
            m = norm.enum_member(k, "Priority")
            if m and isinstance(v, ast.Attribute) and norm.is_name(v.value, s_i):
                qmap[v.attr] = m
        ok = sorted(qmap.values()) == sorted(c16.PRIOS) and len(qmap) == 3
    ctx.ob(1, "K5", "queues_by_prio maps each of the three priorities to its own queue", ok, ini, qb[0] if qb else ini.node, construct="queues_by_prio literal", detail=f"{qmap}")
    # each queue attribute is initialised to a distinct empty list
    for q in qmap:
        st = [n for n in own_nodes(ini.node) if isinstance(n, (ast.Assign, ast.AnnAssign)) and (self_attr(n.targets[0] if isinstance(n, ast.Assign) else n.target, q, s_i))]
        ctx.ob(1, "K5", f"queue {q} starts as its own empty list", len(st) == 1 and isinstance(st[0].value, ast.List) and not st[0].value.elts, ini, st[0] if st else ini.node,
               construct=f"s.{q} = []", detail=f"{[stmt_text(s) for s in st]}")
    # drained order
    drains = [n for n in own_nodes(f.node) if isinstance(n, ast.Assign) and isinstance(n.value, ast.List) and n.value.elts
              and all(isinstance(e, ast.Attribute) and norm.is_name(e.value, s_p) and e.attr in qmap for e in n.value.elts)]
    ctx.ob(1, "K5", "one literal list fixes the order in which queues are drained", len(drains) == 1, f, drains[0] if drains else f.node, construct="queues = [...]",
           detail=f"{[stmt_text(d) for d in drains]}")
    order = []
    if len(drains) == 1:
        order = [qmap[e.attr] for e in drains[0].value.elts]
        vals = [pm.get(m) for m in order]
        ok = len(order) == 3 and len(set(order)) == 3 and all(v is not None for v in vals) and vals == sorted(vals) and order[0] == "QUERY"
        ctx.ob(1, "K5", "queues are drained in strict priority order: QUERY, then INTERACTIVE, then BATCH_PIPELINE (ascending Priority.value)", ok, f, drains[0],
               detail=f"drain order: {order}; Priority values: {pm}")
        # the job loop iterates that list in order, each queue in order
        qn = drains[0].targets[0].id if isinstance(drains[0].targets[0], ast.Name) else None
        ql = [n for n in own_nodes(f.node) if isinstance(n, ast.For) and norm.is_name(n.iter, qn)]
        ok = len(ql) == 1 and isinstance(ql[0].target, ast.Name)
        ctx.ob(1, "K3", "the round visits the queues in that list order", ok, f, ql[0] if ql else f.node, construct="for queue in queues", detail=f"{[stmt_text(q) for q in ql]}")
        return f, s_p, qmap, (ql[0] if ok else None)
    return f, s_p, qmap, None


def check_new_work_queued(ctx, f, s_p):
    """Jobs built for arriving / failed work are collected in a list and every element of that list is put on the queue of its priority
    in the same round (a job that is built but not queued is never offered: its operators wait for ever)."""
    g = cfg_of(f, subst_env=False)
    colls: Dict[str, List[ast.Call]] = {}
    for c in calls_named(f, "WaitingQueueJob"):
        p_ = parent(c)
        if isinstance(p_, ast.Call) and isinstance(p_.func, ast.Attribute) and p_.func.attr == "append" and isinstance(p_.func.value, ast.Name) and p_.args and p_.args[0] is c:
            colls.setdefault(p_.func.value.id, []).append(p_)
    ctx.ob(1, "K3", "jobs for arriving / failed work are collected before they are queued", bool(colls), f, f.node, construct="jobs.append(WaitingQueueJob(...))",
           detail=f"collector lists: {sorted(colls)}")
    for J, fills in colls.items():
        ok, d = False, f"no loop over `{J}` that queues every element"
        for n in own_nodes(f.node):
            if not (isinstance(n, ast.For) and norm.is_name(n.iter, J) and isinstance(n.target, ast.Name)):
                continue
            jv = n.target.id
            hid = g.node_of(n).id
            for a in ast.walk(n):
                if isinstance(a, ast.Call) and isinstance(a.func, ast.Attribute) and a.func.attr == "append" and len(a.args) == 1 and norm.is_name(a.args[0], jv) \
                        and norm.U(a.func.value) in (f"{s_p}.queues_by_prio[{jv}.pipeline.priority]", f"{s_p}.queues_by_prio[{jv}.priority]"):
                    every = g.path_avoiding(hid, {hid, g.exit.id}, {g.node_of(a).id}, edge_ok=lambda x, y, lab, hid=hid: not (x == hid and lab == "done")) is None
                    after = all(g.path_avoiding(g.node_of(fl).id, {g.exit.id}, {hid}) is None for fl in fills)
                    ok = every and after
                    d = f"`{stmt_text(n)}`: every job appended to {norm.U(a.func.value)}: {every}; the loop follows every fill of `{J}` on all paths: {after}"
        ctx.ob(1, "K3", "every job built for arriving / failed work is put on the queue of its own priority in the same round", ok, f, fills[0], construct=f"for job in {J}: queue.append(job)", detail=d)


def check_pool_break(ctx, num=4):
    """priority-pool: the scan of a pool's queue is abandoned only when the pool is depleted.  Leaving the scan for any other reason (a job that
    "does not fit right now") stalls the ready jobs queued behind it while the pool still has room, and lets the next, lower queue go first."""
    from ..util import loop_env
    P = ctx.P
    f = sched.scheduler(P, "priority-pool")
    g = cfg_of(f, subst_env=False)
    jls = [n for n in own_nodes(f.node) if isinstance(n, ast.For) and isinstance(n.target, ast.Name)
           and any(isinstance(x, ast.Call) and norm.call_name(x) == "Assignment" for x in ast.walk(n))]
    jls = [n for n in jls if not any(m is not n and any(m is y for y in ast.walk(n)) for m in jls)]      # innermost
    for jl in jls:
        le = loop_env(jl)
        for br in [n for n in ast.walk(jl) if isinstance(n, (ast.Break, ast.Return))]:
            q = parent(br)
            inner = False
            while q is not None and q is not jl:
                if isinstance(q, (ast.For, ast.While)):
                    inner = True
                q = parent(q)
            if inner:
                continue
            fs = g.facts_at(br)

            def depleted(a):
                if a[0] == "cmp" and a[1] in ("==", "<=") and "0" in (a[2], a[3]):
                    t = a[3] if a[2] == "0" else a[2]
                    e = le.get(t)
                    txt = norm.U(e) if e is not None else t
                    return "avail" in txt
                return False
            ok = any(depleted(a) or (a[0] == "or" and all(depleted(k) for k in a[1])) for a in fs)
            ctx.ob(num, "K2", "[priority-pool] the scan of a pool's queue stops early only when that pool has no free CPU or no free RAM left", ok, f, br,
                   construct="early exit of the job loop", detail=f"facts at the exit: {sorted(norm.show(x) for x in fs)[:8]}")


def check_pool_queue_fifo(ctx, num=3):
    """priority-pool: "first container in arrival order" rests on the queues staying in arrival order.  A job that was taken from a queue (scan
    variable, pop, popleft, index) goes back only to the head; the tail is for work that is new in this round; queues are never rotated or sorted."""
    P = ctx.P
    f = sched.scheduler(P, "priority-pool")
    s_p = f.params()[0]
    qattrs = set()
    for n in own_nodes(f.node):
        if isinstance(n, ast.Attribute) and norm.is_name(n.value, s_p) and n.attr.endswith("_jobs"):
            qattrs.add(norm.U(n))
    qnames = set()
    changed = True
    while changed:
        changed = False
        for n in own_nodes(f.node):
            if isinstance(n, ast.For) and isinstance(n.target, ast.Name) and n.target.id not in qnames:
                it = n.iter
                src = {norm.U(x) for x in ast.walk(it) if isinstance(x, (ast.Attribute, ast.Name))}
                tabs = {t.targets[0].id for t in own_nodes(f.node) if isinstance(t, ast.Assign) and isinstance(t.targets[0], ast.Name) and isinstance(t.value, (ast.Dict, ast.List, ast.Tuple))
                        and any(norm.U(e) in qattrs for e in ast.walk(t.value) if isinstance(e, ast.Attribute))}
                if src & tabs or (isinstance(it, (ast.List, ast.Tuple)) and any(norm.U(e) in qattrs for e in it.elts)):
                    qnames.add(n.target.id)
                    changed = True
    isq = lambda e: norm.U(e) in qattrs or (isinstance(e, ast.Name) and e.id in qnames)
    g = cfg_of(f, subst_env=False)
    taken = {}
    for n in own_nodes(f.node):
        if isinstance(n, ast.For) and isinstance(n.target, ast.Name) and any(isq(x) for x in ast.walk(n.iter)):
            if n.target.id not in qnames:
                taken.setdefault(n.target.id, []).append(n)
        if isinstance(n, ast.Assign) and len(n.targets) == 1 and isinstance(n.targets[0], ast.Name):
            v = n.value
            if (isinstance(v, ast.Call) and isinstance(v.func, ast.Attribute) and v.func.attr in ("pop", "popleft") and isq(v.func.value)) or \
               (isinstance(v, ast.Subscript) and isq(v.value)):
                taken.setdefault(n.targets[0].id, []).append(n)
    sites = 0
    for c in own_nodes(f.node):
        if not (isinstance(c, ast.Call) and isinstance(c.func, ast.Attribute) and isq(c.func.value)):
            continue
        m = c.func.attr
        sites += 1
        if m in ("rotate", "reverse", "sort"):
            ctx.ob(num, "K1", "[priority-pool] a waiting queue is never rotated, reversed or sorted: its order is the arrival order", False, f, c, construct=f"{norm.U(c.func)}(..)", detail=stmt_text(c))
            continue
        back = None
        if m in ("append", "extend") and c.args:
            back = c.args[0]
        elif m == "insert" and len(c.args) == 2 and not (isinstance(c.args[0], ast.Constant) and c.args[0].value == 0):
            back = c.args[1]
        if back is None:
            continue
        names = {}
        for nm in sorted({x.id for x in ast.walk(back) if isinstance(x, ast.Name)} & set(taken)):
            for d in sched.reaching_defs(f, g, sched.stmt_of(c), nm):
                if any(d is t for t in taken[nm]):
                    names[nm] = d
        ctx.ob(num, "K1", "[priority-pool] what is put at the tail of a waiting queue is new in this round; a job taken from a queue is not sent to the back behind later arrivals",
               not names, f, c, construct=f"{norm.U(c.func)}(..)", detail=f"`{stmt_text(c)}`" + (f": `{sorted(names)[0]}` was taken from a queue at L{names[sorted(names)[0]].lineno}" if names else ": argument not taken from a queue"))
    ctx.ob(num, "K5", "[priority-pool] the waiting queues and the calls on them were found", bool(qattrs) and sites >= 3, f, f.node, construct="queue call sites", detail=f"queues {sorted(qattrs)}, aliases {sorted(qnames)}, {sites} call site(s)")


def check_retry_record(ctx, f, num=4):
    """A waiting job is sized - and, when the doubled size no longer fits, dropped - by the retry record attached to it.  The record of a job
    built for arriving work must be the one registered for the job's own operators: `table.get(<first operator of the job's ops>.id)`.
    A record looked up for some other operator sizes fresh work as a retry (or a retry as fresh work) and can leave a ready operator
    waiting although the pools have room."""
    from ..util import single_defs
    g = cfg_of(f, subst_env=False)
    env = single_defs(f)
    n_sites = 0
    for c in calls_named(f, "WaitingQueueJob"):
        rs = norm.kwarg(c, "retry_stats", 3)
        ops = norm.kwarg(c, "ops", 2)
        if rs is None or ops is None or (isinstance(rs, ast.Constant) and rs.value is None) or (isinstance(rs, ast.Call) and norm.call_name(rs) == "RetryStats"):
            continue
        vals = [rs]
        if isinstance(rs, ast.Name):
            vals = [d.value for d in sched.reaching_defs(f, g, c, rs.id) if isinstance(d, ast.Assign)]
        if any(isinstance(v, ast.Call) and norm.call_name(v) == "RetryStats" for v in vals):
            continue    # the job of failed work: its record is built from the failed result itself (C16#5 / ob_retry_record_plain)
        n_sites += 1
        want = None
        if isinstance(ops, ast.List) and len(ops.elts) == 1:
            want = norm.U(ops.elts[0])
        elif isinstance(ops, ast.Name):
            want = f"{ops.id}[0]"
        ok = bool(vals) and want is not None
        got = []
        for v in vals:
            okv = False
            if isinstance(v, ast.Constant) and v.value is None:
                okv = True
            elif isinstance(v, ast.Call) and isinstance(v.func, ast.Attribute) and v.func.attr == "get" and v.args and isinstance(v.args[0], ast.Attribute) and v.args[0].attr == "id":
                key = v.args[0].value
                keyr = norm.subst(key, {k: e for k, e in env.items() if not (isinstance(ops, ast.Name) and k == ops.id)})
                okv = want is not None and (norm.U(key) == want or norm.U(keyr) == want)
            got.append(norm.U(v))
            ok = ok and okv
        ctx.ob(num, "K6", "the retry record attached to a job built for arriving work is the one registered for the job's own first operator", ok, f, c,
               construct="WaitingQueueJob(ops=O, retry_stats=table.get(O[0].id))", detail=f"ops = {norm.U(ops)}; retry_stats defined as {got}; required key: {want}.id")
    ctx.count_min("WaitingQueueJob( sites for arriving work with a looked-up retry record", n_sites, 1)


def check_pool_choice(ctx, f, s_p):
    P = ctx.P
    from ..util import dealias
    h = dealias(P.fn(PRIO, "get_pool_with_max_avail_ram"))     # `stats = pool_stats[i]`, `avail_ram = stats["avail_ram"]` written out
    ctx.touch(h)
    g = cfg_of(h, subst_env=False)
    hp = h.params()
    ctx.need(len(hp) >= 2, "get_pool_with_max_avail_ram must take (s, pool_stats)")
    st = hp[1]
    rets = [r for r in own_nodes(h.node) if isinstance(r, ast.Return) and r.value is not None]
    ok = len(rets) == 1 and isinstance(rets[0].value, ast.Name)
    ctx.ob(4, "K6", "the pool chooser returns one index variable", ok, h, rets[0] if rets else h.node, detail=f"{[stmt_text(r) for r in rets]}")
    if not ok:
        return
    idv = rets[0].value.id
    defs = [n for n in own_nodes(h.node) if isinstance(n, ast.Assign) and any(norm.is_name(t, idv) for t in n.targets)]
    init = [d for d in defs if enclosing_for(d, h.node) is None]
    sets = [d for d in defs if d not in init]
    ok_init = len(init) == 1 and norm.U(init[0].value) == "-1"
    ctx.ob(4, "K5", "without a suitable pool the chooser answers -1", ok_init, h, init[0] if init else h.node, construct="id_ = -1", detail=f"{[stmt_text(d) for d in init]}")
    ctx.ob(4, "K3", "the chooser picks a pool inside one scan", len(sets) == 1, h, sets[0] if sets else h.node, construct="id_ = i", detail=f"{[stmt_text(d) for d in sets]}")
    if len(sets) != 1:
        return
    d = sets[0]
    lp = enclosing_for(d, h.node)
    ok_loop = lp is not None and isinstance(lp.target, ast.Name) and norm.U(lp.iter) == f"{hp[0]}.executor.num_pools".join(["range(", ")"]) and norm.is_name(d.value, lp.target.id)
    ctx.ob(4, "K3", "the scan covers every pool index", ok_loop, h, lp or d, detail=stmt_text(lp) if lp else "no loop")
    if not ok_loop:
        return
    i = lp.target.id
    fs = g.facts_at(d)
    cpu_t, ram_t = f"{st}[{i}]['avail_cpu']", f"{st}[{i}]['avail_ram']"
    cpu_ok = norm.entails(fs, ("cmp", "<", "0", cpu_t))
    # best-so-far variable: the one compared with ram
    best = None
    for a in fs:
        if a[0] == "cmp" and a[1] == "<" and a[3] == ram_t:
            best = a[2]
    ram_ok = best is not None
    binit = [n for n in own_nodes(h.node) if isinstance(n, ast.Assign) and any(norm.is_name(t, best) for t in n.targets) and enclosing_for(n, h.node) is None] if best else []
    bupd = [n for n in own_nodes(h.node) if isinstance(n, ast.Assign) and any(norm.is_name(t, best) for t in n.targets) and enclosing_for(n, h.node) is lp] if best else []
    okb = len(binit) == 1 and isinstance(binit[0].value, ast.Constant) and binit[0].value.value == 0 and len(bupd) == 1 and norm.U(bupd[0].value) == ram_t \
        and any(bupd[0] is x for x in poolmod.block_of(d))
    ctx.ob(4, "K2", "a pool is chosen only if it has free CPU (> 0) and strictly more free RAM than the best so far, the best starting at 0 (so free RAM > 0)",
           cpu_ok and ram_ok and okb, h, d, detail=f"facts at the choice: {sorted(norm.show(x) for x in fs)}; best-so-far `{best}` starts at 0 and is updated with the choice: {okb}")
    # completeness: any pool with cpu > 0 and ram > best is taken
    hid = g.node_of(lp).id
    allowed = [("cmp", "<=", cpu_t, "0"), ("cmp", "<=", ram_t, best or "?")]

    def edge_ok(a, b, lab):
        if a == hid and lab == "done":
            return False
        if isinstance(lab, tuple) and lab[0] == "cond":
            at = norm.atoms_true(lab[1])
            if any(x in at for x in allowed):
                return False
            for x in at:
                if x[0] == "or" and all(k in allowed for k in x[1]):
                    return False
        return True
    skip = g.path_avoiding(hid, {hid, g.exit.id}, {g.node_of(d).id}, edge_ok=edge_ok)
    ctx.ob(4, "K2", "work conservation: every pool with free CPU > 0 and free RAM above the best so far is taken into account (none is skipped for another reason)",
           skip is None, h, d, construct="chooser completeness", detail="an iteration skips the choice only when cpu <= 0 or ram <= best" if skip is None else f"skip: {g.describe_path(skip)}")
    byp = g.path_avoiding(g.entry.id, {g.exit.id}, {hid})
    ctx.ob(4, "K3", "the scan always runs", byp is None, h, lp, construct="scan on every path", detail="on every path" if byp is None else g.describe_path(byp))


def check_job_loop(ctx, f, s_p, ql):
    P = ctx.P
    g = cfg_of(f, subst_env=False)
    if ql is None:
        return
    qv = ql.target.id
    jls = [n for n in ast.walk(ql) if isinstance(n, ast.For) and norm.is_name(n.iter, qv) and isinstance(n.target, ast.Name)]
    job_loops = [n for n in jls if any(isinstance(x, ast.Call) and norm.call_name(x) == "Assignment" for x in ast.walk(n))]
    ctx.ob(3, "K3", "each queue is scanned from the head, job by job", len(job_loops) == 1, f, job_loops[0] if job_loops else ql, construct="for job in queue", detail=f"{[stmt_text(j) for j in jls]}")
    if len(job_loops) != 1:
        return
    jl = job_loops[0]
    jv = jl.target.id
    hid = g.node_of(jl).id
    # deferred removal
    rems = [c for c in ast.walk(ql) if isinstance(c, ast.Call) and isinstance(c.func, ast.Attribute) and c.func.attr == "remove" and norm.is_name(c.func.value, qv)]
    okrem = False
    D = None
    d = f"removals: {[norm.U(r) for r in rems]}"
    if len(rems) == 1:
        rl = enclosing_for(rems[0], f.node)
        if rl is not None and rl is not jl and isinstance(rl.iter, ast.Name) and isinstance(rl.target, ast.Name) and norm.is_name(rems[0].args[0], rl.target.id) \
                and enclosing_for(rl, f.node) is ql and before(f, jl, rl):
            D = rl.iter.id
            okrem = True
    ctx.ob(3, "K1", "jobs leave a queue only through the deferred removal of the jobs handled in this round (after the scan of that queue)", okrem, f, rems[0] if rems else jl,
           construct="for j in to_remove: queue.remove(j)", detail=d)
    other_muts = [c for c in ast.walk(ql) if isinstance(c, ast.Call) and isinstance(c.func, ast.Attribute) and norm.is_name(c.func.value, qv) and c.func.attr not in ("remove",)]
    ctx.ob(3, "K1", "the queue is not reordered or otherwise modified during the scan", not other_muts, f, other_muts[0] if other_muts else jl, construct="queue mutations during the scan",
           detail=f"{[norm.U(m) for m in other_muts]}")
    if not D:
        return
    marks = [c for c in ast.walk(jl) if isinstance(c, ast.Call) and isinstance(c.func, ast.Attribute) and c.func.attr == "append" and norm.is_name(c.func.value, D)
             and c.args and norm.is_name(c.args[0], jv)]
    ctx.ob(4, "K3", "a job visited in the scan is marked handled at one site", len(marks) == 1, f, marks[0] if marks else jl, construct="to_remove.append(job)", detail=f"{len(marks)} site(s)")
    if len(marks) != 1:
        return
    m = marks[0]
    mid = g.node_of(m).id
    # the pool choice
    pcs = [c for c in ast.walk(jl) if isinstance(c, ast.Call) and norm.call_name(c) == "get_pool_with_max_avail_ram"]
    pid_name = None
    if len(pcs) == 1 and isinstance(parent(pcs[0]), ast.Assign) and isinstance(parent(pcs[0]).targets[0], ast.Name):
        pid_name = parent(pcs[0]).targets[0].id
    ctx.ob(4, "K3", "for every job the pool with most free RAM (and free CPU) is looked up on the round's snapshot", pid_name is not None, f, pcs[0] if pcs else jl,
           construct="pool_id = get_pool_with_max_avail_ram(s, pool_stats)", detail=f"{[norm.U(c) for c in pcs]}")
    if pid_name is None:
        return
    depl = norm.mk_cmp("==", "-1", pid_name)

    def edge_ok(a, b, lab):
        if a == hid and lab == "done":
            return False
        return True
    # paths through an iteration that avoid the mark: they must pass the edge `pool_id == -1`
    def edge_ok2(a, b, lab):
        if not edge_ok(a, b, lab):
            return False
        if isinstance(lab, tuple) and lab[0] == "cond" and depl in norm.atoms_true(lab[1]):
            return False
        return True
    exits = {hid, g.exit.id} | {g.node_of(n).id for n in ast.walk(ql) if isinstance(n, ast.For) and n is not jl and before(f, jl, n)}
    skip = g.path_avoiding(hid, exits, {mid}, edge_ok=edge_ok2)
    ctx.ob(4, "K2", "a ready job is left waiting only when every pool is depleted: the only way past a job without handling it is the break taken when no pool "
           "with free CPU and RAM exists (pool id -1)", skip is None, f, m, construct="stay queued only if pools depleted",
           detail="every path that does not mark the job handled passes `pool_id == -1`" if skip is None else f"other way to leave a job waiting: {g.describe_path(skip)}")
    # and on -1 the scan of this queue stops (break), so later jobs of the same and lower queues also wait only because of depletion
    brk = [n for n in ast.walk(jl) if isinstance(n, ast.Break)]
    okb = any(norm.entails(g.facts_at(b), depl) for b in brk) and all(norm.entails(g.facts_at(b), depl) for b in brk)
    ctx.ob(4, "K2", "the scan of a queue is cut short only by depletion of all pools", okb, f, brk[0] if brk else jl, construct="break only under pool_id == -1",
           detail=f"{len(brk)} break(s); facts: {[sorted(norm.show(x) for x in g.facts_at(b)) for b in brk]}")
    # every Assignment of the scan goes to the chosen pool and is started (returned)
    sites = [c for c in ast.walk(jl) if isinstance(c, ast.Call) and norm.call_name(c) == "Assignment"]
    for c in sites:
        pid = sched.asg_arg(c, "pool_id")
        pr = sched.asg_arg(c, "priority")
        ops = sched.asg_arg(c, "ops")
        le = c16._loopenv(jl)
        okc = pid is not None and norm.is_name(pid, pid_name) and pr is not None and norm.U(pr) == f"{jv}.priority" and ops is not None and norm.U(norm.subst(ops, le)) == f"{jv}.ops"
        ctx.ob(4, "K6", "a job is assigned to the pool chosen for it, with its own priority and operators", okc, f, c,
               detail=f"pool_id={norm.U(pid) if pid is not None else None}; priority={norm.U(pr) if pr is not None else None}; ops={norm.U(norm.subst(ops, le)) if ops is not None else None}")


def check_suspension(ctx, f, s_p, qmap, admissibility_only=False):
    P = ctx.P
    g = cfg_of(f, subst_env=False)
    # (5) who may construct Suspend
    sites = [(fn_, c) for fn_, c in package_calls(P, "Suspend") if isinstance(c.func, ast.Name)]
    ctx.count_min("Suspend( construction sites in the package", len(sites), 2)
    for fn_, c in sites:
        # the priority scheduler itself, or the REST bridge module (whose functions only decode what an external scheduler decided)
        ok = (fn_.mod.rel == PRIO and fn_.qual == f.qual) or fn_.mod.rel == REST
        ctx.ob(5, "K1", "containers are suspended only by the priority scheduler (the REST bridge merely decodes external decisions)", ok, fn_, c, detail=f"Suspend( in {fn_.mod.rel}::{fn_.qual}")
    qq = [q for q, m in qmap.items() if m == "QUERY"]
    qry = f"{s_p}.{qq[0]}" if qq else f"{s_p}.qry_jobs"
    mine = [c for fn_, c in sites if same_fn(fn_, f)]
    for c in mine:
        fs = g.facts_at(c)
        if not admissibility_only:
            ctx.ob(6, "K2", "a Suspend is issued only while a query job is waiting", norm.entails(fs, ("truth", qry, True)), f, c, construct="guard: len(s.qry_jobs) > 0",
                   detail=f"facts: {sorted(norm.show(x) for x in fs)}")
        lp = enclosing_for(c, f.node)
        ok = lp is not None and isinstance(lp.iter, ast.Name) and isinstance(lp.target, ast.Name)
        if not ok:
            ctx.ob(6, "K6", "Suspend commands are built from the list of selected containers", False, f, c, detail=stmt_text(lp) if lp else "no loop")
            continue
        L, sv = lp.iter.id, lp.target.id
        args = [norm.U(a) for a in c.args] + [f"{k.arg}={norm.U(k.value)}" for k in c.keywords]
        okargs = norm.U(norm.kwarg(c, "container_id", 0)) == f"{sv}.container_id" and norm.U(norm.kwarg(c, "pool_id", 1)) == f"{sv}.pool_id"
        ctx.ob(6, "K6", "the Suspend names the selected container by its own id and pool", okargs, f, c, detail=f"args: {args}")
        # selection
        sel = [a for a in calls_named(f, "append") if isinstance(a.func, ast.Attribute) and norm.is_name(a.func.value, L) and a.args and isinstance(a.args[0], ast.Name)]
        ctx.ob(6, "K3", "containers are selected for suspension at one site", len(sel) == 1, f, sel[0] if sel else lp, construct="to_suspend.append(container)", detail=f"{len(sel)} site(s)")
        for a in sel:
            cv = a.args[0].id
            # guards are evaluated where the selection is decided: at the first statement of the selecting block
            fa = g.facts_at(poolmod.block_of(poolmod.stmt_of(a))[0])
            src, elem_facts = _container_source_facts(f, g, a, cv, s_p)
            fa = set(fa) | elem_facts          # what the filter of the generator it was drawn from says about the candidate
            can = norm.entails(fa, ("truth", f"{cv}.can_suspend_container()", True))
            notq = norm.entails(fa, norm.mk_cmp("!=", "Priority.QUERY", f"{cv}.priority"))
            # at most one per waiting query job: a counter below len(qry_jobs)
            bound = False
            for x in fa:
                if x[0] == "cmp" and x[1] == "<":
                    rhs = x[3]
                    rdefs = [n for n in own_nodes(f.node) if isinstance(n, ast.Assign) and any(norm.is_name(t, rhs) for t in n.targets)]
                    if rhs == f"len({qry})" or (len(rdefs) == 1 and norm.U(rdefs[0].value) == f"len({qry})" and _len_still_current(f, g, rdefs[0], a, qry)):
                        cnt = x[2]
                        if cnt == f"len({L})":
                            # the number selected so far is the length of the selection list itself
                            linit = [n for n in own_nodes(f.node) if isinstance(n, ast.Assign) and any(norm.is_name(t, L) for t in n.targets)]
                            bound = len(linit) == 1 and isinstance(linit[0].value, ast.List) and not linit[0].value.elts
                            continue
                        incs = [n for n in own_nodes(f.node) if isinstance(n, ast.AugAssign) and norm.is_name(n.target, cnt) and isinstance(n.op, ast.Add)
                                and isinstance(n.value, ast.Constant) and n.value.value == 1 and any(n is s for s in poolmod.block_of(poolmod.stmt_of(a)))]
                        inits = [n for n in own_nodes(f.node) if isinstance(n, ast.Assign) and any(norm.is_name(t, cnt) for t in n.targets)]
                        bound = len(incs) == 1 and len(inits) == 1 and isinstance(inits[0].value, ast.Constant) and inits[0].value.value == 0
            # the container comes from some pool's active list
            ctx.ob(6, "K2", "a container is selected only if it reports can_suspend_container() (operator boundary)", can, f, a, construct="guard: can_suspend_container()",
                   detail=f"facts: {sorted(norm.show(x) for x in fa)}")
            if not admissibility_only:
                ctx.ob(6, "K2", "a query container is never selected", notq, f, a, construct="guard: priority != QUERY", detail=f"facts: {sorted(norm.show(x) for x in fa)}")
                ctx.ob(6, "K2", "at most one container is selected per waiting query job (a counter starting at 0, incremented with each selection, stays below len(qry_jobs))", bound, f, a,
                       construct="guard: cnt < len(s.qry_jobs)", detail=f"facts: {sorted(norm.show(x) for x in fa)}")
            ctx.ob(6, "K6", "candidates are taken from the pools' active containers", src, f, a, construct="source: pools[i].active_containers", detail=f"container variable {cv}")
        # (7) re-offer registration in the same block as the Suspend
        blk = poolmod.block_of(poolmod.stmt_of(c))
        regs = [n for n in blk if isinstance(n, ast.Assign) and len(n.targets) == 1 and isinstance(n.targets[0], ast.Subscript)
                and norm.U(n.targets[0].value) == f"{s_p}.suspending" and norm.U(n.targets[0].slice) == f"{sv}.container_id"]
        okreg = len(regs) == 1 and g.control_equivalent(poolmod.stmt_of(c), regs[0], lp)
        d = f"registrations in the block of the Suspend: {[stmt_text(r)[:80] for r in regs]}; executed whenever the Suspend is issued: {okreg}"
        if okreg:
            le = {}
            for n in blk:
                if isinstance(n, ast.Assign) and len(n.targets) == 1 and isinstance(n.targets[0], ast.Name):
                    le[n.targets[0].id] = n.value
            job = norm.subst(regs[0].value, le)
            okreg = isinstance(job, ast.Call) and norm.call_name(job) == "WaitingQueueJob"
            if okreg:
                ops = norm.kwarg(job, "ops", 2)
                pr = norm.kwarg(job, "priority", 0)
                rs = norm.kwarg(job, "retry_stats", 3)
                okops = isinstance(ops, ast.ListComp) and len(ops.generators) == 1 and norm.U(ops.generators[0].iter) == f"{sv}.operators" and len(ops.generators[0].ifs) == 1 \
                    and norm.nnf(ops.generators[0].ifs[0]) == norm.mk_cmp("!=", "OperatorState.COMPLETED", f"{ops.generators[0].target.id}.state()") \
                    and norm.is_name(ops.elt, ops.generators[0].target.id)
                okpr = pr is not None and norm.U(pr) in (f"{sv}.priority", f"{sv}.assignment.priority")
                okrs = isinstance(rs, ast.Call) and norm.call_name(rs) == "RetryStats" and norm.U(norm.kwarg(rs, "old_ram")) == f"{sv}.assignment.ram" \
                    and norm.U(norm.kwarg(rs, "old_cpu")) == f"{sv}.assignment.cpu" and norm.U(norm.kwarg(rs, "error")) in (f"{sv}.error", "None")
                okreg = okops and okpr and okrs
                d += f"; unfinished operators of the container: {okops}; its priority: {okpr}; its allocation, no error: {okrs}"
        ctx.ob(7, "K18", "re-offer does not depend on observing the transient `suspending` state: the displaced work is registered under the container's id when the "
               "Suspend is issued (same block)", okreg, f, c, construct="s.suspending[container_id] = job at Suspend", detail=d)
    if admissibility_only:
        return
    # the re-queue of suspended work
    pops = [n for n in own_nodes(f.node) if isinstance(n, ast.Call) and isinstance(n.func, ast.Attribute) and n.func.attr == "pop" and norm.U(n.func.value) == f"{s_p}.suspending"]
    okq = False
    d = f"{[norm.U(p) for p in pops]}"
    for p_ in pops:
        lp = enclosing_for(p_, f.node)
        olp = enclosing_for(lp, f.node) if lp is not None else None
        if lp is None or olp is None or not isinstance(lp.target, ast.Name):
            continue
        cv = lp.target.id
        src_ok = norm.U(lp.iter) == f"{s_p}.executor.pools[{olp.target.id}].suspended_containers" if isinstance(olp.target, ast.Name) else False
        allp = norm.U(olp.iter) == f"range({s_p}.executor.num_pools)"
        key_ok = p_.args and norm.U(p_.args[0]) == f"{cv}.container_id"
        guard = norm.entails(g.facts_at(p_), ("cmp", "in", f"{cv}.container_id", f"{s_p}.suspending"))
        jn = parent(p_).targets[0].id if isinstance(parent(p_), ast.Assign) and isinstance(parent(p_).targets[0], ast.Name) else None
        apps = [a for a in calls_named(f, "append") if jn and a.args and norm.is_name(a.args[0], jn) and any(poolmod.stmt_of(a) is s for s in poolmod.block_of(poolmod.stmt_of(p_)))]
        app_ok = len(apps) == 1 and norm.U(apps[0].func.value) == f"{s_p}.queues_by_prio[{jn}.priority]"
        # completeness: every registered suspended container is re-queued
        hid = g.node_of(lp).id
        nin = ("cmp", "notin", f"{cv}.container_id", f"{s_p}.suspending")

        def edge_ok(a, b, lab, hid=hid, nin=nin):
            if a == hid and lab == "done":
                return False
            return not (isinstance(lab, tuple) and lab[0] == "cond" and nin in norm.atoms_true(lab[1]))
        skip = g.path_avoiding(hid, {hid, g.exit.id}, {g.node_of(p_).id}, edge_ok=edge_ok)
        byp = g.path_avoiding(g.entry.id, {g.exit.id}, {g.node_of(olp).id})
        before = all(g.dominates(olp, x) for x in [n for n in own_nodes(f.node) if isinstance(n, ast.Call) and norm.call_name(n) == "Assignment"])
        okq = src_ok and allp and key_ok and guard and app_ok and skip is None and byp is None and before
        d = (f"scans suspended_containers of every pool: {src_ok and allp}; pops the job registered under the container's id: {key_ok and guard}; "
             f"appends it to the queue of its priority: {app_ok}; every registered one re-queued: {skip is None}; every round, before assignments: {byp is None and before}")
    ctx.ob(7, "K18", "work whose suspension has ended (container in suspended_containers, id registered) is put back on the queue of its priority in the next round",
           okq, f, pops[0] if pops else f.node, construct="re-queue of suspended work", detail=d)


def _len_still_current(f, g, d: ast.stmt, use: ast.AST, qry: str) -> bool:
    """`n = len(<queue>)` taken at d still is the length of the queue at `use`: no statement that can add to / remove from that
    queue (directly, or through a loop variable that ranges over a list of queues containing it) lies on a way from d to use."""
    aliases = {qry}
    lists = set()
    for n in own_nodes(f.node):
        if isinstance(n, ast.Assign) and len(n.targets) == 1 and isinstance(n.targets[0], ast.Name) and isinstance(n.value, (ast.List, ast.Tuple)) \
                and any(norm.U(e) == qry for e in n.value.elts):
            lists.add(n.targets[0].id)
    for n in own_nodes(f.node):
        if isinstance(n, ast.For) and isinstance(n.target, ast.Name) and ((isinstance(n.iter, ast.Name) and n.iter.id in lists)
                                                                        or (isinstance(n.iter, (ast.List, ast.Tuple)) and any(norm.U(e) == qry for e in n.iter.elts))):
            aliases.add(n.target.id)
        if isinstance(n, ast.Assign) and len(n.targets) == 1 and isinstance(n.targets[0], ast.Name) and norm.U(n.value) == qry:
            aliases.add(n.targets[0].id)
    d_id, u_id = g.node_of(d).id, g.node_of(use).id
    for c in own_nodes(f.node):
        if isinstance(c, ast.Call) and isinstance(c.func, ast.Attribute) and c.func.attr in ("append", "remove", "pop", "insert", "extend", "clear") and norm.U(c.func.value) in aliases:
            m = g.node_of(c).id
            if m in (d_id, u_id):
                continue
            if g.path_avoiding(d_id, {m}, {d_id}) is not None and g.path_avoiding(m, {u_id}, {d_id}) is not None:
                return False
    return True


def _container_source(f, g, at, cv: str, s_p: str) -> bool:
    return _container_source_facts(f, g, at, cv, s_p)[0]


def _container_source_facts(f, g, at, cv: str, s_p: str):
    """cv is bound by next(iters[..][, default]) where iters = [iter(pools[i].active_containers) for i in range(num_pools)] — or a filtered generator
    `(c for c in pools[i].active_containers if COND)` in place of iter(..) — or by a for loop over active_containers.
    -> (ok, what the filters say about every element drawn)"""
    extra = set()
    defs = [n for n in own_nodes(f.node) if isinstance(n, ast.Assign) and any(norm.is_name(t, cv) for t in n.targets)]
    if not defs:
        lp = enclosing_for(at, f.node)
        while lp is not None:
            if isinstance(lp.target, ast.Name) and lp.target.id == cv and norm.U(lp.iter).endswith(".active_containers"):
                return True, extra
            lp = enclosing_for(lp, f.node)
        return False, extra
    ok = True
    first = True
    for d in defs:
        v = d.value
        drawn = set()
        if isinstance(v, ast.Call) and norm.is_name(v.func, "next") and len(v.args) in (1, 2) and isinstance(v.args[0], ast.GeneratorExp) and len(v.args[0].generators) == 1 \
                and isinstance(v.args[0].generators[0].target, ast.Name) and norm.is_name(v.args[0].elt, v.args[0].generators[0].target.id):
            # next((c for c in iters[i] if COND), None): draws from iters[i] until COND holds
            ge = v.args[0]
            for cond in ge.generators[0].ifs:
                drawn |= set(norm.atoms_true(norm.nnf(norm.Subst({ge.generators[0].target.id: ast.Name(id=cv, ctx=ast.Load())}).visit(norm.clone(cond)))))
            v = ast.Call(func=v.func, args=[ge.generators[0].iter] + v.args[1:], keywords=v.keywords)
        if not (isinstance(v, ast.Call) and norm.is_name(v.func, "next") and len(v.args) in (1, 2) and isinstance(v.args[0], ast.Subscript) and isinstance(v.args[0].value, ast.Name)
                and (len(v.args) == 1 or (isinstance(v.args[1], ast.Constant) and v.args[1].value is None)) and not v.keywords):
            ok = False
            continue
        its = v.args[0].value.id
        idef = [n for n in own_nodes(f.node) if isinstance(n, ast.Assign) and any(norm.is_name(t, its) for t in n.targets)]
        if not (len(idef) == 1 and isinstance(idef[0].value, ast.ListComp) and len(idef[0].value.generators) == 1 and not idef[0].value.generators[0].ifs):
            ok = False
            continue
        lc = idef[0].value
        iv = lc.generators[0].target.id if isinstance(lc.generators[0].target, ast.Name) else "?"
        if norm.U(norm.subst(lc.generators[0].iter, single_defs(f))) != f"range({s_p}.executor.num_pools)":
            ok = False
            continue
        here = set()
        if norm.U(lc.elt) == f"iter({s_p}.executor.pools[{iv}].active_containers)":
            pass
        elif isinstance(lc.elt, ast.GeneratorExp) and len(lc.elt.generators) == 1 and isinstance(lc.elt.generators[0].target, ast.Name) \
                and norm.is_name(lc.elt.elt, lc.elt.generators[0].target.id) and norm.U(lc.elt.generators[0].iter) == f"{s_p}.executor.pools[{iv}].active_containers":
            ev = lc.elt.generators[0].target.id
            for cond in lc.elt.generators[0].ifs:
                here |= set(norm.atoms_true(norm.nnf(norm.Subst({ev: ast.Name(id=cv, ctx=ast.Load())}).visit(norm.clone(cond)))))
        else:
            ok = False
            continue
        here |= drawn
        extra = here if first else (extra & here)
        first = False
    return ok, (extra if ok else set())


def check_priority_pool_order(ctx):
    P = ctx.P
    f = sched.scheduler(P, "priority-pool")
    ctx.touch(f)
    g = cfg_of(f, subst_env=False)
    s_p = f.params()[0]
    inv = {}
    for c, q, tests, job in c16.enqueue_sites(f, g, s_p):
        if len(tests) == 1 and q.endswith("_jobs"):
            inv.setdefault(q, set()).add(tests[0][1])
    tabs = [n for n in own_nodes(f.node) if isinstance(n, ast.Assign) and isinstance(n.value, ast.Dict) and all(isinstance(v, ast.List) for v in n.value.values)
            and any(isinstance(e, ast.Attribute) and e.attr in inv for v in n.value.values for e in v.elts)]
    ok = False
    d = "pool table not found"
    if len(tabs) == 1:
        for k, v in zip(tabs[0].value.keys, tabs[0].value.values):
            if isinstance(k, ast.Constant) and k.value == 0:
                order = [sorted(inv.get(e.attr, {"?"}))[0] if isinstance(e, ast.Attribute) else "?" for e in v.elts]
                ok = order == ["QUERY", "INTERACTIVE"]
                d = f"pool 0 drains {order}"
    ctx.ob(2, "K5", "within the shared pool of priority-pool, query work is drained before interactive work", ok, f, tabs[0] if tabs else f.node, construct="pool_queues[0] order", detail=d)
    # work conservation across pools: the state of one pool never keeps another pool's queues from being served in the round
    sites = [c for fn_, c in sched.assignment_sites(P, f) if same_fn(fn_, f)]
    pls = []
    for c in sites:
        lp = enclosing_for(c, f.node)
        while lp is not None:
            if isinstance(lp.iter, ast.Call) and norm.is_name(lp.iter.func, "range") and norm.U(lp.iter) == f"range({s_p}.executor.num_pools)" and not any(lp is x for x in pls):
                pls.append(lp)
            lp = enclosing_for(lp, f.node)
    for pl in pls:
        byp = g.path_avoiding(g.entry.id, {g.exit.id}, {g.node_of(pl).id})
        ctx.ob(4, "K3", "[priority-pool] every round runs the placement pass: a ready job may be waiting from an earlier round for capacity that a finished container has "
               "just released, whatever this round's arrivals and failures are (no early return before the pool loop)", byp is None, f, pl, construct="placement pass on every path",
               detail="the pool loop is on every path from entry to return" if byp is None else g.describe_path(byp))
        hid = g.node_of(pl).id
        inside = {g.node_of(st).id for b in pl.body for st in ast.walk(b) if isinstance(st, ast.stmt) and id(st) in g.stmt_node}
        # leaving the pool loop other than by exhausting it: an edge from a node inside the body to a node outside that is not the header
        early = None
        for i in inside:
            for t, lab in g.nodes[i].succ:
                if lab != "exc" and t != hid and t not in inside and t != g.raise_.id:
                    early = g.nodes[i]
        ctx.ob(4, "K3", "[priority-pool] every pool's queues are served in every round: the per-pool loop is left only when all pools were visited "
               "(a depleted pool ends the work on that pool, not the round)", early is None, f, early.ast if early is not None and early.ast is not None else pl,
               construct="pool loop without early exit", detail="no break / return leaves the pool loop" if early is None else f"L{early.line} leaves the loop before all pools were visited")


def run(ctx):
    f, s_p, qmap, ql = check_queue_order(ctx)
    check_priority_pool_order(ctx)
    check_new_work_queued(ctx, f, s_p)
    sched.ob_no_mutation_while_iterating(ctx, 2, "priority", "priority")
    sched.ob_no_mutation_while_iterating(ctx, 2, "priority-pool", "priority-pool")
    # which operators are "ready, pending" is what get_ops says: it must list every operator that qualifies (C01#7/#8)
    from . import c01
    c01.check_get_ops(Renumber(ctx, {7: 3, 8: 3}))
    check_job_loop(ctx, f, s_p, ql)
    check_pool_choice(ctx, f, s_p)
    check_suspension(ctx, f, s_p, qmap)
    # the table of displaced work and the scan of suspended containers meet on the container id alone (#7): an id must name one container
    from . import c09
    c09.check_container_ids(Renumber(ctx, {2: 7}), 2)
    check_retry_record(ctx, f, 4)
    sched.ob_wrapper_passes_through(ctx, 3)      # "first container in arrival order": arrivals reach the policy in the tick and order in which they came
    check_pool_break(ctx)
    check_pool_queue_fifo(ctx)
    # "left waiting only when the pools are depleted" presupposes that what arrives is queued at all (#4)
    sched.ob_arrivals_considered(ctx, 4, "priority", "priority")
    sched.ob_arrivals_considered(ctx, 4, "priority-pool", "priority-pool")
