"""C16 — priority-pool keeps batch work and latency-sensitive work on separate pools."""
from __future__ import annotations

import ast
from typing import Dict, List, Optional, Set, Tuple

from .. import norm, ratform
from ..model import own_nodes, stmt_text, parent
from ..util import cfg_of, calls_named, single_defs
from .common import *
from . import sched

EXPLANATION = (
    "Static decision of the structural clauses of C16 in the function registered as `priority-pool`.  (1) every enqueue site "
    "`s.<queue>.append(job)` is reached under exactly one `<x>.priority == Priority.P` test, the three enqueue chains (new work, "
    "failed work, resumed work) each cover all three priorities, all sites agree on one queue<->priority bijection, and the job "
    "enqueued carries the priority that was tested.  (2) the literal pool table maps pool 0 to the queues of {QUERY, INTERACTIVE} "
    "(in that order) and pool 1 to the queue of {BATCH_PIPELINE} — spec from the property text — and init asserts two pools.  "
    "(3) every Assignment takes its job from a queue of pool_queues[i] and is built with pool_id = that same loop index i and "
    "priority = job.priority; failed work is queued under the result's priority (closed loop through ExecutionResult).  (4) no "
    "Suspend is constructed, the returned suspension list is a fresh empty list.  (5) retry: the retried operators are exactly "
    "the non-COMPLETED operators of the failed result, kept together in one job; the request is 2 x the old allocation; the "
    "Assignment is reached only with both 2*old/total ratios < 0.5, the ratios being computed from the doubled request before "
    "any clamping to free resources; a retry that builds no Assignment has passed the half-pool test (it is never dropped for another reason); the "
    "result a retry is cut from lists the ended container's whole operator list.")
UNDECIDED = "arrival patterns and OOM histories are not executed; the sizing policy for new jobs (10 %) is not part of the property"
ASSUMPTIONS = COMMON_ASSUMPTIONS

SPEC_POOLS = {0: ["QUERY", "INTERACTIVE"], 1: ["BATCH_PIPELINE"]}
PRIOS = ["QUERY", "INTERACTIVE", "BATCH_PIPELINE"]


def priority_members(P) -> Dict[str, int]:
    c = P.cls("eudoxia/utils/utils.py", "Priority")
    out = {}
    for st in c.node.body:
        if isinstance(st, ast.Assign) and len(st.targets) == 1 and isinstance(st.targets[0], ast.Name) and isinstance(st.value, ast.Constant):
            out[st.targets[0].id] = st.value.value
    return out


def enqueue_sites(f, g, s_p: str):
    """[(call, queue attr, tested term, priority member, job name)] for  s.<q>.append(<job>)"""
    out = []
    for c in calls_named(f, "append"):
        if isinstance(c.func, ast.Attribute) and isinstance(c.func.value, ast.Attribute) and norm.is_name(c.func.value.value, s_p) and c.args \
                and isinstance(c.args[0], ast.Name):
            q = c.func.value.attr
            fs = g.facts_at(c)
            tests = []
            for a in fs:
                if a[0] == "cmp" and a[1] == "==":
                    for x, y in ((a[2], a[3]), (a[3], a[2])):
                        if x.startswith("Priority.") and y.endswith(".priority"):
                            tests.append((y, x.split(".", 1)[1]))
            out.append((c, q, tests, c.args[0].id))
    return out


def queue_map(ctx, f, g, s_p, num=1) -> Dict[str, str]:
    sites = enqueue_sites(f, g, s_p)
    sites = [s for s in sites if s[1].endswith("_jobs")]
    ctx.count_min("enqueue sites in priority-pool", len(sites), 3)
    qmap: Dict[str, Set[str]] = {}
    chains: Dict[str, Set[str]] = {}
    for c, q, tests, job in sites:
        ok = len(tests) == 1
        d = f"priority tests holding at the site: {tests}"
        if ok:
            term, member = tests[0]
            qmap.setdefault(q, set()).add(member)
            # identify the if/elif chain the site belongs to (the outermost If of the chain)
            top = c
            node_ = parent(c)
            while node_ is not None and node_ is not f.node:
                if isinstance(node_, ast.If):
                    top = node_
                    pp = parent(node_)
                    if not (isinstance(pp, ast.If) and len(pp.orelse) == 1 and pp.orelse[0] is node_):
                        break
                node_ = parent(node_)
            chains.setdefault((term, getattr(top, "lineno", 0), getattr(top, "col_offset", 0), id(top)), set()).add(member)
            # the job enqueued carries the tested priority
            defs = sched.reaching_defs(f, g, c, job)
            jp = None
            for dd in defs:
                if isinstance(dd, ast.Assign) and isinstance(dd.value, ast.Call) and norm.call_name(dd.value) == "WaitingQueueJob":
                    pr = norm.kwarg(dd.value, "priority", 0)
                    jp = norm.U(pr) if pr is not None else None
                elif isinstance(dd, ast.Assign) and isinstance(dd.value, ast.Subscript) and ".suspending" in norm.U(dd.value.value):
                    jp = f"{job}.priority"
            okp = jp == term or term == f"{job}.priority"
            ok = okp
            d += f"; priority of the enqueued job: {jp}"
        ctx.ob(num, "K5", "a job is put on a queue under exactly one priority test, and it carries that priority", ok, f, c, detail=d)
    for q, ms in sorted(qmap.items()):
        ctx.ob(num, "K5", f"all enqueue sites agree on the priority served by queue {q}", len(ms) == 1, f, f.node, construct=f"queue {q}", detail=f"priorities: {sorted(ms)}")
    for i_, (ck, ms) in enumerate(sorted(chains.items(), key=lambda kv: kv[0][1:3])):
        ctx.ob(num, "K5", f"the enqueue chain on {ck[0]} covers all three priorities (no job is silently dropped)", ms == set(PRIOS), f, f.node, construct=f"chain {i_ + 1} on {ck[0]}",
               detail=f"covered: {sorted(ms)}")
    ctx.ob(num, "K5", "there are three enqueue chains: new work, failed work, resumed work", len(chains) == 3, f, f.node, construct="enqueue chains", detail=f"{sorted(k[0] for k in chains)}")
    inv = {}
    for q, ms in qmap.items():
        if len(ms) == 1:
            inv[q] = next(iter(ms))
    ctx.ob(num, "K5", "queues and priorities are in bijection", sorted(inv.values()) == sorted(PRIOS) and len(inv) == 3, f, f.node, construct="queue<->priority map",
           detail=f"{inv}")
    return inv


def run(ctx):
    P = ctx.P
    f = sched.scheduler(P, "priority-pool")
    ctx.touch(f)
    g = cfg_of(f, subst_env=False)
    params = f.params()
    s_p, res_p, pip_p = params[0], params[1], params[2]
    pm = priority_members(P)
    ctx.ob(1, "K5", "Priority has exactly the three documented classes", set(pm) == set(PRIOS), file="eudoxia/utils/utils.py", construct="class Priority", detail=f"{pm}")
    inv = queue_map(ctx, f, g, s_p, 1)
    # (2) pool table
    tabs = [n for n in own_nodes(f.node) if isinstance(n, ast.Assign) and len(n.targets) == 1 and isinstance(n.targets[0], ast.Name) and isinstance(n.value, ast.Dict)
            and all(isinstance(k, ast.Constant) and isinstance(k.value, int) for k in n.value.keys) and all(isinstance(v, ast.List) for v in n.value.values)
            and any(isinstance(e, ast.Attribute) and e.attr in inv for v in n.value.values for e in v.elts)]
    ctx.ob(2, "K5", "one literal table assigns queues to pools", len(tabs) == 1, f, tabs[0] if tabs else f.node, construct="pool_queues table", detail=f"{[stmt_text(t) for t in tabs]}")
    tabname = None
    if len(tabs) == 1:
        t = tabs[0]
        tabname = t.targets[0].id
        got = {}
        for k, v in zip(t.value.keys, t.value.values):
            got[k.value] = [inv.get(e.attr, f"?{norm.U(e)}") if isinstance(e, ast.Attribute) and norm.is_name(e.value, s_p) else f"?{norm.U(e)}" for e in v.elts]
        for pool_i, want in SPEC_POOLS.items():
            ctx.ob(2, "K5", f"pool {pool_i} serves exactly {want} (query before interactive on the shared pool)", got.get(pool_i) == want, f, t, construct=f"pool_queues[{pool_i}]",
                   detail=f"code: {got.get(pool_i)}; spec: {want}")
        ctx.ob(2, "K5", "no further pools are served", set(got) == set(SPEC_POOLS), f, t, construct="pool_queues keys", detail=f"{sorted(got)}")
    ini = P.scheduler_init("priority-pool")
    ctx.touch(ini)
    gi = cfg_of(ini, subst_env=False)
    two = gi.holds_at_exit(norm.mk_cmp("==", "2", f"{ini.params()[0]}.executor.num_pools"))
    ctx.ob(2, "K2", "the scheduler refuses to start unless there are exactly two pools", two, ini, ini.node, construct="assert num_pools == 2", detail=f"holds at exit of init: {two}")
    # (3) every Assignment
    sites = [c for fn_, c in sched.assignment_sites(P, f) if same_fn(fn_, f)]
    ctx.count_min("Assignment( sites in priority-pool", len(sites), 1)
    for c in sites:
        jl = enclosing_for(c, f.node)
        ql = enclosing_for(jl, f.node) if jl is not None else None
        pl = enclosing_for(ql, f.node) if ql is not None else None
        ok = jl is not None and ql is not None and pl is not None and isinstance(ql.target, ast.Name) and isinstance(jl.target, ast.Name) and (
            isinstance(pl.target, ast.Name) or (isinstance(pl.target, ast.Tuple) and len(pl.target.elts) == 2 and all(isinstance(x, ast.Name) for x in pl.target.elts)))
        d = "Assignment is not nested in pool loop > queue loop > job loop"
        if ok:
            qv, jv = ql.target.id, jl.target.id
            qsrc = norm.U(norm.subst(ql.iter, {k: v for k, v in _loopenv(pl).items()}))
            if isinstance(pl.target, ast.Name):
                pv = pl.target.id
                ok_nest = norm.U(pl.iter) in (f"range({s_p}.executor.num_pools)", "range(2)") and qsrc == f"{tabname}[{pv}]" and norm.is_name(jl.iter, qv)
            else:   # for i, queues in pool_queues.items()
                pv = pl.target.elts[0].id
                ok_nest = norm.U(pl.iter) == f"{tabname}.items()" and qsrc == pl.target.elts[1].id and norm.is_name(jl.iter, qv)
            pid = sched.asg_arg(c, "pool_id")
            pr = sched.asg_arg(c, "priority")
            ops = sched.asg_arg(c, "ops")
            opsr = norm.U(norm.subst(ops, _loopenv(jl))) if ops is not None else None
            # the three loop variables keep their meaning inside the loops: nothing in the pool loop binds them again
            rebound = []
            for n in ast.walk(pl):
                tg = []
                if isinstance(n, ast.Assign):
                    tg = n.targets
                elif isinstance(n, (ast.AugAssign, ast.AnnAssign)):
                    tg = [n.target]
                elif isinstance(n, (ast.For, ast.AsyncFor)) and n is not pl and n is not ql and n is not jl:
                    tg = [n.target]
                elif isinstance(n, (ast.With, ast.AsyncWith)):
                    tg = [it.optional_vars for it in n.items if it.optional_vars is not None]
                elif isinstance(n, ast.NamedExpr):
                    tg = [n.target]
                for t in tg:
                    for x in ast.walk(t):
                        if isinstance(x, ast.Name) and isinstance(x.ctx, ast.Store) and x.id in (pv, qv, jv):
                            rebound.append(n)
            ok = ok_nest and pid is not None and norm.is_name(pid, pv) and pr is not None and norm.U(pr) == f"{jv}.priority" and opsr == f"{jv}.ops" and not rebound
            if rebound:
                d = f"`{stmt_text(rebound[0])[:80]}` binds a loop variable ({pv}/{qv}/{jv}) again inside the pool loop: later jobs of the round are placed by the new value"
            else:
                d = (f"loops: `{stmt_text(pl)}` > `{stmt_text(ql)}` (source {qsrc}) > `{stmt_text(jl)}`; pool_id={norm.U(pid) if pid is not None else None}; "
                     f"priority={norm.U(pr) if pr is not None else None}; ops={opsr}")
        ctx.ob(3, "K6", "a job taken from a queue of pool i is assigned to pool i, with the job's priority and the job's operators", ok, f, c, detail=d)
    # failed work is queued under the result's priority
    # (covered by queue_map: the chain on f.priority where f iterates failures)
    fails = [n for n in own_nodes(f.node) if isinstance(n, ast.Assign) and len(n.targets) == 1 and isinstance(n.targets[0], ast.Name) and isinstance(n.value, ast.ListComp)
             and len(n.value.generators) == 1 and norm.is_name(n.value.generators[0].iter, res_p)]
    okf = False
    fl_name = None
    for n in fails:
        ge = n.value.generators[0]
        if isinstance(ge.target, ast.Name) and norm.is_name(n.value.elt, ge.target.id) and len(ge.ifs) == 1 and norm.nnf(ge.ifs[0]) == ("truth", f"{ge.target.id}.failed()", True):
            okf, fl_name = True, n.targets[0].id
    ctx.ob(5, "K6", "failed work is exactly the results with failed() true", okf, f, fails[0] if fails else f.node, construct="failures = [r for r in results if r.failed()]",
           detail=f"{[stmt_text(n) for n in fails]}")
    # (5) retry job construction
    sched.ob_retry_record_plain(ctx, 5)
    wq = [c for c in calls_named(f, "WaitingQueueJob")]
    for c in wq:
        lp = enclosing_for(c, f.node)
        if lp is None or not (fl_name and norm.is_name(lp.iter, fl_name)) or not isinstance(lp.target, ast.Name):
            continue
        fv = lp.target.id
        le = _loopenv(lp)
        ops = norm.kwarg(c, "ops", 2)
        opsr = norm.subst(ops, le) if ops is not None else None
        okops = False
        if isinstance(opsr, ast.ListComp) and len(opsr.generators) == 1:
            ge = opsr.generators[0]
            if isinstance(ge.target, ast.Name) and norm.is_name(opsr.elt, ge.target.id) and norm.U(ge.iter) == f"{fv}.ops" and len(ge.ifs) == 1:
                okops = norm.nnf(ge.ifs[0]) == norm.mk_cmp("!=", "OperatorState.COMPLETED", f"{ge.target.id}.state()")
        ctx.ob(5, "K6", "after a failure exactly the unfinished (non-COMPLETED) operators of the failed container are retried, together in one job", okops, f, c,
               detail=f"ops = {norm.U(opsr) if opsr is not None else None}")
        pr = norm.kwarg(c, "priority", 0)
        rs = norm.kwarg(c, "retry_stats", 3)
        rsr = norm.subst(rs, le) if rs is not None else None
        okrs = isinstance(rsr, ast.Call) and norm.call_name(rsr) == "RetryStats" and all(
            (norm.kwarg(rsr, k) is not None and norm.U(norm.kwarg(rsr, k)) == f"{fv}.{v}") for k, v in (("old_ram", "ram"), ("old_cpu", "cpu"), ("error", "error")))
        ctx.ob(5, "K6", "the retry remembers the failed container's own allocation and error, under the failed result's priority", okrs and pr is not None and norm.U(pr) == f"{fv}.priority",
               f, c, construct="RetryStats(old_ram=f.ram, old_cpu=f.cpu, error=f.error)", detail=f"retry_stats={norm.U(rsr) if rsr is not None else None}; priority={norm.U(pr) if pr is not None else None}")
        # one job per failed result, unconditional
        hid = g.node_of(lp).id
        skip = g.path_avoiding(hid, {hid, g.exit.id}, {g.node_of(c).id}, edge_ok=lambda a, b, lab, hid=hid: not (a == hid and lab == "done"))
        ctx.ob(5, "K3", "every failed result produces a retry job", skip is None, f, c, construct="one job per failure", detail="unconditional in the loop over failures" if skip is None else g.describe_path(skip))
    # retry branch: doubling and cut-off
    # The retry branch is anchored at the branch (`… .error is not None` taken), not at an Assignment under it: one Assignment after the
    # if/elif/else that only chooses the amounts is the same program.  Facts and definitions are those of the paths that start at the branch
    # and stay within the iteration of the job loop.
    branches = []
    for n in g.nodes:
        for t, lab in n.succ:
            if isinstance(lab, tuple) and lab[0] == "cond":
                for a in norm.atoms_true(lab[1]):
                    if a[0] == "cmp" and a[1] == "isnot" and a[2].endswith(".error") and a[3] == "None" and (t, a[2][:-len(".error")]) not in branches:
                        branches.append((t, a[2][:-len(".error")]))
    retry_sites = []
    for t, rsn in branches:
        for c in sites:
            jl = enclosing_for(c, f.node)
            if jl is None:
                continue
            IN = g.facts(blocked={g.node_of(jl).id}, start=t)
            if IN[g.node_of(c).id] is not None:
                retry_sites.append((c, rsn, IN))
    ctx.count_min("retry branch (`….error is not None`) leading to an Assignment in priority-pool", len(retry_sites), 1)
    def _half_reached(z) -> bool:
        """this condition says that a doubled request reached half of the pool"""
        if z[0] == "cmp" and z[1] == "<=" and z[2] == "0.5":
            return True
        if z[0] == "or":
            return all(_half_reached(k) for k in z[1])
        if z[0] == "and":
            return any(_half_reached(k) for k in z[1])
        return False
    seen_branch = set()
    for t, rsn in branches:
        for c in sites:
            jl = enclosing_for(c, f.node)
            if jl is None or (t, id(jl)) in seen_branch:
                continue
            IN = g.facts(blocked={g.node_of(jl).id}, start=t)
            if IN[g.node_of(c).id] is None:
                continue
            seen_branch.add((t, id(jl)))
            hid = g.node_of(jl).id
            asg_ids = {g.node_of(x).id for x in sites}
            lost = g.path_avoiding(t, {hid, g.exit.id}, asg_ids, edge_ok=lambda a, b, lab: not (isinstance(lab, tuple) and lab[0] == "cond" and _half_reached(lab[1])))
            ctx.ob(5, "K2", "a retry is given up only when its doubled request reaches half of the pool: every way from the retry branch to the next job that builds no "
                   "Assignment passes that test (a retry is never dropped for another reason)", lost is None, f, c, construct="retry dropped only under the half-pool test",
                   detail="no way past the Assignment other than the half-pool test" if lost is None else g.describe_path(lost))
    for c, rsn, IN in retry_sites:
        fs = IN[g.node_of(c).id]
        within = {i for i, v in IN.items() if v is not None}
        cpu, ram = sched.asg_arg(c, "cpu"), sched.asg_arg(c, "ram")
        jl = enclosing_for(c, f.node)
        pl = enclosing_for(enclosing_for(jl, f.node), f.node)
        pv = pl.target.id if pl is not None and isinstance(pl.target, ast.Name) else "pool_id"
        for res, arg, total in (("cpu", cpu, "total_cpu"), ("ram", ram, "total_ram")):
            # the ratio variable whose `< 0.5` holds here
            ratio = None
            for a in fs:
                if a[0] == "cmp" and a[1] == "<" and a[3] == "0.5":
                    defs = [d for d in sched.reaching_defs(f, g, c, a[2], within) if isinstance(d, ast.Assign)]
                    for d in defs:
                        if total in norm.U(d.value):
                            ratio = (a[2], d)
            okr = ratio is not None
            d = f"facts at the Assignment: {sorted(norm.show(x) for x in fs if '0.5' in norm.show(x))}"
            if okr:
                rname, rdef = ratio
                # the request in the ratio is the doubled old allocation: resolve names at the ratio definition
                env2 = {}
                bases = {x.value.id for x in ast.walk(rdef.value) if isinstance(x, (ast.Subscript, ast.Attribute)) and isinstance(x.value, ast.Name)}
                for nm in norm.names_in(rdef.value) - bases:
                    ds = [x for x in sched.reaching_defs(f, g, rdef, nm) if isinstance(x, ast.Assign)]
                    if len(ds) == 1:
                        env2[nm] = ds[0].value
                    elif len(ds) > 1:
                        env2[nm] = ast.Name("ambiguous_" + nm, ast.Load())
                den = [x for x in ast.walk(rdef.value) if isinstance(x, ast.Subscript) and isinstance(x.slice, ast.Constant) and x.slice.value == total]
                den_t = norm.U(den[0]) if den else f"{sched.snapshot_name(f)}[{pv}]['{total}']"
                tot_ok = bool(den) and _snapshot_feeds(f, norm.subst(den[0], _loopenv(pl)), pv, total, s_p)
                spec = ratform.parse(f"2 * {rsn}.old_{res} / {den_t}")
                try:
                    okr = ratform.to_rat(rdef.value, env2).equals(ratform.to_rat(spec))
                    got = ratform.to_rat(rdef.value, env2).text()
                except ratform.NotArithmetic as e:
                    okr, got = False, str(e)
                okr = okr and tot_ok
                d += f"; {rname} = {got} (required 2*old_{res}/total); total is the capacity of the pool being served: {tot_ok}"
            ctx.ob(5, "K2", f"a retry whose doubled {res.upper()} request reaches half of the pool is abandoned: the Assignment requires 2*old_{res}/total_{res} < 0.5, "
                   "computed from the doubled request (before any clamping)", okr, f, c, construct=f"retry cut-off on {res}", detail=d)
        # the doubled request itself
        for res, arg in (("cpu", cpu), ("ram", ram)):
            if arg is None or not isinstance(arg, ast.Name):
                continue
            ds = [x for x in sched.reaching_defs(f, g, c, arg.id, within) if isinstance(x, ast.Assign)]
            # a plain copy (`job_cpu = cpu_of_helper`) stands for what it copies
            ds2 = []
            for x in ds:
                cur = x
                for _ in range(3):
                    if isinstance(cur.value, ast.Name):
                        up = [y for y in sched.reaching_defs(f, g, cur, cur.value.id) if isinstance(y, ast.Assign)]
                        if len(up) == 1:
                            cur = up[0]
                            continue
                    break
                ds2.append(cur)
            ds = ds2
            vals = {norm.U(x.value) for x in ds}
            okd = any(ratform.same(x.value, ratform.parse(f"2 * {rsn}.old_{res}")) for x in ds)
            ctx.ob(5, "K7", f"the retry asks for twice the failed container's {res.upper()}", okd, f, c, construct=f"retry request {res} = 2*old", detail=f"definitions reaching the Assignment: {sorted(vals)}")
    sched.ob_never_suspends(ctx, 4, "priority-pool", "priority-pool")
    sched.fixture_suspend_present(ctx, 4)
    # "only the unfinished operators of the failed container are retried, together": the retry is cut from the result's op list, which therefore
    # has to be the ended container's whole list (C09#3/#4)
    from . import c09
    c09.check_results(Renumber(ctx, {3: 5, 4: 5}), 3)


def _loopenv(lp) -> dict:
    from ..util import loop_env
    return loop_env(lp)


def _snapshot_feeds(f, sub: ast.Subscript, pv: str, key: str, s_p: str) -> bool:
    """`D[pv][key]` where D[i] = {..., key: <pools[i].max_*_pool>, ...} is stored for every pool index i."""
    if not (isinstance(sub.value, ast.Subscript) and isinstance(sub.value.value, ast.Name) and norm.is_name(sub.value.slice, pv)):
        return False
    D = sub.value.value.id
    want = {"total_cpu": "max_cpu_pool", "total_ram": "max_ram_pool", "avail_cpu": "avail_cpu_pool", "avail_ram": "avail_ram_pool"}[key]
    for n in own_nodes(f.node):
        if isinstance(n, ast.Assign) and len(n.targets) == 1 and isinstance(n.targets[0], ast.Subscript) and norm.is_name(n.targets[0].value, D) \
                and isinstance(n.value, ast.Dict) and isinstance(n.targets[0].slice, ast.Name):
            lp = enclosing_for(n, f.node)
            if lp is None or not norm.is_name(lp.target, n.targets[0].slice.id) or norm.U(lp.iter) != f"range({s_p}.executor.num_pools)":
                continue
            iv = lp.target.id
            le = _loopenv(lp)
            for k, v in zip(n.value.keys, n.value.values):
                if isinstance(k, ast.Constant) and k.value == key:
                    return norm.U(norm.subst(v, le)) == f"{s_p}.executor.pools[{iv}].{want}"
    return False
