"""K4: typestate transfer analysis of ResourcePool.run_one_tick (shared by C03, C04, C09, C10).

The three holder lists of a pool are `active_containers`, `suspending_containers` (both hold an allocation) and
`suspended_containers` (allocation released).  Every membership change in run_one_tick is classified as one *move*
and paired with the resource deltas found in the same statement block (control-equivalent with it).
"""
from __future__ import annotations

import ast
from dataclasses import dataclass, field
from typing import Dict, List, Optional, Set, Tuple

from .. import norm
from ..cfg import MUTATORS
from ..model import AnalysisError, Func, own_nodes, parent, stmt_text
from ..util import cfg_of, calls_named
from .common import *

LISTS = ("active_containers", "suspending_containers", "suspended_containers")
AVAIL = {"avail_cpu_pool": "cpu", "avail_ram_pool": "ram"}


@dataclass
class Delta:
    node: ast.AST
    res: str           # 'cpu' | 'ram'
    sign: int          # +1 release, -1 allocate, 0 unrecognised
    amount: Optional[ast.expr]
    used: bool = False


@dataclass
class Move:
    kind: str                      # 'new->active', 'active->suspending', 'suspending->suspended', 'active->gone', 'unknown:...'
    anchor: ast.stmt               # statement where the decision to move is taken (deferred idiom: the D.append(c))
    var: str                       # name bound to the moved container at the anchor
    sites: List[ast.AST] = field(default_factory=list)   # the list operations that realise the move
    assignment: Optional[ast.expr] = None                # new->active: the assignment the container was built from
    ctor: Optional[ast.Call] = None
    deltas: List[Delta] = field(default_factory=list)
    src_loop: Optional[ast.For] = None                   # deferred idiom: collecting loop
    drain_loop: Optional[ast.For] = None


def block_of(s: ast.stmt) -> List[ast.stmt]:
    p = parent(s)
    for fld in ("body", "orelse", "finalbody"):
        b = getattr(p, fld, None)
        if isinstance(b, list) and any(x is s for x in b):
            return b
    if isinstance(p, ast.Try):
        for h in p.handlers:
            if any(x is s for x in h.body):
                return h.body
    return [s]


def stmt_of(n: ast.AST) -> ast.stmt:
    while not isinstance(n, ast.stmt):
        n = parent(n)
    return n


def _list_attr(e: ast.expr) -> Optional[str]:
    if isinstance(e, ast.Attribute) and e.attr in LISTS and norm.is_name(e.value, "self"):
        return e.attr
    return None


def _collect_in_loop_form(f: Func) -> Func:
    """`D = [v for v in self.L if COND(v)]; for w in D: BODY(w)` selects first and accounts afterwards; the rules are stated on the
    form that does both in one pass: `D = []; for v in self.L: if COND(v): BODY(v); D.append(v)`.  The two are the same when BODY cannot
    change COND for a later element or the list itself (checked: BODY calls nothing that stores to what COND's callee reads, and does
    not touch self.L)."""
    from .. import cfg as _cfg
    for blk_owner in [f.node] + [n for n in own_nodes(f.node) if isinstance(n, (ast.If, ast.For, ast.While, ast.With, ast.Try))]:
        for fld in ("body", "orelse", "finalbody"):
            blk = getattr(blk_owner, fld, None)
            if not isinstance(blk, list):
                continue
            for i, st in enumerate(blk):
                if not (isinstance(st, ast.Assign) and len(st.targets) == 1 and isinstance(st.targets[0], ast.Name) and isinstance(st.value, ast.ListComp)
                        and len(st.value.generators) == 1 and len(st.value.generators[0].ifs) == 1 and isinstance(st.value.generators[0].target, ast.Name)
                        and norm.is_name(st.value.elt, st.value.generators[0].target.id) and _list_attr(st.value.generators[0].iter)):
                    continue
                D, v, L = st.targets[0].id, st.value.generators[0].target.id, _list_attr(st.value.generators[0].iter)
                cond = st.value.generators[0].ifs[0]
                nxt = [s_ for s_ in blk[i + 1:] if isinstance(s_, ast.For) and norm.is_name(s_.iter, D) and isinstance(s_.target, ast.Name)]
                if not nxt or nxt[0].orelse:
                    continue
                j = [k_ for k_, s_ in enumerate(blk) if s_ is nxt[0]][0]
                # only inert initialisations (`results = []`) may stand between the selection and its loop
                if not all(isinstance(s_, ast.Assign) and len(s_.targets) == 1 and isinstance(s_.targets[0], ast.Name) and s_.targets[0].id != D
                           and isinstance(s_.value, (ast.Constant, ast.List, ast.Dict, ast.Tuple)) and not any(isinstance(x, (ast.Name, ast.Call, ast.Attribute)) for x in ast.walk(s_.value))
                           for s_ in blk[i + 1:j]):
                    continue
                lp = nxt[0]
                # BODY must not disturb COND / the list
                reads = {x.attr for c_ in ast.walk(cond) if isinstance(c_, ast.Call) for x in [c_.func] if isinstance(x, ast.Attribute)}
                touched = set()
                for c_ in (x for b_ in lp.body for x in ast.walk(b_) if isinstance(x, ast.Call)):
                    nm = norm.call_name(c_)
                    touched |= set(_cfg.MOD_ATTRS.get(nm, set())) if nm in _cfg.MOD_ATTRS else set()
                    if isinstance(c_.func, ast.Attribute) and _list_attr(c_.func.value) == L:
                        touched.add(L)
                cond_attrs = set()
                for nm in reads:
                    cond_attrs |= {"_completed"} if nm == "is_completed" else ({"_suspend_ticks_left"} if nm == "is_suspended" else {nm})
                if touched & (cond_attrs | {L}):
                    continue
                node = norm.clone(f.node)
                omap = {id(o): c_ for o, c_ in zip(ast.walk(f.node), ast.walk(node))}
                cst, clp = omap[id(st)], omap[id(lp)]
                w = lp.target.id
                for x in ast.walk(clp):
                    if isinstance(x, ast.Name) and x.id == w:
                        x.id = v
                new_init = ast.copy_location(ast.Assign(targets=[ast.Name(id=D, ctx=ast.Store())], value=ast.List(elts=[], ctx=ast.Load())), st)
                app = ast.copy_location(ast.Expr(value=ast.Call(func=ast.Attribute(value=ast.Name(id=D, ctx=ast.Load()), attr="append", ctx=ast.Load()),
                                                                args=[ast.Name(id=v, ctx=ast.Load())], keywords=[])), lp)
                inner = ast.copy_location(ast.If(test=cst.value.generators[0].ifs[0], body=clp.body + [app], orelse=[]), lp)
                new_lp = ast.copy_location(ast.For(target=ast.Name(id=v, ctx=ast.Store()), iter=cst.value.generators[0].iter, body=[inner], orelse=[], type_comment=None), lp)
                # splice into the cloned block
                cowner = omap[id(blk_owner)]
                cblk = getattr(cowner, fld)
                cblk[i] = new_init
                cblk[j] = new_lp
                ast.fix_missing_locations(node)
                for n in ast.walk(node):
                    for ch in ast.iter_child_nodes(n):
                        ch._parent = n  # type: ignore[attr-defined]
                node._parent = getattr(f.node, "_parent", None)  # type: ignore[attr-defined]
                return _collect_in_loop_form(Func(f.mod, f.qual, node, f.cls))
    return f


class PoolAnalysis:
    def __init__(self, P):
        self.P = P
        from ..util import inline_helpers, private_closure
        self.f0: Func = P.fn(RP, "ResourcePool.run_one_tick", raw=True)
        self.closure = private_closure(P, self.f0)        # run_one_tick and the single-use private helpers extracted from it
        self.f: Func = _collect_in_loop_form(inline_helpers(P, self.f0))         # analysed with those helpers inlined ("extract method" changes nothing)
        self.g = cfg_of(self.f, subst_env=False)
        params = self.f.params()
        if len(params) < 3:
            raise AnalysisError("ResourcePool.run_one_tick must take (self, suspensions, assignments)")
        self.susp_p, self.asg_p = params[1], params[2]
        self.moves: List[Move] = []
        self.unknown_ops: List[ast.AST] = []
        self.deltas: List[Delta] = []
        self.stray: List[Delta] = []
        self._collect()

    # ------------------------------------------------------------------------------------------
    def _collect(self):
        f = self.f
        listops: List[Tuple[ast.Call, str, str]] = []   # (call, list, method)
        rebinding: List[ast.AST] = []
        for n in own_nodes(f.node):
            if isinstance(n, ast.Call) and isinstance(n.func, ast.Attribute) and n.func.attr in MUTATORS:
                L = _list_attr(n.func.value)
                if L:
                    listops.append((n, L, n.func.attr))
            if isinstance(n, (ast.Assign, ast.AugAssign, ast.AnnAssign, ast.Delete)):
                tg = n.targets if isinstance(n, (ast.Assign, ast.Delete)) else [n.target]
                for t in tg:
                    b = t.value if isinstance(t, ast.Subscript) else t
                    if _list_attr(b):
                        rebinding.append(n)
                    if isinstance(t, ast.Attribute) and t.attr in AVAIL and norm.is_name(t.value, "self"):
                        self.deltas.append(self._delta(n, t))
        self.deltas.sort(key=lambda d: pos(f, d.node))
        consumed: Set[int] = set()
        # deferred idiom: D = [] ... for c in self.L: ... D.append(c) ... for x in D: self.L.remove(x) [self.M.append(x)]
        for lp in [n for n in own_nodes(f.node) if isinstance(n, ast.For) and isinstance(n.iter, ast.Name) and isinstance(n.target, ast.Name)]:
            D, x = lp.iter.id, lp.target.id
            ops_in = [(c, L, m) for (c, L, m) in listops if any(a is lp for a in _anc(c)) and c.args and norm.is_name(c.args[0], x)]
            if not ops_in:
                continue
            rem = [(c, L) for (c, L, m) in ops_in if m == "remove"]
            app = [(c, L) for (c, L, m) in ops_in if m == "append"]
            if len(rem) != 1 or len(app) > 1 or len(ops_in) != len(rem) + len(app):
                continue
            # the reaching `D = []`
            defs = [n for n in own_nodes(f.node) if isinstance(n, ast.Assign) and len(n.targets) == 1 and norm.is_name(n.targets[0], D)
                    and isinstance(n.value, ast.List) and not n.value.elts and before(f, n, lp) and self.g.dominates(n, lp)]
            if not defs:
                continue
            d0 = max(defs, key=lambda n: pos(f, n))
            collects = [c for c in calls_named(f, "append") if isinstance(c.func, ast.Attribute) and norm.is_name(c.func.value, D)
                        and pos(f, d0) < pos(f, c) < pos(f, lp)]
            other_uses = [n for n in own_nodes(f.node) if isinstance(n, ast.Call) and isinstance(n.func, ast.Attribute)
                          and norm.is_name(n.func.value, D) and n.func.attr != "append" and pos(f, d0) < pos(f, n) < pos(f, lp)]
            if not collects or other_uses:
                continue
            src, dst = rem[0][1], (app[0][1] if app else "gone")
            for c in collects:
                cl = enclosing_for(c, f.node)
                var = norm.U(c.args[0]) if c.args else "?"
                kind = f"{src.split('_')[0]}->{dst.split('_')[0]}"
                ok_src = cl is not None and _list_attr(cl.iter) == src and isinstance(cl.target, ast.Name) and cl.target.id == var
                if not ok_src:
                    kind = f"unknown:deferred removal from {src} collected outside a loop over self.{src}"
                mv = Move(kind, stmt_of(c), var, sites=[rem[0][0]] + [a for a, _ in app], src_loop=cl, drain_loop=lp)
                self.moves.append(mv)
            for c, _, _ in ops_in:
                consumed.add(id(c))
        # direct operations
        for c, L, m in listops:
            if id(c) in consumed:
                continue
            if L == "active_containers" and m == "append" and c.args and isinstance(c.args[0], ast.Name):
                x = c.args[0].id
                blk = block_of(stmt_of(c))
                ctor = None
                for s in blk:
                    if before(f, s, c) and isinstance(s, ast.Assign) and len(s.targets) == 1 and norm.is_name(s.targets[0], x) \
                            and isinstance(s.value, ast.Call) and norm.call_name(s.value) == "Container":
                        ctor = s.value
                if ctor is not None:
                    a = norm.kwarg(ctor, "assignment", 0)
                    self.moves.append(Move("new->active", stmt_of(c), x, sites=[c], assignment=a, ctor=ctor))
                    consumed.add(id(c))
                    continue
            if L == "active_containers" and m == "remove" and c.args and isinstance(c.args[0], ast.Name):
                x = c.args[0].id
                blk = block_of(stmt_of(c))
                partner = [cc for (cc, LL, mm) in listops if LL == "suspending_containers" and mm == "append" and cc.args
                           and norm.is_name(cc.args[0], x) and any(stmt_of(cc) is s for s in blk)]
                if len(partner) == 1:
                    self.moves.append(Move("active->suspending", stmt_of(c), x, sites=[c, partner[0]]))
                    consumed.add(id(c))
                    consumed.add(id(partner[0]))
                    continue
        for c, L, m in listops:
            if id(c) not in consumed:
                self.unknown_ops.append(c)
        self.unknown_ops.extend(rebinding)
        # attach deltas to the move whose anchor shares their block
        for d in self.deltas:
            blk = block_of(stmt_of(d.node))
            for mv in self.moves:
                if any(mv.anchor is s for s in blk) and self.g.control_equivalent(mv.anchor, stmt_of(d.node), enclosing_for(mv.anchor, f.node)):
                    mv.deltas.append(d)
                    d.used = True
                    break
        self.stray = [d for d in self.deltas if not d.used]

    def _delta(self, n: ast.AST, t: ast.Attribute) -> Delta:
        res = AVAIL[t.attr]
        if isinstance(n, ast.AugAssign) and isinstance(n.op, (ast.Add, ast.Sub)):
            return Delta(n, res, +1 if isinstance(n.op, ast.Add) else -1, n.value)
        if isinstance(n, ast.Assign) and isinstance(n.value, ast.BinOp) and isinstance(n.value.op, (ast.Add, ast.Sub)) \
                and norm.U(n.value.left) == norm.U(t):
            return Delta(n, res, +1 if isinstance(n.value.op, ast.Add) else -1, n.value.right)
        return Delta(n, res, 0, None)

    # ------------------------------------------------------------------------------------------
    def moves_of(self, kind: str) -> List[Move]:
        return [m for m in self.moves if m.kind == kind]

    def expected_deltas(self, mv: Move) -> Optional[Dict[str, Tuple[int, str]]]:
        if mv.kind == "new->active":
            a = norm.U(mv.assignment) if mv.assignment is not None else "?"
            return {"cpu": (-1, f"{a}.cpu"), "ram": (-1, f"{a}.ram")}
        if mv.kind == "active->suspending":
            return {}
        if mv.kind in ("suspending->suspended", "active->gone"):
            return {"cpu": (+1, f"{mv.var}.assignment.cpu"), "ram": (+1, f"{mv.var}.assignment.ram")}
        return None

    def cond_required(self, mv: Move) -> Optional[tuple]:
        if mv.kind == "suspending->suspended":
            return ("truth", f"{mv.var}.is_suspended()", True)
        if mv.kind == "active->gone":
            return ("truth", f"{mv.var}.is_completed()", True)
        return None

    def every_iteration_with(self, mv: Move, req: tuple) -> Optional[List[int]]:
        """A path through one iteration of the collecting loop that avoids the anchor without passing an edge on which
        `req` is known false.  None = the anchor is reached in every iteration in which req holds."""
        g = self.g
        lp = mv.src_loop
        if lp is None:
            return []
        hid = g.node_of(lp).id
        aid = g.node_of(mv.anchor).id
        nreq = norm.neg(req)

        def edge_ok(a, b, lab):
            if a == hid and lab == "done":
                return False
            if isinstance(lab, tuple) and lab[0] == "cond" and nreq in norm.atoms_true(lab[1]):
                return False
            return True
        return g.path_avoiding(hid, {hid, g.exit.id}, {aid}, edge_ok=edge_ok)


def _anc(n):
    from ..model import ancestors
    return list(ancestors(n))


def bypass_harmless(g, node_id: int, list_attr: str) -> bool:
    """Every path entry->return that avoids `node_id` carries the fact that self.<list_attr> is empty (so a loop over it,
    or a phase that only concerns its members, has nothing to do)."""
    IN = g.facts(blocked={node_id})
    ex = IN.get(g.exit.id)
    return ex is None or norm.entails(ex, ("truth", f"self.{list_attr}", False))


_PA_CACHE: Dict = {}


def pool_analysis(P) -> PoolAnalysis:
    hit = _PA_CACHE.get(id(P))
    if hit is None or hit[0] is not P:
        hit = (P, PoolAnalysis(P))
        _PA_CACHE[id(P)] = hit
    return hit[1]


# -- obligations shared by several properties -----------------------------------------------------------

def ob_moves_classified(ctx, num):
    """Every membership change classifies into one of the four documented moves; no stray resource delta."""
    pa = pool_analysis(ctx.P)
    f = pa.f
    ctx.touch(f)
    ctx.count_min("container-list membership changes in ResourcePool.run_one_tick", len(pa.moves) + len(pa.unknown_ops), 1)
    kinds = {"new->active", "active->suspending", "suspending->suspended", "active->gone"}
    for mv in pa.moves:
        ctx.ob(num, "K4", "each membership change of a container list is one of the documented moves "
               "(new->active, active->suspending, suspending->suspended, active->gone)", mv.kind in kinds, f, mv.anchor,
               detail=f"classified as {mv.kind}; realised by {[norm.U(s) for s in mv.sites]}")
    for kind in sorted(kinds):
        n = len(pa.moves_of(kind))
        ctx.ob(num, "K4", f"the move {kind} exists exactly once in run_one_tick", n == 1, f, f.node, construct=f"move {kind}",
               detail=f"{n} site(s)")
    for u in pa.unknown_ops:
        ctx.ob(num, "K4", "no container-list mutation outside the documented moves", False, f, u,
               detail="this operation on a holder list does not belong to any recognised move (direct new->active / active->suspending, "
                      "or the deferred-removal idiom)")
    if not pa.unknown_ops:
        ctx.ob(num, "K4", "no container-list mutation outside the documented moves", True, f, f.node, construct="holder-list mutations",
               detail=f"{sum(len(m.sites) for m in pa.moves)} list operations, all classified")
    return pa


def ob_deltas(ctx, num, amounts: bool = True, conditions: bool = True):
    pa = pool_analysis(ctx.P)
    f = pa.f
    for mv in pa.moves:
        exp = pa.expected_deltas(mv)
        if exp is None:
            continue
        got: Dict[str, List[Delta]] = {"cpu": [], "ram": []}
        for d in mv.deltas:
            got[d.res].append(d)
        for res in (("cpu", "ram") if amounts else ()):
            ds = got[res]
            if res not in exp:
                ctx.ob(num, "K4", f"move {mv.kind} changes no free {res.upper()}", not ds, f, ds[0].node if ds else mv.anchor,
                       construct=f"{mv.kind}: {res} delta" if not ds else None,
                       detail="no delta in the move's block" if not ds else f"unexpected delta(s): {[stmt_text(d.node) for d in ds]}")
                continue
            sign, amount = exp[res]
            ok = len(ds) == 1 and ds[0].sign == sign and ds[0].amount is not None and norm.U(ds[0].amount) == amount
            word = "released" if sign > 0 else "allocated"
            ctx.ob(num, "K4", f"move {mv.kind}: exactly the container's own {res.upper()} allocation is {word}, once, together with the move",
                   ok, f, ds[0].node if ds else mv.anchor, construct=None if ds else f"{mv.kind}: missing {res} delta",
                   detail=f"expected `self.avail_{res}_pool {'+' if sign > 0 else '-'}= {amount}` in the block of `{stmt_text(mv.anchor)}`; "
                          f"found {[stmt_text(d.node) for d in ds]}")
        if amounts:
            # an allocation/release must not be separated from its move by something that can raise (assert/raise): the counters would change without the move
            aid = pa.g.node_of(mv.anchor).id
            site_ids = {pa.g.node_of(s).id for s in mv.sites} | {aid}
            for d in mv.deltas:
                did = pa.g.node_of(d.node).id
                if did in site_ids:
                    continue
                esc = pa.g.path_avoiding(did, {pa.g.raise_.id}, site_ids) if not pa.g.dominates(mv.anchor, d.node) else None
                ctx.ob(num, "K4", f"move {mv.kind}: nothing that can raise lies between the change of free {d.res.upper()} and the move itself "
                       "(an exception there would lose or duplicate the allocation)", esc is None, f, d.node, construct=f"{mv.kind}: {d.res} delta atomic with the move",
                       detail="no assert/raise between them" if esc is None else f"path to an exception after the delta and before the move: {pa.g.describe_path(esc)}")
        req = pa.cond_required(mv) if conditions else None
        if req is not None:
            fs = pa.g.facts_at(mv.anchor)
            ok = norm.entails(fs, req)
            ctx.ob(num, "K4", f"move {mv.kind} happens only when {norm.show(req)}", ok, f, mv.anchor,
                   detail=f"facts at the move: {sorted(norm.show(x) for x in fs)}")
            p = pa.every_iteration_with(mv, req)
            ctx.ob(num, "K4", f"every container for which {norm.show(req)} makes the move {mv.kind} in that same tick", p is None, f, mv.anchor,
                   construct=f"{mv.kind}: completeness", detail="no iteration with the condition true avoids the move" if p is None
                   else f"an iteration can skip the move although the condition may hold: {pa.g.describe_path(p)}")
            # the collecting loop and its drain loop are on every normal path of the tick
            for lp, what in ((mv.src_loop, "collecting loop"), (mv.drain_loop, "removal loop")):
                if lp is not None:
                    pth = pa.g.path_avoiding(pa.g.entry.id, {pa.g.exit.id}, {pa.g.node_of(lp).id})
                    src_list = _list_attr(mv.src_loop.iter) if mv.src_loop is not None else None
                    okb = pth is None or (src_list is not None and bypass_harmless(pa.g, pa.g.node_of(mv.src_loop).id, src_list))
                    ctx.ob(num, "K3", f"the {what} of move {mv.kind} runs in every tick (cannot be bypassed while its source list is non-empty)", okb, f, lp,
                           detail="on every path entry->return" if pth is None else f"bypass: {pa.g.describe_path(pth)}"
                           + ("; the source list is known empty on every bypass" if okb else ""))
            if mv.drain_loop is not None:
                # every collected container is removed: all list operations of the drain loop are unconditional in its body
                hid = pa.g.node_of(mv.drain_loop).id
                for s in mv.sites:
                    pth = pa.g.path_avoiding(hid, {hid, pa.g.exit.id}, {pa.g.node_of(s).id},
                                             edge_ok=lambda a, b, lab, hid=hid: not (a == hid and lab == "done"))
                    ctx.ob(num, "K4", f"move {mv.kind}: every collected container is actually moved ({norm.U(s)})", pth is None, f, s,
                           detail="unconditional in the removal loop" if pth is None else f"can be skipped: {pa.g.describe_path(pth)}")
    if not amounts:
        return
    for d in pa.stray:
        ctx.ob(num, "K4", "free CPU/RAM changes only as part of a container move", False, f, d.node,
               detail="this write to the pool's free resources is not control-equivalent with any container move")
    unrec = [d for d in pa.deltas if d.sign == 0 and d.used]
    for d in unrec:
        ctx.ob(num, "K4", "free CPU/RAM is changed only by += / -= of an allocation", False, f, d.node, detail="unrecognised form of update")
    if not pa.stray:
        ctx.ob(num, "K4", "free CPU/RAM changes only as part of a container move", True, f, f.node, construct="writes to avail_cpu_pool/avail_ram_pool",
               detail=f"{len(pa.deltas)} writes, all paired with a move")


def may_kill_calls(P, f: Func, depth: int = 4) -> List[ast.Call]:
    """Call sites in f that may (transitively, by name-resolved call graph) reach Container.kill / _mark_completed."""
    from ..util import resolve_callee
    memo: Dict[int, bool] = {}

    def reaches(fn: Func, d: int) -> bool:
        k = id(fn.node)
        if k in memo:
            return memo[k]
        memo[k] = False
        if fn.mod.rel == CT and fn.qual in ("Container.kill", "Container._mark_completed"):
            memo[k] = True
            return True
        if d <= 0:
            return False
        if any(isinstance(x, (ast.Yield, ast.YieldFrom)) for x in own_nodes(fn.node)):
            return False  # calling a generator function only creates the generator; its body runs in tick()
        for c in own_nodes(fn.node):
            if isinstance(c, ast.Call):
                nm = norm.call_name(c)
                if nm in ("kill", "_mark_completed"):
                    memo[k] = True
                    return True
                for callee in resolve_callee(P, fn, c):
                    if callee.mod.rel in (RP, CT) and reaches(callee, d - 1):
                        memo[k] = True
                        return True
        return memo[k]

    out = []
    for c in own_nodes(f.node):
        if isinstance(c, ast.Call):
            nm = norm.call_name(c)
            if nm in ("kill", "_mark_completed"):
                out.append(c)
                continue
            for callee in resolve_callee(P, f, c):
                if callee.mod.rel in (RP, CT) and reaches(callee, depth):
                    out.append(c)
                    break
    return out


def ob_phases(ctx, num):
    """Per tick, in this order and on every path: suspending containers advance; every active container ticks; the OOM killer
    runs; ended containers are collected.  Nothing that can end a container (tick, kill) runs after the collection."""
    pa = pool_analysis(ctx.P)
    f, g = pa.f, pa.g
    ticks = [c for c in calls_named(f, "tick") if isinstance(c.func, ast.Attribute)]
    ctx.count_min(".tick() call sites in ResourcePool.run_one_tick", len(ticks), 1)
    gone = pa.moves_of("active->gone")
    enders = ticks + may_kill_calls(ctx.P, f)
    for c in ticks:
        lp = enclosing_for(c, f.node)
        ok = lp is not None and _list_attr(lp.iter) == "active_containers" and isinstance(lp.target, ast.Name) and norm.is_name(c.func.value, lp.target.id)
        d = f"loop: {stmt_text(lp) if lp else None}"
        if ok:
            hid = g.node_of(lp).id
            skip = g.path_avoiding(hid, {hid, g.exit.id}, {g.node_of(c).id}, edge_ok=lambda a, b, lab, hid=hid: not (a == hid and lab == "done"))
            byp = g.path_avoiding(g.entry.id, {g.exit.id}, {hid})
            okb = byp is None or bypass_harmless(g, hid, "active_containers")
            ok = skip is None and okb
            d += f"; every active container ticked: {skip is None}; loop on every path (or bypassed only with no active container): {okb}"
        ctx.ob(num, "K3", "every tick advances every active container exactly once (and only active ones)", ok, f, c, detail=d)
    for mv in gone:
        if mv.src_loop is None:
            continue
        hid = g.node_of(mv.src_loop).id
        for c in enders:
            cid = g.node_of(c).id
            late = g.path_avoiding(hid, {cid}, set())
            outer = c
            while enclosing_for(outer, f.node) is not None:
                outer = enclosing_for(outer, f.node)
            before = g.dominates(outer, mv.src_loop)
            ctx.ob(num, "K3", "everything that can end a container in a tick (tick, OOM kill) runs before that tick's collection of ended containers",
                   late is None and before, f, c,
                   detail=f"`{norm.U(c)}` dominates the collection loop: {before}; reachable after it: {late is not None}")
    # every call that may kill is on every path (the killer cannot be bypassed)
    ctx.count_min("calls in ResourcePool.run_one_tick that reach Container.kill (the OOM killer runs in the tick)", len(may_kill_calls(ctx.P, f)), 1)
    for c in may_kill_calls(ctx.P, f):
        byp = g.path_avoiding(g.entry.id, {g.exit.id}, {g.node_of(c).id})
        okb = byp is None or bypass_harmless(g, g.node_of(c).id, "active_containers")
        ctx.ob(num, "K3", "the OOM killer runs in every tick (unless no container is active)", okb, f, c,
               detail="on every path" if byp is None else f"bypass: {g.describe_path(byp)}" + ("; only with no active container" if okb else ""))


def ob_own_state(ctx, num):
    """Each pool keeps its own books: the holder lists are bound to a fresh empty list in ResourcePool.__init__ (every pool object gets its
    own), and the class body binds no object under those names (a class-level `suspended_containers = []` is one list shared by every pool
    of every executor in the process: a container that left pool 0 shows up in pool 1, and is counted once per pool)."""
    P = ctx.P
    init = P.fn(RP, "ResourcePool.__init__", raw=True)
    ctx.touch(init)
    cls = P.cls(RP, "ResourcePool")
    fresh: Dict[str, List[ast.AST]] = {a: [] for a in LISTS}

    def is_fresh(v):
        return (isinstance(v, ast.List) and not v.elts) or (isinstance(v, ast.Call) and isinstance(v.func, ast.Name) and v.func.id == "list" and not v.args and not v.keywords)
    for n in own_nodes(init.node):
        pairs = []
        if isinstance(n, ast.Assign):
            for t in n.targets:
                if isinstance(t, (ast.Tuple, ast.List)) and isinstance(n.value, (ast.Tuple, ast.List)) and len(t.elts) == len(n.value.elts):
                    pairs += list(zip(t.elts, n.value.elts))
                else:
                    pairs.append((t, n.value))
        elif isinstance(n, ast.AnnAssign) and n.value is not None:
            pairs.append((n.target, n.value))
        for t, v in pairs:
            if isinstance(t, ast.Attribute) and t.attr in LISTS and norm.is_name(t.value, init.params()[0]) and is_fresh(v):
                fresh[t.attr].append(n)
    shared = {}
    for st in cls.node.body:
        tg = []
        if isinstance(st, ast.Assign):
            tg = [(t, st.value) for t in st.targets]
        elif isinstance(st, ast.AnnAssign) and st.value is not None:
            tg = [(st.target, st.value)]
        for t, v in tg:
            if isinstance(t, ast.Name) and t.id in LISTS:
                shared[t.id] = st
    for a in LISTS:
        ok = len(fresh[a]) >= 1 and a not in shared
        d = (f"class-level binding `{stmt_text(shared[a])}` (one object shared by all pools)" if a in shared else
             (f"created per pool: `{stmt_text(fresh[a][0])}`" if fresh[a] else "no `self.%s = []` in ResourcePool.__init__" % a))
        ctx.ob(num, "K1", f"every pool has its own `{a}` list: bound to a fresh empty list in ResourcePool.__init__, no class-level object of that name",
               ok, init, fresh[a][0] if fresh[a] else init.node, construct=f"self.{a} = []", detail=d)
        if a in shared:
            ctx.obs[-1].line = cls.mod.line(shared[a])
