"""C06 — completion, latency and returned statistics match an independent recount."""
from __future__ import annotations

import ast
from typing import Dict, List, Optional

from .. import norm, ratform
from ..model import own_nodes, stmt_text, parent
from ..util import attr_writes, cfg_of, calls_named, single_defs
from .common import *
from . import c09, pool as poolmod

EXPLANATION = (
    "Static decision of the bookkeeping structure behind C06.  (1) arrival_tick / finish_tick are written only by "
    "PipelineRuntimeStatus.__init__ (None) and record_arrival / record_finish, each store reached only with `... is None` asserted "
    "(write-once).  (2) latency = finish_tick - arrival_tick; a pipeline is successful iff state_counts[COMPLETED] == "
    "len(operator_states).  (3) main loop of run_simulator, once per tick and on every path of the iteration: one workload step; "
    "every new pipeline gets record_arrival(this tick), enters the outstanding map and bumps its class's arrival counter; the "
    "scheduler's (suspensions, assignments) go unmodified to the executor in the same iteration and the executor's results are "
    "what the scheduler sees next tick; the five counters are incremented from this iteration's lists.  (4) completion sweep: over "
    "a snapshot of the outstanding map, a pipeline with is_pipeline_successful() gets record_finish(this tick), its latency is "
    "appended to the list of its own priority and it is deleted from the map — all three together; the sweep may only be skipped "
    "when this tick produced no results.  (5) tail: totals are the sum / concatenation over the three classes; per-class stats "
    "come from the matching class; count = len, mean = np.mean/tps, p99 = np.percentile(.,99)/tps; throughput = successful "
    "containers / duration; every SimulatorStats field is fed from the like-named counter.  (6) every reduction that is undefined "
    "on an empty sequence is guarded by non-emptiness of the same sequence.  (7) successful containers are counted iff they end "
    "without error, summed over all pools.")
UNDECIDED = ("that the numbers of an actual run equal an independent recount (needs a run); that an uncontended pipeline finishes in exactly "
             "the ticks its operators need beyond the tick model of C05")
ASSUMPTIONS = COMMON_ASSUMPTIONS

REDUCERS = {"percentile", "mean", "median", "max", "min", "average", "quantile", "std", "var"}


def check_write_once(ctx, num=1):
    P = ctx.P
    for attr, meth in (("arrival_tick", "record_arrival"), ("finish_tick", "record_finish")):
        f = P.fn(RS, f"PipelineRuntimeStatus.{meth}")
        ctx.touch(f)
        g = cfg_of(f, subst_env=False)
        ws = attr_writes(P, attr)
        ctx.count_min(f"writers of {attr}", len(ws), 2)
        for w in ws:
            who = w.fn.qual
            if who == "PipelineRuntimeStatus.__init__":
                ok = isinstance(w.node, (ast.Assign, ast.AnnAssign)) and isinstance(w.node.value, ast.Constant) and w.node.value.value is None
                ctx.ob(num, "K1", f"{attr} starts unset", ok, w.fn, w.node, detail=stmt_text(w.node))
            elif same_fn(w.fn, f):
                once = norm.entails(g.facts_at(w.node), ("cmp", "is", f"self.{attr}", "None"))
                val = isinstance(w.node, ast.Assign) and norm.U(w.node.value) == f.params()[1]
                ctx.ob(num, "K2", f"{attr} is recorded at most once (the store is reached only with `{attr} is None` asserted) and stores the tick given", once and val, f, w.node,
                       detail=f"asserted unset: {once}; stores the parameter: {val}")
            else:
                ctx.ob(num, "K1", f"{attr} is written only by __init__ and {meth}", False, w.fn, w.node, detail=repr(w))


def check_formulas(ctx, num=2):
    P = ctx.P
    f = P.fn(RS, "PipelineRuntimeStatus.get_latency_ticks")
    ctx.touch(f)
    rs = [r for r in own_nodes(f.node) if isinstance(r, ast.Return)]
    ok = len(rs) == 1 and rs[0].value is not None and ratform.same(rs[0].value, ratform.parse("self.finish_tick - self.arrival_tick"), single_defs(f))
    ctx.ob(num, "K7", "latency is the finish tick minus the arrival tick", ok, f, rs[0] if rs else f.node, detail=f"{[stmt_text(r) for r in rs]}")
    f = P.fn(RS, "PipelineRuntimeStatus.is_pipeline_successful")
    ctx.touch(f)
    rs = [r for r in own_nodes(f.node) if isinstance(r, ast.Return)]
    ok = len(rs) == 1 and rs[0].value is not None and norm.nnf(rs[0].value, True, single_defs(f)) == norm.mk_cmp("==", "len(self.operator_states)", "self.state_counts[OperatorState.COMPLETED]")
    ctx.ob(num, "K7", "a pipeline is complete exactly when the COMPLETED count equals the number of its operators (never while one is unfinished)", ok, f, rs[0] if rs else f.node,
           detail=f"{[stmt_text(r) for r in rs]}")


class Sim:
    def __init__(self, ctx):
        P = ctx.P
        self.f = P.fn(SIM, "run_simulator")
        ctx.touch(self.f)
        f = self.f
        self.g = cfg_of(f, subst_env=False)
        self.env = single_defs(f)
        loops = [n for n in f.node.body if isinstance(n, ast.For)]
        self.main = None
        for lp in loops:
            if any(isinstance(c, ast.Call) and norm.call_name(c) == "run_one_tick" for c in ast.walk(lp)):
                self.main = lp
        ctx.need(self.main is not None, "main simulation loop (a top-level for loop calling run_one_tick) not found in run_simulator")
        self.tick = self.main.target.id if isinstance(self.main.target, ast.Name) else None
        self.hid = self.g.node_of(self.main).id
        # names by role: the parameter dict is what Executor(**X) receives; the executor is what that call is bound to
        self.params, self.executor = "params", "executor"
        for n in own_nodes(f.node):
            if isinstance(n, ast.Assign) and isinstance(n.value, ast.Call) and norm.call_name(n.value) == "Executor" and isinstance(n.targets[0], ast.Name):
                self.executor = n.targets[0].id
                for k in n.value.keywords:
                    if k.arg is None and isinstance(k.value, ast.Name):
                        self.params = k.value.id

    def every_iteration(self, node) -> bool:
        g = self.g
        return g.path_avoiding(self.hid, {self.hid, g.exit.id}, {g.node_of(node).id}, edge_ok=lambda a, b, lab: not (a == self.hid and lab == "done")) is None


def check_main_loop(ctx, num=3):
    P = ctx.P
    sm = Sim(ctx)
    f, g, lp = sm.f, sm.g, sm.main
    okr = sm.tick is not None and isinstance(lp.iter, ast.Call) and norm.is_name(lp.iter.func, "range") and len(lp.iter.args) == 1
    mt = norm.U(norm.subst(lp.iter.args[0], sm.env)) if okr else None
    okr = okr and mt in (f"int({sm.params}['duration'] * {sm.params}['ticks_per_second'])",)
    ctx.ob(num, "K7", "the run lasts int(duration * ticks_per_second) ticks, numbered from 0", okr, f, lp, detail=f"{stmt_text(lp)}; bound resolves to {mt}")
    calls = [c for c in ast.walk(lp) if isinstance(c, ast.Call) and norm.call_name(c) == "run_one_tick" and isinstance(c.func, ast.Attribute)]
    wl = [c for c in calls if not c.args and not c.keywords]
    sc = [c for c in calls if len(c.args) == 2 and isinstance(parent(c), ast.Assign) and isinstance(parent(c).targets[0], ast.Tuple)]
    ex = [c for c in calls if len(c.args) == 2 and c not in sc]
    ok = len(wl) == 1 and len(sc) == 1 and len(ex) == 1 and all(sm.every_iteration(c) for c in wl + sc + ex)
    ctx.ob(num, "K3", "every tick runs exactly one workload step, one scheduler round and one executor tick, in this order", ok and
           g.dominates(wl[0], sc[0]) and g.dominates(sc[0], ex[0]) if ok else False, f, lp, construct="workload -> scheduler -> executor per tick",
           detail=f"workload steps: {len(wl)}, scheduler rounds: {len(sc)}, executor ticks: {len(ex)}")
    if not ok:
        return sm, None
    pw = parent(wl[0])
    newp = None
    if isinstance(pw, ast.Assign) and len(pw.targets) == 1 and isinstance(pw.targets[0], ast.Name):
        newp = pw.targets[0].id
    elif isinstance(pw, ast.AnnAssign) and isinstance(pw.target, ast.Name):
        newp = pw.target.id
    susv, asgv = (e.id if isinstance(e, ast.Name) else None for e in parent(sc[0]).targets[0].elts)
    resv = parent(ex[0]).targets[0].id if isinstance(parent(ex[0]), ast.Assign) and isinstance(parent(ex[0]).targets[0], ast.Name) else None
    okflow = newp and susv and asgv and resv and norm.is_name(sc[0].args[1], newp) and norm.is_name(sc[0].args[0], resv) and norm.is_name(ex[0].args[0], susv) and norm.is_name(ex[0].args[1], asgv)
    # nothing rebinds these between the calls
    rebinds = [n for n in ast.walk(lp) if isinstance(n, (ast.Assign, ast.AugAssign)) and n is not parent(sc[0]) and n is not parent(ex[0]) and n is not parent(wl[0])
               and any(isinstance(t, ast.Name) and t.id in (newp, susv, asgv, resv) for t in (n.targets if isinstance(n, ast.Assign) else [n.target]))]
    muts = [c for c in ast.walk(lp) if isinstance(c, ast.Call) and isinstance(c.func, ast.Attribute) and isinstance(c.func.value, ast.Name) and c.func.value.id in (newp, susv, asgv, resv)
            and c.func.attr in ("append", "extend", "remove", "pop", "clear", "sort", "insert", "reverse")]
    ctx.ob(num, "K6", "the scheduler sees last tick's results and this tick's arrivals; its decisions go to the executor unmodified, in the same tick", bool(okflow) and not rebinds and not muts,
           f, sc[0], detail=f"scheduler.run_one_tick({norm.U(sc[0].args[0])}, {norm.U(sc[0].args[1])}); executor.run_one_tick({norm.U(ex[0].args[0])}, {norm.U(ex[0].args[1])}); "
                            f"rebinds: {[stmt_text(r) for r in rebinds]}; mutations: {[norm.U(m) for m in muts]}")
    # arrivals
    arr = [c for c in ast.walk(lp) if isinstance(c, ast.Call) and norm.call_name(c) == "record_arrival"]
    okarr = False
    d = f"{len(arr)} record_arrival site(s)"
    outstanding = None
    arrivals = None
    if len(arr) == 1:
        al = enclosing_for(arr[0], f.node)
        if al is not None and al is not lp and norm.is_name(al.iter, newp) and isinstance(al.target, ast.Name) and enclosing_for(al, f.node) is lp:
            pv = al.target.id
            h2 = g.node_of(al).id
            uncond = lambda n: g.path_avoiding(h2, {h2, g.exit.id}, {g.node_of(n).id}, edge_ok=lambda a, b, lab: not (a == h2 and lab == "done")) is None
            okcall = norm.U(arr[0].func.value) == f"{pv}.runtime_status()" and len(arr[0].args) == 1 and norm.is_name(arr[0].args[0], sm.tick) and uncond(arr[0])
            ins = [n for n in ast.walk(al) if isinstance(n, ast.Assign) and isinstance(n.targets[0], ast.Subscript) and norm.U(n.targets[0].slice) == f"{pv}.pipeline_id" and norm.is_name(n.value, pv)]
            cnt = [n for n in ast.walk(al) if isinstance(n, ast.AugAssign) and isinstance(n.target, ast.Subscript) and norm.U(n.target.slice) == f"{pv}.priority"
                   and isinstance(n.op, ast.Add) and isinstance(n.value, ast.Constant) and n.value.value == 1]
            okarr = okcall and len(ins) == 1 and uncond(ins[0]) and len(cnt) == 1 and uncond(cnt[0]) and sm.every_iteration(al) and g.dominates(wl[0], al)
            if ins:
                outstanding = norm.U(ins[0].targets[0].value)
            if cnt:
                arrivals = norm.U(cnt[0].target.value)
            d = (f"record_arrival({sm.tick}) on every new pipeline: {okcall}; inserted into the outstanding map `{outstanding}`: {len(ins) == 1}; "
                 f"class arrival counter `{arrivals}` += 1: {len(cnt) == 1}")
    ctx.ob(num, "K3", "every pipeline delivered in a tick is stamped with that tick as its arrival, becomes outstanding, and is counted once under its priority class", okarr, f,
           arr[0] if arr else lp, construct="arrival bookkeeping", detail=d)
    # counters
    counters = {}
    for n in lp.body:
        if isinstance(n, ast.AugAssign) and isinstance(n.target, ast.Name) and isinstance(n.op, ast.Add) and isinstance(n.value, ast.Call) and norm.is_name(n.value.func, "len") and len(n.value.args) == 1:
            counters[norm.U(norm.subst(n.value.args[0], {k: v for k, v in _loopenv(lp).items()}))] = n
    fails = None
    for src, what in ((newp, "pipelines created"), (asgv, "assignments"), (susv, "suspensions")):
        n = counters.get(src)
        ok = n is not None and sm.every_iteration(n) and g.dominates((ex[0] if src != newp else wl[0]), n)
        ctx.ob(num, "K3", f"the counter of {what} grows by len(this tick's list) in every tick", ok, f, n or lp, construct=f"counter += len({src})",
               detail=stmt_text(n) if n is not None else f"no `+= len({src})` at loop level")
    # every counter starts at zero before the first tick
    def _starts_at_zero(name: str):
        inits = [n for n in own_nodes(f.node) if isinstance(n, (ast.Assign, ast.AnnAssign)) and n.value is not None and not any(a_ is lp for a_ in _anc(n))
                 and any(norm.is_name(t, name) for t in (n.targets if isinstance(n, ast.Assign) else [n.target]))]
        ok_ = len(inits) == 1 and isinstance(inits[0].value, ast.Constant) and inits[0].value.value == 0 and not isinstance(inits[0].value.value, bool) and g.dominates(inits[0], lp)
        return ok_, inits
    for src, n in counters.items():
        ok0, inits = _starts_at_zero(n.target.id)
        ctx.ob(num, "K5", f"the counter `{n.target.id}` starts at 0 before the first tick", ok0, f, inits[0] if inits else n, construct=f"{n.target.id} = 0", detail=f"{[stmt_text(i) for i in inits]}")
    for dname, zero in ((arrivals, 0), (getattr(sm, "lat_list", None), [])):
        if not dname:
            continue
        dd = [n for n in own_nodes(f.node) if isinstance(n, (ast.Assign, ast.AnnAssign)) and n.value is not None and not any(a_ is lp for a_ in _anc(n))
              and any(norm.is_name(t, dname) for t in (n.targets if isinstance(n, ast.Assign) else [n.target]))]
        okd = len(dd) == 1 and isinstance(dd[0].value, ast.Dict) and len(dd[0].value.keys) == 3 and {norm.enum_member(k, "Priority") for k in dd[0].value.keys} == {"QUERY", "INTERACTIVE", "BATCH_PIPELINE"} \
            and all((isinstance(v, ast.Constant) and v.value == 0 and not isinstance(v.value, bool)) if zero == 0 else (isinstance(v, ast.List) and not v.elts) for v in dd[0].value.values)
        ctx.ob(num, "K5", f"the per-class table `{dname}` starts with {'0' if zero == 0 else 'an empty list'} for each of the three priority classes", okd, f, dd[0] if dd else lp,
               construct=f"{dname} initial value", detail=f"{[stmt_text(x)[:120] for x in dd]}")
    fexp = f"[r for r in {resv} if r.failed()]"
    fcnt = None
    for k, n in counters.items():
        try:
            e = ast.parse(k, mode="eval").body
        except SyntaxError:
            continue
        if isinstance(e, ast.ListComp) and len(e.generators) == 1 and norm.is_name(e.generators[0].iter, resv) and len(e.generators[0].ifs) == 1 \
                and norm.nnf(e.generators[0].ifs[0]) == ("truth", f"{e.generators[0].target.id}.failed()", True) and norm.is_name(e.elt, e.generators[0].target.id):
            fcnt = n
    okf = fcnt is not None and sm.every_iteration(fcnt) and g.dominates(ex[0], fcnt)
    if fcnt is None:
        # single-pass form:  for r in results: if r.failed(): failures += 1
        for n in ast.walk(lp):
            if isinstance(n, ast.AugAssign) and isinstance(n.target, ast.Name) and isinstance(n.op, ast.Add) and isinstance(n.value, ast.Constant) and n.value.value == 1 \
                    and not isinstance(n.value.value, bool):
                rl = enclosing_for(n, f.node)
                if rl is None or not norm.is_name(rl.iter, resv) or not isinstance(rl.target, ast.Name) or enclosing_for(rl, f.node) is not lp:
                    continue
                rv = rl.target.id
                if not norm.entails(g.facts_at(n), ("truth", f"{rv}.failed()", True)):
                    continue
                h2 = g.node_of(rl).id
                nf = ("truth", f"{rv}.failed()", False)
                miss = g.path_avoiding(h2, {h2, g.exit.id}, {g.node_of(n).id},
                                       edge_ok=lambda a, b, lab, h2=h2: not (a == h2 and lab == "done") and not (isinstance(lab, tuple) and lab[0] == "cond" and nf in norm.atoms_true(lab[1])))
                if miss is None and sm.every_iteration(rl) and g.dominates(ex[0], rl):
                    fcnt, okf = n, True
                    ok0, inits = _starts_at_zero(n.target.id)
                    ctx.ob(num, "K5", f"the counter `{n.target.id}` starts at 0 before the first tick", ok0, f, inits[0] if inits else n, construct=f"{n.target.id} = 0", detail=f"{[stmt_text(i) for i in inits]}")
    ctx.ob(num, "K3", "the failure counter grows by the number of this tick's results with failed() true", okf, f, fcnt or lp, construct="failures += len([r for r in results if r.failed()])",
           detail=stmt_text(fcnt) if fcnt is not None else "not found")
    ecs = [n for n in ast.walk(lp) if isinstance(n, ast.AugAssign) and isinstance(n.target, ast.Subscript) and norm.U(n.target.slice).endswith(".error")]
    oke = False
    d = f"{len(ecs)} site(s)"
    if len(ecs) == 1:
        el = enclosing_for(ecs[0], f.node)
        src = norm.U(norm.subst(el.iter, _loopenv(lp))) if el is not None else None
        try:
            e = ast.parse(src, mode="eval").body if src else None
        except SyntaxError:
            e = None
        isfail = isinstance(e, ast.ListComp) and len(e.generators) == 1 and norm.is_name(e.generators[0].iter, resv) and len(e.generators[0].ifs) == 1 \
            and norm.nnf(e.generators[0].ifs[0]) == ("truth", f"{e.generators[0].target.id}.failed()", True)
        oke = el is not None and isfail and isinstance(el.target, ast.Name) and norm.U(ecs[0].target.slice) == f"{el.target.id}.error" and isinstance(ecs[0].op, ast.Add) \
            and isinstance(ecs[0].value, ast.Constant) and ecs[0].value.value == 1 and sm.every_iteration(el)
        d = f"loop over {src}; key {norm.U(ecs[0].target.slice)}"
        if not oke and el is not None and norm.is_name(el.iter, resv) and isinstance(el.target, ast.Name):
            # single-pass form: inside the loop over this tick's results, under failed()
            rv = el.target.id
            h2 = g.node_of(el).id
            nf = ("truth", f"{rv}.failed()", False)
            miss = g.path_avoiding(h2, {h2, g.exit.id}, {g.node_of(ecs[0]).id},
                                   edge_ok=lambda a, b, lab, h2=h2: not (a == h2 and lab == "done") and not (isinstance(lab, tuple) and lab[0] == "cond" and nf in norm.atoms_true(lab[1])))
            oke = norm.entails(g.facts_at(ecs[0]), ("truth", f"{rv}.failed()", True)) and miss is None and norm.U(ecs[0].target.slice) == f"{rv}.error" and isinstance(ecs[0].op, ast.Add) \
                and isinstance(ecs[0].value, ast.Constant) and ecs[0].value.value == 1 and sm.every_iteration(el) and g.dominates(ex[0], el)
            d = f"loop over {resv} under {rv}.failed(); key {norm.U(ecs[0].target.slice)}; every failed result counted: {miss is None}"
    ctx.ob(num, "K3", "the per-error counter grows by one for every failed result of the tick, keyed by that result's error", oke, f, ecs[0] if ecs else lp,
           construct="failure_error_counts[failure.error] += 1", detail=d)
    sm.names = dict(newp=newp, susv=susv, asgv=asgv, resv=resv, outstanding=outstanding, arrivals=arrivals, counters=counters, fcnt=fcnt, ecs=ecs)
    return sm, ex[0]


def _loopenv(lp) -> dict:
    from ..util import loop_env
    return loop_env(lp)


def enclosing_loop_of(n, top):
    q = parent(n)
    while q is not None and q is not top:
        if isinstance(q, (ast.For, ast.While, ast.AsyncFor)):
            return q
        if isinstance(q, (ast.FunctionDef, ast.AsyncFunctionDef, ast.Lambda)):
            return None
        q = parent(q)
    return None


def check_sweep(ctx, sm, exc, num=4):
    f, g, lp = sm.f, sm.g, sm.main
    nm = getattr(sm, "names", None)
    fin = [c for c in ast.walk(lp) if isinstance(c, ast.Call) and norm.call_name(c) == "record_finish"]
    ctx.ob(num, "K3", "pipelines are marked finished at one site of the main loop", len(fin) == 1, f, fin[0] if fin else lp, construct="record_finish site", detail=f"{len(fin)} site(s)")
    if len(fin) != 1 or not nm:
        return None
    c = fin[0]
    sl = enclosing_for(c, f.node)
    out = nm["outstanding"]
    ok = False
    lat_list = None
    d = "the completion sweep is not a loop over a snapshot of the outstanding pipelines"
    if sl is not None and sl is not lp:
        # every outstanding pipeline is examined in the tick: the sweep is never cut short (a pipeline that completed in this tick but is not
        # reached would be counted in a later tick, with a later finish tick, or never)
        hid_ = g.node_of(sl).id
        cut = [n for n in ast.walk(sl) if isinstance(n, (ast.Break, ast.Return)) and enclosing_loop_of(n, f.node) is sl]
        ctx.ob(num, "K3", "the completion sweep examines every outstanding pipeline (it is never cut short by break / return)", not cut, f, cut[0] if cut else sl,
               construct="no early exit from the sweep", detail=f"{[stmt_text(poolmod.stmt_of(n)) for n in cut]}" if cut else "no break / return in the sweep loop")
    if sl is not None and sl is not lp and out:
        it = norm.U(sl.iter)
        snap = it in (f"list({out}.keys())", f"list({out})", f"list({out}.items())", f"list({out}.values())", f"tuple({out}.keys())", f"tuple({out})")
        le = _loopenv(sl)
        recv = norm.U(norm.subst(c.func.value, le))
        key = sl.target.id if isinstance(sl.target, ast.Name) else None
        pipe_t = None
        if key and it in (f"list({out}.keys())", f"list({out})", f"tuple({out}.keys())", f"tuple({out})"):
            pipe_t = f"{out}[{key}]"
        elif key and it == f"list({out}.values())":
            pipe_t, key = key, None
        elif it == f"list({out}.items())" and isinstance(sl.target, ast.Tuple) and len(sl.target.elts) == 2 and all(isinstance(x, ast.Name) for x in sl.target.elts):
            key, pipe_t = sl.target.elts[0].id, sl.target.elts[1].id
        okrecv = pipe_t is not None and recv == f"{pipe_t}.runtime_status()" and len(c.args) == 1 and norm.is_name(c.args[0], sm.tick)
        fs = g.facts_at(c)
        # the guard: is_pipeline_successful() of that pipeline (in raw or substituted spelling)
        succ = any(a[0] == "truth" and a[2] is True and a[1].endswith("is_pipeline_successful()") and
                   norm.U(norm.subst(ast.parse(a[1], mode="eval").body, le)) == f"{pipe_t}.runtime_status().is_pipeline_successful()" for a in fs)
        # latency append and delete, control-equivalent with record_finish
        apps = [a for a in ast.walk(sl) if isinstance(a, ast.Call) and isinstance(a.func, ast.Attribute) and a.func.attr == "append" and isinstance(a.func.value, ast.Subscript)]
        okapp = False
        for a in apps:
            arg = norm.U(norm.subst(a.args[0], le)) if a.args else None
            keyp = norm.U(norm.subst(a.func.value.slice, le))
            if arg == f"{pipe_t}.runtime_status().get_latency_ticks()" and keyp == f"{pipe_t}.priority" and g.control_equivalent(poolmod.stmt_of(c), poolmod.stmt_of(a), sl) \
                    and g.dominates(c, a):
                okapp = True
                lat_list = norm.U(a.func.value.value)
        dels = [n for n in ast.walk(sl) if isinstance(n, ast.Delete) and any(isinstance(t, ast.Subscript) and norm.U(t.value) == out for t in n.targets)]
        pops = [x for x in ast.walk(sl) if isinstance(x, ast.Call) and isinstance(x.func, ast.Attribute) and x.func.attr == "pop" and norm.U(x.func.value) == out]
        okdel = False
        for n in dels:
            if norm.U(norm.subst(n.targets[0].slice, le)) in ([key] if key else []) + [f"{pipe_t}.pipeline_id"] and g.control_equivalent(poolmod.stmt_of(c), n, sl):
                okdel = True
        for x in pops:
            if g.control_equivalent(poolmod.stmt_of(c), poolmod.stmt_of(x), sl):
                okdel = True
        # completeness inside the sweep: every successful outstanding pipeline is finished
        h2 = g.node_of(sl).id
        comp = None
        for a in fs:
            if a[0] == "truth" and a[2] is True and a[1].endswith("is_pipeline_successful()"):
                nreq = ("truth", a[1], False)

                def edge_ok(x, y, lab, nreq=nreq, h2=h2):
                    if x == h2 and lab == "done":
                        return False
                    return not (isinstance(lab, tuple) and lab[0] == "cond" and nreq in norm.atoms_true(lab[1]))
                comp = g.path_avoiding(h2, {h2, g.exit.id}, {g.node_of(c).id}, edge_ok=edge_ok)
        ok = snap and okrecv and succ and okapp and okdel and comp is None
        d = (f"sweep `{stmt_text(sl)}` over a snapshot of `{out}`: {snap}; record_finish({sm.tick}) on that pipeline: {okrecv}; only if is_pipeline_successful(): {succ}; "
             f"latency appended to the list of its own priority: {okapp}; removed from the outstanding map: {okdel}; every successful one handled: {comp is None}")
    ctx.ob(num, "K4", "a completed pipeline is finished exactly once: in the sweep it gets record_finish(this tick), its latency joins the list of its own priority class, "
           "and it leaves the outstanding map — all together, and only if all its operators completed", ok, f, c, construct="completion sweep body", detail=d)
    # the sweep runs every tick after the executor, unless there were no results
    if sl is not None:
        h2 = g.node_of(sl).id
        IN = g.facts(blocked={h2})
        back = [p for p, lab in g.nodes[sm.hid].pred if g.nodes[p].ast is not None and any(g.nodes[p].ast is x for x in ast.walk(lp))]
        okskip = True
        for p in back:
            fsb = IN.get(p)
            if fsb is None:
                continue
            # facts at the back edge on sweep-avoiding paths must say: no results this tick
            from ..cfg import _kill, _writes, _gen
            outf = _kill(fsb, _writes(g.nodes[p])) | _gen(g.nodes[p])
            lab = [l for q, l in g.nodes[sm.hid].pred if q == p][0]
            if isinstance(lab, tuple) and lab[0] == "cond":
                outf = outf | frozenset(norm.atoms_true(lab[1]))
            if not norm.entails(outf, ("truth", nm["resv"], False)):
                okskip = False
        after = exc is not None and g.dominates(exc, sl)
        ctx.ob(num, "K2", "the completion sweep runs in every tick after the executor; it may be skipped only when that tick produced no results", okskip and after, f, sl,
               construct="sweep guard", detail=f"after the executor tick: {after}; skipped only with empty results: {okskip}")
    sm.lat_list = lat_list
    return sm


def check_tail(ctx, sm, num=5):
    P = ctx.P
    f, g = sm.f, sm.g
    nm = getattr(sm, "names", None) or {}
    env = sm.env
    rets = [r for r in own_nodes(f.node) if isinstance(r, ast.Return) and isinstance(r.value, ast.Call) and norm.call_name(r.value) == "SimulatorStats"]
    ctx.ob(num, "K6", "run_simulator returns one SimulatorStats", len(rets) == 1, f, rets[0] if rets else f.node, construct="return SimulatorStats(...)", detail=f"{len(rets)}")
    if len(rets) != 1:
        return
    call = rets[0].value
    kw = {k.arg: k.value for k in call.keywords}
    counters = nm.get("counters", {})

    def counter_name(src):
        n = counters.get(src)
        return n.target.id if n is not None else None
    want = {
        "pipelines_created": counter_name(nm.get("newp")),
        "assignments": counter_name(nm.get("asgv")),
        "suspensions": counter_name(nm.get("susv")),
        "failures": nm["fcnt"].target.id if nm.get("fcnt") is not None else None,
    }
    for fld, src in want.items():
        v = kw.get(fld)
        ok = v is not None and src is not None and norm.is_name(v, src)
        ctx.ob(num, "K6", f"statistic `{fld}` is the counter accumulated in the main loop", ok, f, call, construct=f"SimulatorStats({fld}=...)",
               detail=f"{fld}={norm.U(v) if v is not None else None}; counter: {src}")
    ecs = nm.get("ecs") or []
    ecn = norm.U(ecs[0].target.value) if ecs else None
    v = kw.get("failure_error_counts")
    ctx.ob(num, "K6", "statistic `failure_error_counts` is the per-error counter", v is not None and ecn is not None and norm.U(v) in (ecn, f"dict({ecn})"), f, call,
           construct="SimulatorStats(failure_error_counts=...)", detail=f"{norm.U(v) if v is not None else None}; counter: {ecn}")
    v = kw.get("containers_completed")
    ctx.ob(num, "K6", "statistic `containers_completed` is the executor's count of successful containers", v is not None and norm.U(norm.subst(v, env)) == f"{sm.executor}.num_completed()", f, call,
           construct="SimulatorStats(containers_completed=...)", detail=f"{norm.U(v) if v is not None else None}")
    v = kw.get("throughput")
    okt = v is not None and ratform.same(norm.subst(v, env), ratform.parse(f"{sm.executor}.num_completed() / {sm.params}['duration']"))
    ctx.ob(num, "K7", "throughput = successful containers / simulated duration in seconds", okt, f, call, construct="throughput", detail=f"resolves to {norm.U(norm.subst(v, env)) if v is not None else None}")
    # per-class stats
    arr, lat = nm.get("arrivals"), getattr(sm, "lat_list", None)
    for fld, member in (("pipelines_query", "QUERY"), ("pipelines_interactive", "INTERACTIVE"), ("pipelines_batch", "BATCH_PIPELINE")):
        v = kw.get(fld)
        r = norm.subst(v, env) if v is not None else None
        ok = isinstance(r, ast.Call) and norm.call_name(r) == "compute_pipeline_stats" and len(r.args) == 3 and arr and lat and \
            norm.U(r.args[0]) == f"{arr}[Priority.{member}]" and norm.U(r.args[1]) == f"{lat}[Priority.{member}]" and norm.U(norm.subst(r.args[2], env)) in (f"{sm.params}['ticks_per_second']",)
        ctx.ob(num, "K6", f"`{fld}` is computed from the arrivals and latencies of class {member} only", ok, f, call, construct=f"SimulatorStats({fld}=...)",
               detail=f"{norm.U(r) if r is not None else None}")
    v = kw.get("pipelines_all")
    r = norm.subst(v, env) if v is not None else None
    ok = isinstance(r, ast.Call) and norm.call_name(r) == "compute_pipeline_stats" and len(r.args) == 3 and arr and lat and \
        norm.U(r.args[0]) == f"sum({arr}.values())" and norm.U(r.args[1]) in (f"sum({lat}.values(), [])", f"list(chain.from_iterable({lat}.values()))", f"list(itertools.chain.from_iterable({lat}.values()))")
    ctx.ob(num, "K6", "the `all` class is the sum of the per-class arrivals and the concatenation of the per-class latency lists (classes partition the totals)", ok, f, call,
           construct="SimulatorStats(pipelines_all=...)", detail=f"{norm.U(r) if r is not None else None}")
    # the class dicts have exactly the three priorities
    for nmx in (arr, lat):
        if not nmx:
            continue
        ds = [n for n in own_nodes(f.node) if isinstance(n, (ast.Assign, ast.AnnAssign)) and norm.is_name(n.targets[0] if isinstance(n, ast.Assign) else n.target, nmx) and isinstance(n.value, ast.Dict)]
        keys = sorted(norm.enum_member(k, "Priority") or "?" for k in ds[0].value.keys) if ds else []
        ctx.ob(num, "K5", f"`{nmx}` has one entry per priority class", keys == sorted(["QUERY", "INTERACTIVE", "BATCH_PIPELINE"]), f, ds[0] if ds else f.node, construct=f"{nmx} keys", detail=f"{keys}")
    # compute_pipeline_stats
    cps = P.fn(SIM, "compute_pipeline_stats")
    ctx.touch(cps)
    gc = cfg_of(cps, subst_env=False)
    ps = cps.params()
    r2 = [r for r in own_nodes(cps.node) if isinstance(r, ast.Return) and isinstance(r.value, ast.Call) and norm.call_name(r.value) == "PipelineStats"]
    if len(r2) == 1 and len(ps) == 3:
        e2 = single_defs(cps)
        k2 = {k.arg: k.value for k in r2[0].value.keys} if False else {k.arg: k.value for k in r2[0].value.keywords}
        okc = norm.U(norm.subst(k2.get("completion_count"), e2)) == f"len({ps[1]})" and norm.U(norm.subst(k2.get("arrival_count"), e2)) == ps[0]
        ctx.ob(num, "K7", "a class's completion count is the number of latencies recorded, its arrival count the counter handed in", okc, cps, r2[0], construct="PipelineStats(count fields)",
               detail=f"completion_count={norm.U(k2.get('completion_count'))}, arrival_count={norm.U(k2.get('arrival_count'))}")
        for fld, fn, extra in (("mean_latency_seconds", "mean", None), ("p99_latency_seconds", "percentile", 99)):
            nmv = k2.get(fld)
            defs = [n for n in own_nodes(cps.node) if isinstance(n, ast.Assign) and nmv is not None and isinstance(nmv, ast.Name) and any(norm.is_name(t, nmv.id) for t in n.targets)]
            good = False
            for n in defs:
                v = n.value
                if isinstance(v, ast.BinOp) and isinstance(v.op, ast.Div) and norm.is_name(v.right, ps[2]) and isinstance(v.left, ast.Call) and norm.call_name(v.left) == fn \
                        and norm.is_name(v.left.args[0], ps[1]) and (extra is None or (len(v.left.args) == 2 and isinstance(v.left.args[1], ast.Constant) and v.left.args[1].value == extra)):
                    good = True
                elif isinstance(v, ast.Call) and norm.call_name(v) == "float" and v.args and isinstance(v.args[0], ast.Constant) and v.args[0].value == "nan":
                    good = good  # the empty-class branch
                else:
                    good = False if not good else good
            ctx.ob(num, "K7", f"`{fld}` = np.{fn}(latencies{', 99' if extra else ''}) / ticks_per_second over exactly the completed pipelines of the class", good, cps,
                   defs[0] if defs else cps.node, construct=fld, detail=f"{[stmt_text(n) for n in defs]}")


def check_reductions(ctx, num=6):
    """K13: reductions undefined on an empty sequence are guarded by non-emptiness of the same sequence."""
    P = ctx.P
    m = P.mod(SIM)
    n_sites = 0
    from ..util import view_funcs
    for f in view_funcs(P, m):
        g = None
        for c in own_nodes(f.node):
            if not (isinstance(c, ast.Call) and norm.call_name(c) in REDUCERS and c.args):
                continue
            if isinstance(c.func, ast.Name) and c.func.id in ("max", "min") and (len(c.args) > 1 or any(k.arg == "default" for k in c.keywords)):
                continue
            if isinstance(c.func, ast.Attribute) and not (isinstance(c.func.value, ast.Name) and c.func.value.id in ("np", "numpy", "statistics")):
                continue
            n_sites += 1
            g = g or cfg_of(f, subst_env=False)
            ctx.touch(f)
            seq = c.args[0]
            env = single_defs(f)
            goal1 = ("truth", norm.U(seq), True)
            goal2 = ("truth", norm.U(norm.subst(seq, env)), True)
            ok = g.holds_at(c, goal1) or g.holds_at(c, goal2)
            # ternary guard:  f(x) if x else y
            p_ = parent(c)
            while p_ is not None and not isinstance(p_, ast.stmt):
                if isinstance(p_, ast.IfExp) and norm.nnf(p_.test) in (goal1, goal2) and any(x is c for x in ast.walk(p_.body)):
                    ok = True
                p_ = parent(p_)
            ctx.ob(num, "K13", f"the reduction {norm.call_name(c)}() is applied only to a sequence known to be non-empty (it is undefined / raises on an empty one)", ok,
                   f, c, detail=f"sequence: {norm.U(seq)}; required guard: non-emptiness of that same sequence; facts: {sorted(norm.show(x) for x in g.facts_at(c))}")
    ctx.count_min("empty-undefined reductions in simulator.py", n_sites, 3)


def check_divisions(ctx, num=6):
    """K13 (zero division): in the simulator's loop and statistics every divisor is a configuration value of a valid configuration
    (duration, ticks_per_second — positive), a non-zero literal, the pools' total RAM, or is known non-zero by a guard.  A divisor
    *computed* from the run (a tick count, a number of results, int(duration * ticks_per_second)) can be zero — a duration shorter
    than one tick gives zero ticks."""
    P = ctx.P
    m = P.mod(SIM)
    from ..util import view_funcs
    n = 0
    for f in view_funcs(P, m):
        if f.name not in ("run_simulator", "compute_pipeline_stats"):
            continue
        g = cfg_of(f, subst_env=False)
        env = single_defs(f)
        params = set(f.params())
        for b in own_nodes(f.node):
            if not (isinstance(b, ast.BinOp) and isinstance(b.op, (ast.Div, ast.FloorDiv, ast.Mod))):
                continue
            if isinstance(b.op, ast.Mod) and isinstance(b.left, (ast.Constant, ast.JoinedStr)) and isinstance(getattr(b.left, "value", None), str):
                continue   # string formatting
            n += 1
            den = norm.subst(b.right, env)

            def config_positive(e) -> bool:
                if isinstance(e, ast.Constant) and isinstance(e.value, (int, float)) and not isinstance(e.value, bool):
                    return e.value != 0
                if isinstance(e, ast.Subscript) and isinstance(e.slice, ast.Constant) and e.slice.value in ("duration", "ticks_per_second") and isinstance(e.value, ast.Name):
                    return True
                if isinstance(e, ast.Name) and e.id in params and e.id in ("ticks_per_second", "duration"):
                    return True
                if isinstance(e, ast.Call) and norm.call_name(e) in ("get_total_ram_gb",) and not e.args:
                    return True
                if isinstance(e, ast.Call) and norm.call_name(e) in ("float", "int") and len(e.args) == 1 and norm.call_name(e) == "float":
                    return config_positive(e.args[0])
                return False
            st = b
            while not isinstance(st, ast.stmt):
                st = parent(st)
            t = norm.U(den)
            fs = g.facts_at(st)
            ok = config_positive(den) or norm.entails(fs, ("cmp", "<", "0", t)) or norm.entails(fs, norm.mk_cmp("!=", "0", t)) \
                or norm.entails(fs, ("cmp", "<", "0", norm.U(b.right))) or norm.entails(fs, norm.mk_cmp("!=", "0", norm.U(b.right)))
            ctx.ob(num, "K13", "a divisor in the simulator's loop / statistics is a positive configuration value or is known to be non-zero "
                   "(a quantity computed from the run — e.g. the number of ticks of a very short run — can be 0)", ok, f, b,
                   construct=f"divisor {norm.U(b.right)}", detail=f"{norm.U(b)}; divisor resolves to {t}")
    ctx.count_min("divisions in run_simulator / compute_pipeline_stats", n, 3)


def check_executor_aggregates(ctx, num=7):
    P = ctx.P
    for meth, attr, op in (("num_completed", "num_completed", "sum"), ("container_tick_times", "container_tick_times", "concat")):
        f = P.fn(EX, f"Executor.{meth}")
        ctx.touch(f)
        g = cfg_of(f, subst_env=False)
        rs = [r for r in own_nodes(f.node) if isinstance(r, ast.Return)]
        ok = False
        d = f"{[stmt_text(r) for r in rs]}"
        if len(rs) == 1 and isinstance(rs[0].value, ast.Name):
            acc = rs[0].value.id
            ups = [n for n in own_nodes(f.node) if (isinstance(n, ast.AugAssign) and norm.is_name(n.target, acc)) or
                   (isinstance(n, ast.Expr) and isinstance(n.value, ast.Call) and isinstance(n.value.func, ast.Attribute) and norm.is_name(n.value.func.value, acc))]
            if len(ups) == 1:
                lp = enclosing_for(ups[0], f.node)
                if lp is not None and isinstance(lp.target, ast.Name):
                    iv = lp.target.id
                    allp = norm.U(lp.iter) in ("range(self.num_pools)", "range(len(self.pools))", "self.pools")
                    term = f"self.pools[{iv}].{attr}" if norm.U(lp.iter) != "self.pools" else f"{iv}.{attr}"
                    val = ups[0].value if isinstance(ups[0], ast.AugAssign) else ups[0].value.args[0]
                    form = (isinstance(ups[0], ast.AugAssign) and isinstance(ups[0].op, ast.Add)) if op == "sum" else (isinstance(ups[0], ast.Expr) and ups[0].value.func.attr == "extend")
                    inits = [n for n in own_nodes(f.node) if isinstance(n, ast.Assign) and len(n.targets) == 1 and norm.is_name(n.targets[0], acc)]
                    zero = len(inits) == 1 and ((op == "sum" and isinstance(inits[0].value, ast.Constant) and inits[0].value.value == 0 and not isinstance(inits[0].value.value, bool))
                                               or (op == "concat" and isinstance(inits[0].value, ast.List) and not inits[0].value.elts)) and g.dominates(inits[0], lp)
                    ok = allp and norm.U(val) == term and form and zero
                    d = f"loop {stmt_text(lp)}; update {stmt_text(ups[0])}; accumulator starts at {'0' if op == 'sum' else '[]'}: {zero}"
        elif len(rs) == 1 and isinstance(rs[0].value, ast.Call) and norm.call_name(rs[0].value) == "sum" and op == "sum":
            a0 = rs[0].value.args[0]
            if isinstance(a0, (ast.GeneratorExp, ast.ListComp)) and len(a0.generators) == 1 and not a0.generators[0].ifs and isinstance(a0.generators[0].target, ast.Name):
                iv = a0.generators[0].target.id
                src = norm.U(a0.generators[0].iter)
                ok = (src == "self.pools" and norm.U(a0.elt) == f"{iv}.{attr}") or (src in ("range(self.num_pools)", "range(len(self.pools))") and norm.U(a0.elt) == f"self.pools[{iv}].{attr}")
        elif len(rs) == 1 and isinstance(rs[0].value, ast.ListComp) and op == "concat" and len(rs[0].value.generators) == 2:
            g1, g2 = rs[0].value.generators
            if not g1.ifs and not g2.ifs and isinstance(g1.target, ast.Name) and isinstance(g2.target, ast.Name) and norm.is_name(rs[0].value.elt, g2.target.id):
                iv = g1.target.id
                src = norm.U(g1.iter)
                ok = (src == "self.pools" and norm.U(g2.iter) == f"{iv}.{attr}") or (src in ("range(self.num_pools)", "range(len(self.pools))") and norm.U(g2.iter) == f"self.pools[{iv}].{attr}")
        elif len(rs) == 1 and op == "concat" and isinstance(rs[0].value, ast.Call) and norm.is_name(rs[0].value.func, "list") and len(rs[0].value.args) == 1 \
                and isinstance(rs[0].value.args[0], ast.Call) and norm.U(rs[0].value.args[0].func) in ("chain.from_iterable", "itertools.chain.from_iterable") \
                and len(rs[0].value.args[0].args) == 1 and isinstance(rs[0].value.args[0].args[0], (ast.GeneratorExp, ast.ListComp)):
            # list(chain.from_iterable(<one list per pool, in pool order>))
            a0 = rs[0].value.args[0].args[0]
            if len(a0.generators) == 1 and not a0.generators[0].ifs and isinstance(a0.generators[0].target, ast.Name):
                iv = a0.generators[0].target.id
                src = norm.U(a0.generators[0].iter)
                ok = (src == "self.pools" and norm.U(a0.elt) == f"{iv}.{attr}") or (src in ("range(self.num_pools)", "range(len(self.pools))") and norm.U(a0.elt) == f"self.pools[{iv}].{attr}")
        ctx.ob(num, "K6", f"Executor.{meth}() aggregates {attr} over all pools", ok, f, rs[0] if rs else f.node, detail=d)
    # the per-pool statistics start empty
    ri = P.fn(RP, "ResourcePool.__init__")
    for attr, zero in (("num_completed", 0), ("container_tick_times", [])):
        st = [n for n in own_nodes(ri.node) if isinstance(n, ast.Assign) and any(self_attr(t, attr) for t in n.targets)]
        ok0 = len(st) == 1 and ((zero == 0 and isinstance(st[0].value, ast.Constant) and st[0].value.value == 0 and not isinstance(st[0].value.value, bool))
                                or (zero == [] and isinstance(st[0].value, ast.List) and not st[0].value.elts))
        ctx.ob(num, "K5", f"a new pool starts with {attr} = {zero!r}", ok0, ri, st[0] if st else ri.node, construct=f"self.{attr} = {zero!r}", detail=f"{[stmt_text(x) for x in st]}")
    # tick times recorded once per ending container
    pa = poolmod.pool_analysis(P)
    apps = [c for c in calls_named(pa.f, "append") if isinstance(c.func, ast.Attribute) and self_attr(c.func.value, "container_tick_times")]
    gone = pa.moves_of("active->gone")
    ok = len(apps) == 1 and bool(gone) and pa.g.control_equivalent(gone[0].anchor, poolmod.stmt_of(apps[0]), gone[0].src_loop) and norm.U(apps[0].args[0]) == f"{gone[0].var}.ticks_elapsed()"
    ctx.ob(num, "K4", "every ending container contributes its elapsed ticks exactly once to the pool's tick-time list", ok, pa.f, apps[0] if apps else pa.f.node,
           construct="container_tick_times.append(c.ticks_elapsed())", detail=f"{[norm.U(a) for a in apps]}")


def run(ctx):
    check_write_once(ctx, 1)
    check_formulas(ctx, 2)
    # "successful iff COMPLETED count == number of operators" needs the counts to mirror the per-operator states: established at
    # construction (C02#3), preserved by transition() (C02#2)
    from . import c02
    c02.check_counts_init(ctx, 2)
    c02.check_transition_fn(ctx, 2)
    sm, exc = check_main_loop(ctx, 3)
    # the per-tick counters are taken from the lists handed to the scheduler, partly after the call: no shipped scheduler changes those lists
    from . import sched
    for key_ in ("naive", "tmpl", "priority", "priority-pool", "overbook"):
        sched.ob_inputs_not_mutated(ctx, 3, key_, key_)
    sm2 = check_sweep(ctx, sm, exc, 4)
    check_tail(ctx, sm, 5)
    check_reductions(ctx, 6)
    check_divisions(ctx, 6)
    c09.check_success_iff_no_error(ctx, 7)
    check_executor_aggregates(ctx, 7)
    # "an uncontended pipeline finishes in exactly the ticks its operators need": the tick plan and count-down of C05
    from . import c05, c08
    sh = c05.check_plan(c08._Renumber(ctx, {1: 8, 2: 8, 5: 8, 6: 8, 7: 8}))
    c05.check_tick_body(c08._Renumber(ctx, {4: 8, 5: 8, 6: 8, 7: 8}), sh)
    c05.check_tick_method(ctx, 8)       # the tick times that enter the p99 statistic are counted once per advance


def _anc(n):
    out = []
    p_ = parent(n)
    while p_ is not None:
        out.append(p_)
        p_ = parent(p_)
    return out
