"""C15 — the workload generator emits well-formed pipelines that follow its parameters."""
from __future__ import annotations

import ast
from typing import Dict, List, Optional, Set, Tuple

from .. import norm, ratform, piecewise
from ..model import own_nodes, stmt_text, parent, Func
from ..util import attr_writes, cfg_of, calls_named, single_defs, loop_env, resolve_callee
from .common import *

EXPLANATION = (
    "Static decision of the structural clauses of C15 in WorkloadGenerator.  (1) batch size and ids: generate_pipelines loops "
    "over range(self.num_pipelines), appends exactly one pipeline per iteration to the list it returns, and forms the id after "
    "incrementing a counter once per iteration.  (2) a QUERY pipeline gets exactly one parent-less operator with one segment from "
    "the query prototype.  (3) any other pipeline: the operator count is >= 1 when the operator loop starts (path-sensitive "
    "interval), each operator's parent list is [previous operator] (none for the first), the previous-operator variable is "
    "updated at the end of every iteration, one segment per operator.  (4) closed prototype set: every Segment(...) in the "
    "generator has literal arguments; the if/elif thresholds of generate_segment_from_val tile the real line without gap or "
    "overlap (no path falls off the end); the first operator uses the val < -1 (most I/O-heavy) prototype.  (5) the priority "
    "values and the probability vector are aligned element by element with the like-named parameters, normalised by their sum, "
    "and used together in rng.choice(a=values, p=probs).  (6) K10 parameter influence: every documented parameter is stored "
    "unchanged (or by the documented formula) and has a *live* read — in a statement that is reachable after constant/None "
    "propagation and one-trip-loop pruning, inside a method reachable from run_one_tick through live call sites.  (7) arrival "
    "clock: generation iff ticks_since_last_gen == curr_waiting_ticks, else the counter grows by one; after generation the "
    "counter is reset and the next wait is int(normal(mean, mean/4)) with the non-positive fallback to the mean; "
    "waiting_ticks_mean = int(waiting_seconds_mean * ticks_per_second).")
UNDECIDED = ("every distributional clause: the average operator count, class frequencies following the probabilities, the mean gap, and the "
             "direction in which cpu_io_ratio shifts the prototype mix (only that the parameter reaches the draw is decided)")
ASSUMPTIONS = COMMON_ASSUMPTIONS + ["numpy.random.Generator.choice/normal behave as documented"]

PARAMS = ["waiting_seconds_mean", "num_pipelines", "num_operators", "cpu_io_ratio", "random_seed", "batch_prob", "query_prob", "interactive_prob", "ticks_per_second"]


def _gen_cls(P):
    return P.cls(WL, "WorkloadGenerator")


def check_batch(ctx, num=1):
    P = ctx.P
    f = P.fn(WL, "WorkloadGenerator.generate_pipelines")
    ctx.touch(f)
    env = single_defs(f)
    g = cfg_of(f)
    loops = [n for n in f.node.body if isinstance(n, ast.For)]
    ok = len(loops) == 1 and norm.U(loops[0].iter) == "range(self.num_pipelines)"
    ctx.ob(num, "K3", "an arrival event builds pipelines in one loop over range(num_pipelines)", ok, f, loops[0] if loops else f.node, detail=f"{[stmt_text(l) for l in loops]}")
    if not ok:
        return None
    lp = loops[0]
    hid = g.node_of(lp).id
    rets = [r for r in own_nodes(f.node) if isinstance(r, ast.Return) and r.value is not None]
    out = rets[0].value.id if len(rets) == 1 and isinstance(rets[0].value, ast.Name) else None
    apps = [c for c in ast.walk(lp) if isinstance(c, ast.Call) and isinstance(c.func, ast.Attribute) and c.func.attr == "append" and out and norm.is_name(c.func.value, out)]
    ok = len(apps) == 1 and enclosing_for(apps[0], f.node) is lp and g.path_avoiding(hid, {hid, g.exit.id}, {g.node_of(apps[0]).id}, edge_ok=lambda a, b, lab: not (a == hid and lab == "done")) is None
    init = [n for n in own_nodes(f.node) if isinstance(n, ast.Assign) and out and any(norm.is_name(t, out) for t in n.targets)]
    ok = ok and len(init) == 1 and isinstance(init[0].value, ast.List) and not init[0].value.elts and enclosing_for(init[0], f.node) is None
    ctx.ob(num, "K3", "exactly one pipeline per iteration is appended to the (fresh) list that is returned: an event delivers exactly num_pipelines pipelines", ok, f,
           apps[0] if apps else lp, construct="pipelines.append(p) once per iteration", detail=f"appends: {len(apps)}; returned: {out}")
    pv = norm.U(apps[0].args[0]) if apps else None
    ctor = [c for c in ast.walk(lp) if isinstance(c, ast.Call) and norm.call_name(c) == "Pipeline"]
    okid = False
    d = f"{len(ctor)} Pipeline( site(s)"
    if len(ctor) == 1 and isinstance(parent(ctor[0]), ast.Assign) and norm.is_name(parent(ctor[0]).targets[0], pv):
        le = loop_env(lp)
        idexpr = norm.U(norm.subst(ctor[0].args[0], le))
        incs = [n for n in ast.walk(lp) if isinstance(n, ast.AugAssign) and self_attr(n.target, "pipeline_counter")]
        okinc = len(incs) == 1 and isinstance(incs[0].op, ast.Add) and isinstance(incs[0].value, ast.Constant) and incs[0].value.value == 1 and enclosing_for(incs[0], f.node) is lp \
            and g.path_avoiding(hid, {hid, g.exit.id}, {g.node_of(incs[0]).id}, edge_ok=lambda a, b, lab: not (a == hid and lab == "done")) is None
        # the id is formed after the increment
        iddef = [n for n in ast.walk(lp) if isinstance(n, ast.Assign) and "pipeline_counter" in norm.U(n.value) and isinstance(n.value, ast.JoinedStr)]
        after = bool(iddef) and bool(incs) and g.dominates(incs[0], iddef[0]) and g.dominates(iddef[0], ctor[0])
        otherw = [w for w in attr_writes(P, "pipeline_counter") if w.node not in incs and w.fn.qual != "WorkloadGenerator.__init__"]
        okid = okinc and after and idexpr == "f'p{self.pipeline_counter}'" and not otherw
        d = f"id = {idexpr}; counter += 1 once per iteration: {okinc}; id formed after the increment: {after}; other writers of the counter: {len(otherw)}"
    ctx.ob(num, "K3", "every pipeline gets a fresh id: a per-generator counter is incremented once per pipeline, before the id is formed from it", okid, f,
           ctor[0] if ctor else lp, construct="fresh pipeline ids", detail=d)
    return f, g, lp, pv


def check_shapes(ctx, f, g, lp, pv):
    P = ctx.P
    env = single_defs(f)
    le = loop_env(lp)
    # priority draw
    ch = [c for c in ast.walk(lp) if isinstance(c, ast.Call) and norm.call_name(c) == "choice"]
    okc = len(ch) == 1 and norm.U(ch[0].func.value) == "self.rng" and norm.U(norm.kwarg(ch[0], "a", 0)) == "self.priority_values" and norm.U(norm.kwarg(ch[0], "p")) == "self.priority_probs"
    prv = parent(ch[0]).targets[0].id if okc and isinstance(parent(ch[0]), ast.Assign) else None
    ctx.ob(5, "K5", "the class of a pipeline is drawn by rng.choice over the priority values with the configured probabilities", okc and prv is not None, f, ch[0] if ch else lp,
           construct="rng.choice(a=priority_values, p=priority_probs)", detail=f"{[norm.U(c) for c in ch]}")
    ctor = [c for c in ast.walk(lp) if isinstance(c, ast.Call) and norm.call_name(c) == "Pipeline"]
    okp = len(ctor) == 1 and prv and len(ctor[0].args) >= 2 and norm.U(norm.subst(ctor[0].args[1], le)) == f"Priority({prv})"
    ctx.ob(5, "K6", "the pipeline's priority is the class that was drawn", bool(okp), f, ctor[0] if ctor else lp, construct="Pipeline(id, Priority(drawn value))", detail=f"{[norm.U(c) for c in ctor]}")
    # the query branch
    # the raw value against QUERY's value, or the enum member made from it against QUERY itself (members are singletons with distinct values)
    qforms = set()
    if prv:
        qforms = {norm.mk_cmp("==", "Priority.QUERY.value", prv), norm.mk_cmp("==", "Priority.QUERY", f"Priority({prv})"),
                  ("cmp", "is", f"Priority({prv})", "Priority.QUERY"), ("cmp", "is", "Priority.QUERY", f"Priority({prv})")}
    qif = [n for n in lp.body if isinstance(n, ast.If) and prv and (norm.nnf(n.test) in qforms or norm.nnf(norm.subst(n.test, le)) in qforms)]
    ctx.ob(2, "K2", "query pipelines are recognised by the drawn class being QUERY", len(qif) == 1, f, qif[0] if qif else lp, construct="if priority == Priority.QUERY.value", detail=f"{len(qif)}")
    if len(qif) != 1:
        return
    q = qif[0]
    qops = [c for s in q.body for c in ast.walk(s) if isinstance(c, ast.Call) and norm.call_name(c) == "new_operator"]
    qseg = [c for s in q.body for c in ast.walk(s) if isinstance(c, ast.Call) and norm.call_name(c) == "add_segment"]
    qloops = [x for s in q.body for x in ast.walk(s) if isinstance(x, (ast.For, ast.While))]
    okq = len(qops) == 1 and not qops[0].args and not qops[0].keywords and norm.U(qops[0].func.value) == pv and len(qseg) == 1 and not qloops
    if okq:
        opn = parent(qops[0]).targets[0].id if isinstance(parent(qops[0]), ast.Assign) else None
        qe = {}
        for s in q.body:
            if isinstance(s, ast.Assign) and isinstance(s.targets[0], ast.Name):
                qe[s.targets[0].id] = s.value
        okq = opn is not None and norm.is_name(qseg[0].func.value, opn) and norm.U(norm.subst(qseg[0].args[0], qe)) == "self.generate_query_segment()"
    ctx.ob(2, "K3", "a query pipeline has exactly one operator, without parents, holding one segment from the query prototype", okq, f, qops[0] if qops else q, construct="query pipeline shape",
           detail=f"new_operator calls: {len(qops)}; add_segment calls: {len(qseg)}; loops in the branch: {len(qloops)}")
    # the non-query branch
    ol = [n for s in q.orelse for n in ast.walk(s) if isinstance(n, ast.For) and any(isinstance(c, ast.Call) and norm.call_name(c) == "new_operator" for c in ast.walk(n))]
    ol = [n for n in ol if enclosing_for(n, f.node) is lp]
    ctx.ob(3, "K3", "other pipelines are built by one operator loop", len(ol) == 1, f, ol[0] if ol else q, construct="operator loop", detail=f"{len(ol)}")
    if len(ol) != 1:
        return
    o = ol[0]
    cnt = None
    if isinstance(o.iter, ast.Call) and norm.is_name(o.iter.func, "range") and len(o.iter.args) == 1 and isinstance(o.iter.args[0], ast.Name):
        cnt = o.iter.args[0].id
    # the same chain with its first link taken out of the loop:  root = p.new_operator(); <root's segment>; for _ in range(n - 1): op = p.new_operator([prev]) ...
    pre_ops = [c for s in q.orelse for c in ast.walk(s) if isinstance(c, ast.Call) and norm.call_name(c) == "new_operator" and not any(c is x for x in ast.walk(o))]
    peeled = None
    if len(pre_ops) == 1 and isinstance(o.iter, ast.Call) and norm.is_name(o.iter.func, "range") and len(o.iter.args) == 1 and isinstance(o.iter.args[0], ast.BinOp) \
            and isinstance(o.iter.args[0].op, ast.Sub) and isinstance(o.iter.args[0].left, ast.Name) and isinstance(o.iter.args[0].right, ast.Constant) and o.iter.args[0].right.value == 1 \
            and isinstance(parent(pre_ops[0]), ast.Assign) and isinstance(parent(pre_ops[0]).targets[0], ast.Name) and g.dominates(parent(pre_ops[0]), o) \
            and enclosing_for(pre_ops[0], f.node) is lp and any(parent(pre_ops[0]) is s_ for s_ in poolstmt_block(o)):
        peeled = pre_ops[0]
        cnt = o.iter.args[0].left.id
    ge1 = cnt is not None and g.holds_on_entry(o, ("cmp", "<=", "1", cnt))
    ctx.ob(3, "K9", "the operator loop runs at least once: the drawn operator count is >= 1 on every path into the loop (floored at 1)", ge1, f, o, construct="num ops >= 1",
           detail=f"loop `{stmt_text(o)}`; goal 1 <= {cnt} on entry: {ge1}")
    # the floor is exactly "at least one": the only other definition of the count is the constant 1, taken only when the draw is below 1
    if cnt:
        from . import sched as _sched
        rds = [d_ for d_ in _sched.reaching_defs(f, g, o, cnt) if isinstance(d_, ast.Assign)]
        fb = [d_ for d_ in rds if isinstance(d_.value, ast.Constant)]
        okfl = True
        dfl = "no constant fallback (floor folded into the draw)"
        for d_ in fb:
            fs_ = g.facts_at(d_)
            okfl = okfl and d_.value.value == 1 and not isinstance(d_.value.value, bool) and (norm.entails(fs_, ("cmp", "<", cnt, "1")) or norm.entails(fs_, ("cmp", "<=", cnt, "0")))
            dfl = f"`{stmt_text(d_)}` under {sorted(norm.show(x) for x in fs_ if cnt in norm.show(x))}"
        ctx.ob(3, "K2", "the operator count is replaced only when the draw is below 1, and then by exactly 1 (the mean stays about num_operators)", okfl, f, fb[0] if fb else o,
               construct="floor of the operator count", detail=dfl)
    # the draw of the count
    if cnt:
        cdefs = [n for n in ast.walk(lp) if isinstance(n, ast.Assign) and norm.is_name(n.targets[0], cnt) and isinstance(n.value, ast.Call)]
        def _draw(v):
            # the floor at 1 may be folded into the draw:  max(1, int(normal(...)))
            while isinstance(v, ast.Call) and norm.call_name(v) == "max" and len(v.args) == 2 and not v.keywords and any(isinstance(a_, ast.Constant) and a_.value == 1 for a_ in v.args):
                v = [a_ for a_ in v.args if not isinstance(a_, ast.Constant)][0] if any(not isinstance(a_, ast.Constant) for a_ in v.args) else v.args[0]
            return norm.U(v).replace(" ", "")
        okd = any(_draw(d.value) == "int(self.rng.normal(self.num_operators,self.num_operators/4))" for d in cdefs)
        ctx.ob(3, "K7", "the operator count is drawn around num_operators (int of a normal draw with mean num_operators)", okd, f, cdefs[0] if cdefs else o, construct="operator-count draw",
               detail=f"{[stmt_text(d) for d in cdefs]}")
    ops = [c for c in ast.walk(o) if isinstance(c, ast.Call) and norm.call_name(c) == "new_operator"]
    okchain = False
    d = f"{len(ops)} new_operator site(s)"
    prevv = None
    if peeled is not None and len(ops) == 1 and norm.U(ops[0].func.value) == pv and norm.U(peeled.func.value) == pv and len(ops[0].args) == 1 and not ops[0].keywords \
            and isinstance(ops[0].args[0], ast.List) and len(ops[0].args[0].elts) == 1 and isinstance(ops[0].args[0].elts[0], ast.Name):
        prevv = ops[0].args[0].elts[0].id
        rootv = parent(peeled).targets[0].id
        opn = parent(ops[0]).targets[0].id if isinstance(parent(ops[0]), ast.Assign) and isinstance(parent(ops[0]).targets[0], ast.Name) else None
        noparent = (not peeled.args or (len(peeled.args) == 1 and isinstance(peeled.args[0], ast.Constant) and peeled.args[0].value is None)) and not peeled.keywords
        # prev starts as the root: it *is* the root's name, or is bound to it once before the loop
        binds = [n for n in ast.walk(lp) if isinstance(n, ast.Assign) and norm.is_name(n.targets[0], prevv) and not any(n is x for x in ast.walk(o))]
        okinit = (rootv == prevv and len(binds) == 1) or (len(binds) == 1 and norm.is_name(binds[0].value, rootv) and g.dominates(parent(peeled), binds[0]) and g.dominates(binds[0], o))
        upd = [n for n in o.body if isinstance(n, ast.Assign) and norm.is_name(n.targets[0], prevv)]
        okupd = len(upd) == 1 and opn and norm.is_name(upd[0].value, opn) and upd[0] is o.body[-1]
        okchain = bool(noparent and okinit and okupd)
        d = f"first link outside the loop: {norm.U(parent(peeled))} (no parent: {noparent}); loop: parents = [{prevv}], {prevv} starts as the root: {okinit}, updated as the last statement of every iteration: {okupd}"
    elif len(ops) == 1 and norm.U(ops[0].func.value) == pv and len(ops[0].args) == 1:
        a = ops[0].args[0]
        # [prev] if prev else None    /   [prev] if prev is not None else None
        if isinstance(a, ast.IfExp) and isinstance(a.body, ast.List) and len(a.body.elts) == 1 and isinstance(a.body.elts[0], ast.Name) and isinstance(a.orelse, ast.Constant) and a.orelse.value is None:
            prevv = a.body.elts[0].id
            t = norm.nnf(a.test)
            okt = t in (("truth", prevv, True), ("cmp", "isnot", prevv, "None"))
            opn = parent(ops[0]).targets[0].id if isinstance(parent(ops[0]), ast.Assign) else None
            upd = [n for n in o.body if isinstance(n, ast.Assign) and norm.is_name(n.targets[0], prevv)]
            okupd = len(upd) == 1 and opn and norm.is_name(upd[0].value, opn) and upd[0] is o.body[-1]
            initp = [n for n in ast.walk(lp) if isinstance(n, ast.Assign) and norm.is_name(n.targets[0], prevv) and isinstance(n.value, ast.Constant) and n.value.value is None
                     and enclosing_for(n, f.node) is lp]
            okinit = len(initp) == 1 and g.dominates(initp[0], o)
            okchain = okt and okupd and okinit
            d = f"parents = {norm.U(a)}; previous operator updated as the last statement of every iteration: {okupd}; reset to None for every pipeline: {okinit}"
    ctx.ob(3, "K6", "operators form a chain: each operator's only parent is the operator created just before it, the first has none", okchain, f, ops[0] if ops else o,
           construct="chain construction", detail=d)
    segs = [c for c in ast.walk(o) if isinstance(c, ast.Call) and norm.call_name(c) == "add_segment"]
    go = cfg_of(f)
    root_segs = []
    if peeled is not None:
        rootv = parent(peeled).targets[0].id
        blk_ = poolstmt_block(o)
        i0 = [k_ for k_, s_ in enumerate(blk_) if s_ is parent(peeled)][0]
        i1 = [k_ for k_, s_ in enumerate(blk_) if s_ is o][0]
        root_segs = [c for s_ in blk_[i0 + 1:i1] for c in ast.walk(s_) if isinstance(c, ast.Call) and norm.call_name(c) == "add_segment"]
        okroot = len(root_segs) == 1 and norm.is_name(root_segs[0].func.value, rootv) and any(poolstmt(root_segs[0]) is s_ for s_ in blk_[i0 + 1:i1]) \
            and not any(isinstance(x, ast.Call) and norm.call_name(x) == "add_segment" for s_ in blk_[i1 + 1:] for x in ast.walk(s_))
        ctx.ob(3, "K3", "the first operator (created before the loop) gets exactly one segment", okroot, f, root_segs[0] if root_segs else parent(peeled), construct="one segment for the root",
               detail=f"add_segment sites between the root's creation and the loop: {len(root_segs)}")
    hid = go.node_of(o).id
    one = go.path_avoiding(hid, {hid, go.exit.id}, {go.node_of(c).id for c in segs}, edge_ok=lambda a, b, lab: not (a == hid and lab == "done")) is None
    two = None
    for c in segs:
        two = two or go.path_avoiding(go.node_of(c).id, {go.node_of(x).id for x in segs}, {hid})
    ctx.ob(3, "K3", "every operator gets exactly one segment", bool(segs) and one and two is None, f, segs[0] if segs else o, construct="one segment per operator",
           detail=f"add_segment sites: {len(segs)}; at least one per operator: {one}; at most one: {two is None}")
    # first operator: the most I/O-heavy prototype; later ones: drawn from cpu_io_ratio
    from . import sched
    producers = []   # (add_segment site, expression producing the segment, program point whose guard decides it)
    for c in segs:
        arg = norm.subst(c.args[0], loop_env(o))
        if isinstance(arg, ast.Name):
            ds = [d_ for d_ in sched.reaching_defs(f, go, c, arg.id) if isinstance(d_, ast.Assign)]
            if ds:
                producers += [(c, d_.value, d_) for d_ in ds]
                continue
        producers.append((c, arg, c))
    if peeled is not None:
        for c in root_segs:
            arg = c.args[0] if c.args else None
            if isinstance(arg, ast.Name):
                ds = [d_ for d_ in sched.reaching_defs(f, go, c, arg.id) if isinstance(d_, ast.Assign)]
                arg = ds[0].value if len(ds) == 1 else arg
            ok = arg is not None and norm.U(arg) == "self.generate_segment_from_val(-2)"
            ctx.ob(4, "K6", "the first operator of a pipeline is the I/O-heavy one (prototype of val < -1)", ok, f, c, detail=f"segment: {norm.U(arg) if arg is not None else None}")
    for c, arg, at in producers:
        fs = go.facts_at(at)
        first = prevv is not None and norm.entails(fs, ("cmp", "is", prevv, "None"))
        later = prevv is not None and (norm.entails(fs, ("cmp", "isnot", prevv, "None")) or norm.entails(fs, ("truth", prevv, True)))
        if peeled is not None:
            first, later = False, True          # every operator made in the loop comes after the root
        if not go.reachable(go.node_of(at).id):
            ctx.ob(4, "K10", "every segment-producing call site in the operator loop is live", False, f, at, construct=f"dead call site: {norm.U(arg)}",
                   detail="this segment-producing call can never execute (its guard contradicts what is known there) — the parameter it depends on has no effect")
            continue
        if first:
            ok = norm.U(arg) == "self.generate_segment_from_val(-2)"
            ctx.ob(4, "K6", "the first operator of a pipeline is the I/O-heavy one (prototype of val < -1)", ok, f, at, detail=f"segment: {norm.U(arg)}")
        elif later:
            ok = norm.U(arg) in ("self.generate_segment_not_heavy_io()", "self.generate_segment()")
            ctx.ob(4, "K6", "later operators draw their prototype from the cpu_io_ratio-centred distribution", ok, f, at, detail=f"segment: {norm.U(arg)}")
        else:
            ctx.ob(4, "K2", "which prototype an operator gets is decided by whether it is the pipeline's first operator", False, f, at, construct="prototype choice guard",
                   detail=f"facts: {sorted(norm.show(x) for x in fs)} (required: a test of `{prevv} is None`)")


def poolstmt_block(st):
    from . import pool as _pool
    return _pool.block_of(st)


def poolstmt(n):
    while not isinstance(n, ast.stmt):
        n = parent(n)
    return n


INF = float("inf")


def _atom_region(a, var: str):
    """Region of the real line (list of (lo, lo_closed, hi, hi_closed)) where the atom over `var` holds; None if not of that form."""
    if a[0] == "or":
        out = []
        for k in a[1]:
            r = _atom_region(k, var)
            if r is None:
                return None
            out += r
        return _norm_region(out)
    if a[0] == "and":
        reg = [(-INF, False, INF, False)]
        for k in a[1]:
            r = _atom_region(k, var)
            if r is None:
                return None
            reg = _intersect(reg, r)
        return reg
    if a[0] != "cmp" or a[1] not in ("<", "<=", "==", "!="):
        return None
    _, op, l, r = a
    try:
        if l == var:
            v = float(r)
            if op in ("<", "<="):
                return [(-INF, False, v, op == "<=")]
        elif r == var:
            v = float(l)
            if op in ("<", "<="):
                return [(v, op == "<=", INF, False)]
        else:
            return None
        if op == "==":
            return [(v, True, v, True)]
        return [(-INF, False, v, False), (v, False, INF, False)]
    except ValueError:
        return None


def _empty(iv) -> bool:
    lo, loc, hi, hic = iv
    return lo > hi or (lo == hi and not (loc and hic))


def _intersect(r1, r2):
    out = []
    for a in r1:
        for b in r2:
            lo, loc = max((a[0], not a[1]), (b[0], not b[1]))
            loc = not loc
            hi, hic = min((a[2], a[3]), (b[2], b[3]))
            iv = (lo, loc, hi, hic)
            if not _empty(iv):
                out.append(iv)
    return _norm_region(out)


def _norm_region(r):
    return sorted((iv for iv in r if not _empty(iv)), key=lambda t: (t[0], not t[1]))


def _interval(conds, var: str):
    """Region where all atoms hold (a list of disjoint intervals), or None if some atom is not a comparison of var with literals."""
    reg = [(-INF, False, INF, False)]
    for a in conds:
        r = _atom_region(a, var)
        if r is None:
            return None
        reg = _intersect(reg, r)
    return reg


def check_prototypes(ctx, num=4):
    P = ctx.P
    cls = _gen_cls(P)
    from ..util import unroll_const_loops, view_funcs
    for m in [v for v in view_funcs(P, P.mod(WL)) if v.cls == "WorkloadGenerator"]:      # the methods as analysed: helpers looked through, not on their own
        m = unroll_const_loops(P, m)      # a prototype table scanned by a loop is the if-chain it abbreviates
        for c in calls_named(m, "Segment"):
            lit = all(isinstance(a, ast.Constant) or (isinstance(a, ast.UnaryOp) and isinstance(a.operand, ast.Constant)) for a in list(c.args) + [k.value for k in c.keywords])
            ctx.ob(num, "K5", "segments are taken from a closed set of prototypes: every Segment(...) in the generator has literal arguments", lit, m, c, detail=norm.U(c))
    f = unroll_const_loops(P, P.fn(WL, "WorkloadGenerator.generate_segment_from_val"))
    ctx.touch(f)
    var = f.params()[1]
    try:
        cs = piecewise.cases(f.node)
    except piecewise.Unsupported as e:
        ctx.ob(num, "K5", "generate_segment_from_val is a case split on val", False, f, f.node, construct="threshold chain", detail=str(e))
        return
    ivs = []
    ok = True
    d = []
    for conds, e in cs:
        reg = _interval(conds, var)
        if reg is None:
            ok = False
            d.append(f"condition not a comparison of {var} with literals: {sorted(norm.show(a) for a in conds)}")
            continue
        if e is None:
            if reg:
                ok = False
                d.append(f"values in {reg} reach the end of the function without a prototype (returns None)")
            continue
        for (lo, loc, hi, hic) in reg:
            ivs.append((lo, loc, hi, hic, norm.U(e)))
    ivs.sort(key=lambda t: (t[0], not t[1]))
    # tiling
    if ivs:
        if ivs[0][0] != float("-inf"):
            ok = False
            d.append("values below the first threshold have no prototype")
        for a, b in zip(ivs, ivs[1:]):
            if a[2] != b[0] or a[3] == b[1]:
                ok = False
                d.append(f"gap or overlap between {a[2]}{']' if a[3] else ')'} and {'[' if b[1] else '('}{b[0]}")
        if ivs[-1][2] != float("inf"):
            ok = False
            d.append("values above the last threshold have no prototype")
    ths = sorted({x for iv in ivs for x in (iv[0], iv[2]) if abs(x) != float("inf")})
    ctx.ob(num, "K5", "the thresholds of generate_segment_from_val tile the real line without gap or overlap: every draw maps to exactly one prototype", ok and len(ivs) >= 2, f, f.node,
           construct="threshold tiling", detail=f"thresholds {ths}; {len(ivs)} prototype intervals" + ("; " + "; ".join(d) if d else ""))
    ctx.ob(num, "K5", "the prototype set has the documented seven prototypes, distinct", len(ivs) == 7 and len({iv[4] for iv in ivs}) == 7, f, f.node, construct="seven prototypes",
           detail=f"{[iv[4] for iv in ivs]}")
    first = [iv for iv in ivs if iv[0] == float("-inf")]
    ctx.ob(num, "K5", "the most I/O-heavy prototype (val < -1) is the one with the largest read and smallest CPU time", bool(first) and first[0][2] == -1 and not first[0][3], f, f.node,
           construct="val < -1 prototype", detail=f"{first[0][4] if first else None}")
    # the draw of val
    for meth, clamp in (("generate_segment_not_heavy_io", True), ("generate_segment", False)):
        if meth not in cls.methods:
            continue
        from ..util import inline_helpers
        m = inline_helpers(P, cls.methods[meth])     # the draw may live in a private helper
        ctx.touch(m)
        draws = [c for c in calls_named(m, "normal") if norm.U(c.func.value) == "self.rng"]
        okd = len(draws) == 1 and len(draws[0].args) >= 1 and norm.U(draws[0].args[0]) == "self.cpu_io_ratio"
        rets = [r for r in own_nodes(m.node) if isinstance(r, ast.Return) and r.value is not None]
        vn = parent(draws[0]).targets[0].id if okd and isinstance(parent(draws[0]), ast.Assign) else None
        if okd and vn is None and isinstance(parent(draws[0]), ast.Call) and norm.call_name(parent(draws[0])) in ("max", "min") and isinstance(parent(parent(draws[0])), ast.Assign) \
                and len(parent(parent(draws[0])).targets) == 1 and isinstance(parent(parent(draws[0])).targets[0], ast.Name):
            vn = parent(parent(draws[0])).targets[0].id      # val = max(<draw>, -1): drawn and clamped in one expression
        okr = len(rets) == 1 and ((vn and norm.U(rets[0].value) == f"self.generate_segment_from_val({vn})")
                                  or (okd and not clamp and norm.U(rets[0].value) == f"self.generate_segment_from_val({norm.U(draws[0])})"))
        ctx.ob(num, "K6", f"{meth}: the prototype is selected from a normal draw centred on cpu_io_ratio (so the parameter reaches the selection)", okd and bool(okr), m,
               draws[0] if draws else m.node, detail=f"draws: {[norm.U(c) for c in draws]}; returns: {[stmt_text(r) for r in rets]}")
        if clamp and okd and vn:
            gm = cfg_of(m, subst_env=False)
            okc = bool(rets) and gm.holds_at(rets[0], ("cmp", "<=", "-1", vn))
            ctx.ob(num, "K2", f"{meth}: the draw is clamped at -1, so the most I/O-heavy prototype (val < -1) is never chosen for a later operator", okc, m, rets[0] if rets else m.node,
                   construct="clamp at -1", detail=f"goal -1 <= {vn} at the return: {okc}")


def check_alignment(ctx, num=5):
    P = ctx.P
    f = P.fn(WL, "WorkloadGenerator.__init__")
    ctx.touch(f)
    env = single_defs(f)
    pv = [n for n in own_nodes(f.node) if isinstance(n, ast.Assign) and any(self_attr(t, "priority_values") for t in n.targets)]
    pp = [n for n in own_nodes(f.node) if isinstance(n, ast.Assign) and any(self_attr(t, "priority_probs") for t in n.targets)]
    ok = len(pv) == 1 and len(pp) == 1 and isinstance(pv[0].value, ast.List)
    d = ""
    if ok:
        vals = [norm.U(e) for e in pv[0].value.elts]
        members = []
        for v in vals:
            parts = v.split(".")
            members.append(parts[1] if len(parts) == 3 and parts[0] == "Priority" and parts[2] == "value" else None)
        pe = norm.subst(pp[0].value, env)
        # arr / np.sum(arr, dtype=float)
        arr = None
        if isinstance(pe, ast.BinOp) and isinstance(pe.op, ast.Div):
            num_, den = pe.left, pe.right
            if isinstance(num_, ast.Call) and norm.call_name(num_) == "array" and isinstance(num_.args[0], ast.List) and isinstance(den, ast.Call) and norm.call_name(den) == "sum" \
                    and norm.U(den.args[0]) == norm.U(num_):
                arr = [norm.U(e) for e in num_.args[0].elts]
        wantp = {"INTERACTIVE": "interactive_prob", "QUERY": "query_prob", "BATCH_PIPELINE": "batch_prob"}
        ok = arr is not None and len(arr) == len(members) == 3 and all(m is not None and wantp.get(m) == a for m, a in zip(members, arr)) and len(set(members)) == 3
        d = f"values: {vals}; probabilities: {arr}"
    ctx.ob(num, "K5", "the i-th priority value is the class whose probability parameter is the i-th entry of the probability vector, which is normalised by its sum", ok, f,
           pv[0] if pv else f.node, construct="priority_values / priority_probs alignment", detail=d)
    for a in ("priority_values", "priority_probs", "rng"):
        ws = [w for w in attr_writes(P, a) if w.fn.cls == "WorkloadGenerator" and w.fn.qual != "WorkloadGenerator.__init__"]
        ctx.ob(num, "K1", f"{a} is fixed at construction", not ws, f, ws[0].node if ws else f.node, construct=f"writers of {a}", detail=f"{[repr(w) for w in ws]}")


def _live_funcs(P, root: Func) -> Dict[int, Func]:
    """Methods reachable from root through call sites that are themselves reachable (dead-branch pruned CFG)."""
    seen: Dict[int, Func] = {}
    work = [root]
    while work:
        f = work.pop()
        if id(f.node) in seen:
            continue
        seen[id(f.node)] = f
        g = cfg_of(f)
        for c in own_nodes(f.node):
            if isinstance(c, ast.Call) and isinstance(c.func, ast.Attribute) and norm.is_name(c.func.value, "self"):
                try:
                    nid = g.node_of(c).id
                except KeyError:
                    continue
                if not g.reachable(nid):
                    continue
                for callee in resolve_callee(P, f, c):
                    if callee.cls == f.cls and id(callee.node) not in seen:
                        work.append(callee)
    return seen


def check_influence(ctx, num=6):
    P = ctx.P
    ini = P.fn(WL, "WorkloadGenerator.__init__")
    ctx.touch(ini)
    params = ini.params()
    for p in PARAMS:
        ctx.ob(num, "K10", f"`{p}` is a named parameter of the generator (not swallowed by **kwargs)", p in params, ini, ini.node, construct=f"parameter {p}", detail=f"signature: {params}")
    # kwargs is never loaded
    kw = ini.node.args.kwarg.arg if ini.node.args.kwarg else None
    loads = [n for n in own_nodes(ini.node) if isinstance(n, ast.Name) and n.id == kw and isinstance(n.ctx, ast.Load)] if kw else []
    ctx.ob(num, "K10", "the generator reads only its named parameters (the **kwargs catch-all is never consulted)", not loads, ini, loads[0] if loads else ini.node, construct="**kwargs never read",
           detail=f"{len(loads)} read(s)")
    # where each parameter is stored
    stores: Dict[str, List[Tuple[str, ast.expr]]] = {}
    for n in own_nodes(ini.node):
        if isinstance(n, ast.Assign) and len(n.targets) == 1 and isinstance(n.targets[0], ast.Attribute) and norm.is_name(n.targets[0].value, "self"):
            stores[n.targets[0].attr] = n
    env = single_defs(ini)
    want = {
        "num_pipelines": ("num_pipelines", "num_pipelines"),
        "num_operators": ("num_operators", "num_operators"),
        "cpu_io_ratio": ("cpu_io_ratio", "cpu_io_ratio"),
        "random_seed": ("rng", "np.random.default_rng(random_seed)"),
        "ticks_per_second": ("waiting_ticks_mean", None),
        "waiting_seconds_mean": ("waiting_ticks_mean", None),
    }
    for p, (attr, expr) in want.items():
        n = stores.get(attr)
        ok = n is not None
        if ok and expr is not None:
            ok = norm.U(n.value) == expr
        if ok and attr == "waiting_ticks_mean":
            ok = ratform.same(n.value, ratform.parse("int(waiting_seconds_mean * ticks_per_second)"))
        ctx.ob(num, "K6", f"`{p}` is stored " + ("unchanged" if expr and expr == p else "by the documented formula") + f" in self.{attr}", ok, ini, n or ini.node,
               construct=f"self.{attr} <- {p}", detail=stmt_text(n) if n is not None else "no store")
    sd = stores.get("waiting_ticks_stdev")
    ctx.ob(num, "K7", "the spread of the gap draw is a quarter of the mean", sd is not None and ratform.same(sd.value, ratform.parse("self.waiting_ticks_mean / 4")), ini, sd or ini.node,
           construct="waiting_ticks_stdev = mean / 4", detail=stmt_text(sd) if sd is not None else "no store")
    # liveness of reads
    root = P.fn(WL, "WorkloadGenerator.run_one_tick")
    live = _live_funcs(P, root)
    for attr, what in (("num_pipelines", "num_pipelines"), ("num_operators", "num_operators"), ("cpu_io_ratio", "cpu_io_ratio"), ("rng", "random_seed"),
                       ("priority_probs", "the three probabilities"), ("waiting_ticks_mean", "waiting_seconds_mean and ticks_per_second")):
        sites = []
        for f in live.values():
            g = cfg_of(f)
            for n in own_nodes(f.node):
                if isinstance(n, ast.Attribute) and n.attr == attr and norm.is_name(n.value, "self") and isinstance(n.ctx, ast.Load):
                    try:
                        if g.reachable(g.node_of(n).id):
                            sites.append((f, n))
                    except KeyError:
                        pass
        allsites = [(f, n) for f in _gen_cls(P).methods.values() for n in own_nodes(f.node)
                    if isinstance(n, ast.Attribute) and n.attr == attr and norm.is_name(n.value, "self") and isinstance(n.ctx, ast.Load) and f.name != "__init__"]
        ctx.ob(num, "K10", f"{what} influences the generated workload: self.{attr} has a live read in code reachable from run_one_tick", bool(sites), root,
               sites[0][1] if sites else root.node, construct=f"live read of self.{attr}",
               detail=f"{len(sites)} live read(s) in {sorted({f.qual for f, _ in sites})}; {len(allsites)} read(s) in all, in {sorted({f.qual for f, _ in allsites})} "
                      f"(methods live from run_one_tick: {sorted(f.name for f in live.values())})")
    # independence: the generator imports nothing from executor / scheduler
    m = P.mod(WL)
    bad = []
    for st in ast.walk(m.tree):
        if isinstance(st, ast.ImportFrom) and st.module and ("executor" in st.module or "scheduler" in st.module):
            bad.append(st.module)
    ctx.ob(num, "K11", "the workload module does not import executor or scheduler code", not bad, file=WL, construct="imports of workload.py", detail=f"{bad}")


def check_clock(ctx, num=7):
    P = ctx.P
    f = P.fn(WL, "WorkloadGenerator.run_one_tick")
    ctx.touch(f)
    g = cfg_of(f, subst_env=False)
    gens = calls_named(f, "generate_pipelines")
    ok = len(gens) == 1
    ctx.ob(num, "K3", "run_one_tick has one generation site", ok, f, gens[0] if gens else f.node, construct="generate_pipelines() site", detail=f"{len(gens)}")
    if not ok:
        return
    c = gens[0]
    fs = g.facts_at(c)
    due = norm.mk_cmp("==", "self.curr_waiting_ticks", "self.ticks_since_last_gen")
    ctx.ob(num, "K2", "pipelines are generated exactly when the ticks since the last event equal the current waiting time", norm.entails(fs, due), f, c,
           detail=f"facts: {sorted(norm.show(x) for x in fs)}")
    # and on every path where due holds (completeness), the rest increments by one
    incs = [n for n in own_nodes(f.node) if isinstance(n, ast.AugAssign) and self_attr(n.target, "ticks_since_last_gen")]
    okinc = len(incs) == 1 and isinstance(incs[0].op, ast.Add) and isinstance(incs[0].value, ast.Constant) and incs[0].value.value == 1 and norm.entails(g.facts_at(incs[0]), norm.neg(due))
    ctx.ob(num, "K2", "in every other tick the counter of ticks since the last event grows by exactly one", okinc, f, incs[0] if incs else f.node, construct="ticks_since_last_gen += 1",
           detail=f"{[stmt_text(n) for n in incs]}")
    part = g.path_avoiding(g.entry.id, {g.exit.id}, {g.node_of(c).id} | {g.node_of(n).id for n in incs})
    ctx.ob(num, "K3", "every tick either generates or counts (no third way through run_one_tick)", part is None, f, f.node, construct="generate-or-count partition",
           detail="ok" if part is None else g.describe_path(part))
    resets = [n for n in own_nodes(f.node) if isinstance(n, ast.Assign) and any(self_attr(t, "ticks_since_last_gen") for t in n.targets)]
    okreset = len(resets) == 1 and isinstance(resets[0].value, ast.Constant) and resets[0].value.value == 0 and g.control_equivalent(poolstmt(c), resets[0])
    ctx.ob(num, "K3", "generating resets the counter to 0", okreset, f, resets[0] if resets else f.node, construct="ticks_since_last_gen = 0", detail=f"{[stmt_text(n) for n in resets]}")
    waits = [n for n in own_nodes(f.node) if isinstance(n, ast.Assign) and any(self_attr(t, "curr_waiting_ticks") for t in n.targets)]
    okw = False
    d = f"{[stmt_text(n) for n in waits]}"
    if len(waits) == 1 and isinstance(waits[0].value, ast.Name) and g.control_equivalent(poolstmt(c), waits[0]):
        wv = waits[0].value.id
        defs = [n for n in own_nodes(f.node) if isinstance(n, ast.Assign) and norm.is_name(n.targets[0], wv)]
        draw = [n for n in defs if norm.U(n.value).replace(" ", "") == "int(self.rng.normal(self.waiting_ticks_mean,self.waiting_ticks_stdev))"]
        fb = [n for n in defs if norm.U(n.value) == "self.waiting_ticks_mean"]
        okfb = len(fb) == 1 and norm.entails(g.facts_at(fb[0]), ("cmp", "<=", wv, "0"))
        # after the fallback the value is positive unless the mean itself is 0
        from . import sched as _sched
        reach = _sched.reaching_defs(f, g, waits[0], wv)
        guarded_store = len(fb) == 1 and any(r is fb[0] for r in reach) and all(r in draw + fb for r in reach) and \
            not norm.entails(g.facts_at(waits[0]), ("cmp", "<=", wv, "0")) and g.holds_at(waits[0], norm._mk("or", [("cmp", "<", "0", wv), norm.mk_cmp("==", wv, "self.waiting_ticks_mean")]))
        okw = len(draw) == 1 and okfb and len(defs) == 2 and g.dominates(c, draw[0]) and guarded_store
        d = (f"draw: {[stmt_text(n) for n in draw]}; fallback under `{wv} <= 0`: {okfb}; the value stored has passed the fallback (positive, or the mean): {guarded_store}; "
             f"pipelines generated before the gap draw (fixed draw order): {g.dominates(c, draw[0]) if draw else None}")
    ctx.ob(num, "K7", "the next gap is int(normal(mean, mean/4)) ticks, replaced by the mean when the sample is not positive", okw, f, waits[0] if waits else f.node,
           construct="next waiting time", detail=d)
    rets = [r for r in own_nodes(f.node) if isinstance(r, ast.Return)]
    gn = parent(c).targets[0].id if isinstance(parent(c), ast.Assign) else None
    okr = all((norm.is_name(r.value, gn) and g.dominates(c, r)) or (isinstance(r.value, ast.List) and not r.value.elts) for r in rets) and any(norm.is_name(r.value, gn) for r in rets)
    ctx.ob(num, "K6", "run_one_tick hands out exactly the pipelines generated in that tick (or none)", okr, f, rets[0] if rets else f.node, construct="returned pipelines", detail=f"{[stmt_text(r) for r in rets]}")


def check_ratio_domain(ctx, num=6):
    """The property ranges over cpu_io_ratio in the closed interval [0, 1]: the generator's own validation accepts both ends (a validation that
    is stricter than `0 <= r <= 1` refuses a legal configuration)."""
    P = ctx.P
    ini = P.fn(WL, "WorkloadGenerator.__init__")
    asserts = [n for n in own_nodes(ini.node) if isinstance(n, ast.Assert) and "cpu_io_ratio" in norm.names_in(n.test)]
    allowed = {("cmp", "<=", "0", "cpu_io_ratio"), ("cmp", "<=", "0.0", "cpu_io_ratio"), ("cmp", "<=", "cpu_io_ratio", "1"), ("cmp", "<=", "cpu_io_ratio", "1.0")}
    for a in asserts:
        atoms = norm.atoms_true(norm.nnf(a.test))
        bad = [x for x in atoms if x not in allowed]
        ctx.ob(num, "K2", "the generator accepts every cpu_io_ratio of the closed interval [0, 1] (its validation is not stricter than 0 <= r <= 1)", not bad, ini, a,
               construct="assert 0 <= cpu_io_ratio <= 1", detail=f"conditions required: {sorted(norm.show(x) for x in atoms)}" + (f"; stricter than the documented range: {sorted(norm.show(x) for x in bad)}" if bad else ""))
    raises = [n for n in own_nodes(ini.node) if isinstance(n, ast.Raise)]
    g = cfg_of(ini, subst_env=False)
    for r in raises:
        fs = g.facts_at(r)
        about = [x for x in fs if "cpu_io_ratio" in norm.show(x)]
        if about:
            okr = any(norm.entails(fs, t) for t in (("cmp", "<", "cpu_io_ratio", "0"), ("cmp", "<", "1", "cpu_io_ratio"), ("cmp", "<", "1.0", "cpu_io_ratio"), ("cmp", "<", "cpu_io_ratio", "0.0")))
            ctx.ob(num, "K2", "the generator accepts every cpu_io_ratio of the closed interval [0, 1] (its validation is not stricter than 0 <= r <= 1)", okr, ini, r,
                   construct="refusal on cpu_io_ratio", detail=f"facts at the raise: {sorted(norm.show(x) for x in about)}")


def run(ctx):
    check_ratio_domain(ctx, 6)
    r = check_batch(ctx, 1)
    if r:
        check_shapes(ctx, *r)
    check_prototypes(ctx, 4)
    check_alignment(ctx, 5)
    check_influence(ctx, 6)
    check_clock(ctx, 7)
