"""C18 — overbook: one operator and one CPU per container, full-pool RAM, CPU-bound."""
from __future__ import annotations

import ast
from typing import List, Optional

from .. import norm
from ..model import own_nodes, stmt_text, parent, AnalysisError
from ..util import attr_writes, cfg_of, calls_named, single_defs
from .common import *
from . import sched

EXPLANATION = (
    "Static decision of the structural clauses of C18 in scheduler/overbook.py.  (1) shape of every Assignment: ops is a "
    "one-element list holding the operator taken from the queue, cpu is the literal 1, ram is max_ram_pool of "
    "s.executor.pools[pool_id] for the very pool_id that is passed on.  (2) CPU bound (relational facts): the Assignment is "
    "returned only under `avail >= 1` for that pool's entry of the per-round CPU snapshot, the entry is decremented by 1 on that "
    "path, and the snapshot is rebuilt every round as {pool.pool_id: pool.avail_cpu_pool for every pool}.  (3) abandonment: an "
    "operator is offered to try_make_assignment only if its pipeline's failure count < MAX_FAILURES, MAX_FAILURES is the literal "
    "3, the count is incremented exactly once per failed result and has no other writer in the package (a running total: never reset, "
    "popped, cleared or decremented).  (4) queueing: the operators queued are "
    "get_ops(ASSIGNABLE_STATES, require_parents_complete=True) of every arrived pipeline and every pipeline with a result, minus "
    "the ids currently in the queue (recomputed from the queue each round); when capacity runs out the queue keeps exactly the "
    "unplaced suffix (index taken from enumerating the queue itself), otherwise it is emptied.  (5) no Suspend is constructed.")
UNDECIDED = "work conservation over whole runs (which rounds are triggered when) is not executed; the per-round structure is decided"
ASSUMPTIONS = COMMON_ASSUMPTIONS


def run(ctx):
    P = ctx.P
    f = sched.scheduler(P, "overbook")
    ctx.touch(f)
    helpers = {h.name: h for h in sched.module_helpers(P, f)}
    sites = sched.assignment_sites(P, f)
    ctx.count_min("Assignment( sites in overbook", len(sites), 1)
    params = f.params()
    s_p = params[0]
    for fn_, c in sites:
        ctx.touch(fn_)
        g = cfg_of(fn_)
        env = single_defs(fn_)
        ops = sched.asg_arg(c, "ops")
        fparams = fn_.params()
        one = isinstance(ops, ast.List) and len(ops.elts) == 1 and isinstance(ops.elts[0], ast.Name)
        ctx.ob(1, "K6", "every container holds exactly one operator (ops is a one-element list)", one, fn_, c, construct="ops=[op]", detail=f"ops={norm.U(ops) if ops is not None else None}")
        cpu = sched.asg_arg(c, "cpu")
        ctx.ob(1, "K5", "every container gets exactly one CPU (literal 1)", isinstance(cpu, ast.Constant) and cpu.value == 1 and not isinstance(cpu.value, bool), fn_, c,
               construct="cpu=1", detail=f"cpu={norm.U(cpu) if cpu is not None else None}")
        pid = sched.asg_arg(c, "pool_id")
        ram = sched.asg_arg(c, "ram")
        ramr = norm.U(norm.subst(ram, env)) if ram is not None else None
        okram = pid is not None and ramr == f"{s_p}.executor.pools[{norm.U(pid)}].max_ram_pool"
        ctx.ob(1, "K6", "the memory limit is the whole RAM capacity of the pool the container is placed on", okram, fn_, c, construct="ram=pool.max_ram_pool",
               detail=f"ram resolves to {ramr}; pool_id={norm.U(pid) if pid is not None else None}")
        if one:
            opn = ops.elts[0].id
            pr = sched.asg_arg(c, "priority")
            pl = sched.asg_arg(c, "pipeline_id")
            okp = pr is not None and pl is not None and norm.U(norm.subst(pr, env)) == f"{opn}.pipeline.priority" and norm.U(norm.subst(pl, env)) == f"{opn}.pipeline.pipeline_id"
            ctx.ob(1, "K6", "priority and pipeline id are those of the operator's own pipeline", okp, fn_, c, construct="priority/pipeline_id flow",
                   detail=f"priority={norm.U(pr) if pr is not None else None}, pipeline_id={norm.U(pl) if pl is not None else None}")
        # (2) CPU snapshot: the entry of the chosen pool is decremented by one on the way to the construction, and that happens
        #     only where the entry is known to be >= 1
        stc = c
        while not isinstance(stc, ast.stmt):
            stc = parent(stc)
        snap_term = None
        decs = []
        if pid is not None:
            for n in own_nodes(fn_.node):
                if isinstance(n, ast.AugAssign) and isinstance(n.op, ast.Sub) and isinstance(n.target, ast.Subscript) and norm.U(n.target.slice) == norm.U(pid) \
                        and isinstance(n.value, ast.Constant) and n.value.value == 1 and not isinstance(n.value.value, bool):
                    decs.append(n)
        guarded = False
        d = "no decrement by one of a per-pool entry indexed by the assignment's pool"
        gd = [n for n in decs if g.dominates(n, stc) and any(n is x for x in _blk(stc))]
        if len(gd) == 1:
            T = norm.U(gd[0].target)
            fs = g.facts_at(gd[0])
            guarded = norm.entails(fs, ("cmp", "<=", "1", T)) or norm.entails(fs, ("cmp", "<", "0", T))
            lp = enclosing_for(c, fn_.node)
            if not guarded and lp is not None and isinstance(lp.iter, ast.Call) and norm.call_name(lp.iter) == "items" and isinstance(lp.target, ast.Tuple) and len(lp.target.elts) == 2:
                D = norm.U(lp.iter.func.value)
                k, v = (norm.U(x) for x in lp.target.elts)
                # `for k, v in D.items()`: v is D[k] as long as D[k] has not been stored to in this iteration
                guarded = T == f"{D}[{k}]" and norm.U(pid) == k and (norm.entails(fs, ("cmp", "<=", "1", v)) or norm.entails(fs, ("cmp", "<", "0", v)))
            d = f"decrement `{stmt_text(gd[0])}`; facts there: {sorted(norm.show(x) for x in fs)}"
            if guarded:
                snap_term = T
        ctx.ob(2, "K8", "a container is started on a pool only while that pool's entry of the CPU snapshot is >= 1", snap_term is not None, fn_, c,
               construct="guard: avail >= 1", detail=d + f"; snapshot entry: {snap_term}")
        plp = enclosing_for(c, fn_.node)
        if snap_term is not None and plp is not None:
            # work conservation: a pool is passed over only for lack of a free CPU — an iteration of the pool scan that does not reach the
            # construction must have seen `entry < 1` (any other reason to skip a pool can leave a ready operator waiting beside a free CPU)
            hid_ = g.node_of(plp).id
            terms = {snap_term}
            if isinstance(plp.target, ast.Tuple) and len(plp.target.elts) == 2 and isinstance(plp.target.elts[1], ast.Name):
                terms.add(plp.target.elts[1].id)

            def no_cpu(lab):
                if not (isinstance(lab, tuple) and lab[0] == "cond"):
                    return False
                for a in norm.atoms_true(lab[1]):
                    if a[0] == "cmp" and ((a[1] == "<" and a[2] in terms and a[3] in ("1", "1.0")) or (a[1] == "<=" and a[2] in terms and a[3] in ("0", "0.0"))):
                        return True
                return False
            skipp = g.path_avoiding(hid_, {hid_}, {g.node_of(stc).id, g.exit.id}, edge_ok=lambda a, b, lab, hid_=hid_: not (a == hid_ and lab == "done") and not no_cpu(lab))
            ctx.ob(2, "K2", "a pool is passed over only when its entry of the CPU snapshot is below 1 (every pool with a free CPU is eligible for every operator)", skipp is None, fn_, plp,
                   construct="pool scan: only skip is `avail < 1`", detail="no iteration skips a pool for another reason" if skipp is None else f"a pool can be skipped although it has a free CPU: {g.describe_path(skipp)}")
        if snap_term is not None:
            alld = [n for n in own_nodes(fn_.node) if isinstance(n, ast.AugAssign) and norm.U(n.target) == snap_term]
            okd = len(alld) == 1
            ctx.ob(2, "K8", "the snapshot entry of that pool is decremented by exactly one for the CPU just handed out, on the same path", okd, fn_,
                   gd[0], detail=f"updates of {snap_term}: {[stmt_text(x) for x in alld]}")
            # snapshot definition
            D0 = snap_term.split("[")[0]
            attr = D0.split(".", 1)[1] if "." in D0 else D0
            sdefs = []
            for h in helpers.values():
                for n in own_nodes(h.node):
                    if isinstance(n, ast.Assign) and any(norm.U(t) == D0 for t in n.targets):
                        sdefs.append((h, n))
            oks = False
            dd = f"definitions of {D0} in the round: {[stmt_text(n) for _, n in sdefs]}"
            for h, n in sdefs:
                v_ = n.value
                if isinstance(v_, ast.DictComp) and len(v_.generators) == 1 and not v_.generators[0].ifs and isinstance(v_.generators[0].target, ast.Name):
                    pv = v_.generators[0].target.id
                    if norm.U(v_.generators[0].iter) == f"{s_p}.executor.pools" and norm.U(v_.key) == f"{pv}.pool_id" and norm.U(v_.value) == f"{pv}.avail_cpu_pool":
                        hg = cfg_of(h)
                        on_all = hg.path_avoiding(hg.entry.id, {hg.exit.id}, {hg.node_of(n).id}) is None
                        oks = on_all
                        dd += f"; rebuilt on every path of {h.qual}: {on_all}"
            ctx.ob(2, "K8", "each round the CPU snapshot is rebuilt as {pool id: the pool's free CPUs} over all pools", oks, sdefs[0][0] if sdefs else fn_,
                   sdefs[0][1] if sdefs else fn_.node, construct="avail_cpus snapshot", detail=dd)
            # the snapshot is refreshed before assignments are made in the round
            us = helpers.get("update_state")
            ma = helpers.get("make_assignments")
            if us is not None and ma is not None:
                gf = cfg_of(f)
                cu = [x for x in calls_named(f, "update_state")]
                cm = [x for x in calls_named(f, "make_assignments")]
                okord = len(cu) == 1 and len(cm) == 1 and gf.dominates(cu[0], cm[0])
                ctx.ob(2, "K3", "the state update (queueing + snapshot) precedes the assignment pass in every round that makes assignments", okord, f,
                       cm[0] if cm else f.node, construct="update_state before make_assignments", detail=f"update_state calls: {len(cu)}, make_assignments calls: {len(cm)}")
    # (3) abandonment
    consts = P.mod(OVER).module_assigns()
    mf = consts.get("MAX_FAILURES")
    ctx.ob(3, "K5", "a pipeline is abandoned after three failed containers (MAX_FAILURES is the literal 3)", isinstance(mf, ast.Constant) and mf.value == 3, file=OVER,
           construct="MAX_FAILURES = 3", detail=f"{norm.U(mf) if mf is not None else None}")
    ma = helpers.get("make_assignments")
    ctx.need(ma is not None, "overbook.make_assignments not found")
    ma = _deferred_queue_store(ma, f"{s_p}.op_queue")
    ctx.touch(ma)
    gm = cfg_of(ma)
    tcs = calls_named(ma, "try_make_assignment")
    ctx.count_min("try_make_assignment call sites", len(tcs), 1)
    for c in tcs:
        opa = c.args[1] if len(c.args) >= 2 else None
        fs = gm.facts_at(c)
        ok = opa is not None and norm.entails(fs, ("cmp", "<", f"{s_p}.pipeline_failures[{norm.U(opa)}.pipeline.pipeline_id]", "MAX_FAILURES"))
        ctx.ob(3, "K2", "an operator of a pipeline that already has MAX_FAILURES failed containers is never assigned again", ok, ma, c,
               detail=f"facts at the call: {sorted(norm.show(x) for x in fs)}")
    us = helpers.get("update_state")
    if us is None and "update_state" in f.mod.funcs:
        # the function exists but the scheduler no longer calls it: failures are not counted, new work is not queued
        ctx.count_min("calls of update_state in the overbook scheduler", 0, 1)
    ctx.need(us is not None, "overbook.update_state not found")
    ctx.touch(us)
    gu = cfg_of(us, subst_env=False)
    envu = single_defs(us)
    uparams = us.params()
    res_p, pip_p = uparams[1], uparams[2]
    incs = [n for n in own_nodes(us.node) if isinstance(n, ast.AugAssign) and isinstance(n.target, ast.Subscript) and norm.U(n.target.value) == f"{s_p}.pipeline_failures"]
    writes_elsewhere = []
    for h in helpers.values():
        if h is us:
            continue
        for n in own_nodes(h.node):
            if isinstance(n, (ast.Assign, ast.AugAssign, ast.Delete)):
                for t in (n.targets if isinstance(n, (ast.Assign, ast.Delete)) else [n.target]):
                    if "pipeline_failures" in norm.U(t) and h.name != "overbook_init":
                        writes_elsewhere.append((h, n))
    okinc = len(incs) == 1 and isinstance(incs[0].op, ast.Add) and isinstance(incs[0].value, ast.Constant) and incs[0].value.value == 1
    d = f"increments: {[stmt_text(n) for n in incs]}"
    if okinc:
        n = incs[0]
        lp = enclosing_for(n, us.node)
        okinc = lp is not None and norm.is_name(lp.iter, res_p) and isinstance(lp.target, ast.Name) and enclosing_for(lp, us.node) is None
        if okinc:
            rv = lp.target.id
            fs = gu.facts_at(n)
            failed = norm.entails(fs, ("truth", f"{rv}.failed()", True))
            key = norm.U(norm.subst(n.target.slice, _loopenv(lp)))
            keyok = key in (f"only({rv}.ops).pipeline.pipeline_id", f"{rv}.ops[0].pipeline.pipeline_id")
            hid = gu.node_of(lp).id
            nf = ("truth", f"{rv}.failed()", False)

            def edge_ok(a, b, lab, hid=hid, nf=nf):
                if a == hid and lab == "done":
                    return False
                return not (isinstance(lab, tuple) and lab[0] == "cond" and nf in norm.atoms_true(lab[1]))
            skip = gu.path_avoiding(hid, {hid, gu.exit.id}, {gu.node_of(n).id}, edge_ok=edge_ok)
            byp = gu.path_avoiding(gu.entry.id, {gu.exit.id}, {hid})
            okinc = failed and keyok and skip is None and byp is None
            d += f"; in `{stmt_text(lp)}` under {rv}.failed(): {failed}; key is the result's pipeline id: {keyok} ({key}); every failed result counted: {skip is None}"
    ctx.ob(3, "K3", "the failure count of a pipeline is incremented exactly once per failed container result", okinc and not writes_elsewhere, us,
           incs[0] if incs else us.node, construct="pipeline_failures[...] += 1 per failed result", detail=d + (f"; other writers: {[h.qual for h, _ in writes_elsewhere]}" if writes_elsewhere else ""))
    # the count is a running total over the whole run: in the whole package the field is written only where it is created
    # (scheduler init) and by the counted `+= 1`; no reset, pop, clear, decrement or overwrite anywhere (also through a local alias)
    other = []
    for w in attr_writes(P, "pipeline_failures"):
        if incs and (w.node is incs[0] or getattr(w.node, "_orig", None) is incs[0] or getattr(incs[0], "_orig", None) is w.node
                     or (w.fn.name == us.name and w.how == "item-augassign" and stmt_text(w.node) == stmt_text(incs[0]))):
            continue
        if w.how == "assign" and w.fn.name.endswith("_init"):
            continue
        other.append(w)
    ctx.ob(3, "K1", "the failure count of a pipeline is a total over the whole run: the field is written only where the scheduler is initialised and by "
           "the one counted increment (never reset, popped, cleared, decremented or overwritten)", not other, other[0].fn if other else us,
           other[0].node if other else (incs[0] if incs else us.node), construct="writers of pipeline_failures",
           detail="other writers: " + (", ".join(repr(w) for w in other) if other else "none"))
    # (4) queueing
    q = f"{s_p}.op_queue"
    apps = [c for c in calls_named(us, "append") if isinstance(c.func, ast.Attribute) and norm.U(c.func.value) == q]
    ctx.count_min("op_queue.append sites in update_state", len(apps), 1)
    for a in apps:
        lp = enclosing_for(a, us.node)
        okq = False
        d = "append is not in a loop over ready operators"
        if lp is not None and isinstance(lp.target, ast.Name) and a.args and norm.is_name(a.args[0], lp.target.id):
            src = norm.subst(lp.iter, _loopenv(enclosing_for(lp, us.node)) if enclosing_for(lp, us.node) is not None else {})
            olp = enclosing_for(lp, us.node)
            pv = olp.target.id if olp is not None and isinstance(olp.target, ast.Name) else None
            form, how = _ready_form(src, pv)
            fs = gu.facts_at(a)
            opn = lp.target.id
            # not already queued
            dedup = None
            for x in fs:
                if x[0] == "cmp" and x[1] == "notin" and x[2] == f"{opn}.id":
                    dedup = x[3]
            okset = False
            if dedup:
                sd = [n for n in own_nodes(us.node) if isinstance(n, ast.Assign) and any(norm.is_name(t, dedup) for t in n.targets)]
                okset = len(sd) == 1 and isinstance(sd[0].value, ast.SetComp) and len(sd[0].value.generators) == 1 \
                    and norm.U(sd[0].value.generators[0].iter) == q and norm.U(sd[0].value.elt) == f"{sd[0].value.generators[0].target.id}.id" \
                    and gu.dominates(sd[0], a)
                adds = [c for c in calls_named(us, "add") if isinstance(c.func, ast.Attribute) and norm.is_name(c.func.value, dedup)]
                okset = okset and any(any(pool_stmt(c) is s for s in _blk(pool_stmt(a))) and norm.U(c.args[0]) == f"{opn}.id" for c in adds)
            # touched pipelines = arrivals + pipelines of results
            cover = _covers_touched(us, gu, olp, pip_p, res_p) if olp is not None else (False, "no loop over touched pipelines")
            okq = form == "ready" and okset and cover[0]
            d = f"operators from {how}; duplicate suppression against ids recomputed from the queue this round: {okset}; pipelines scanned: {cover[1]}"
        ctx.ob(4, "K6", "the operators queued in a round are the ready ones (get_ops(ASSIGNABLE_STATES, require_parents_complete=True)) of every arrived "
               "pipeline and every pipeline with a result, without duplicates", okq, us, a, detail=d)
    # exhaustion / truncation
    qsets = [n for n in own_nodes(ma.node) if isinstance(n, ast.Assign) and any(norm.U(t) == q for t in n.targets)]
    loop = None
    for lp in (n for n in own_nodes(ma.node) if isinstance(n, ast.For)):
        if isinstance(lp.iter, ast.Call) and norm.is_name(lp.iter.func, "enumerate") and lp.iter.args and norm.U(lp.iter.args[0]) == q and len(lp.iter.args) == 1 \
                and isinstance(lp.target, ast.Tuple) and len(lp.target.elts) == 2:
            loop = lp
    ctx.ob(4, "K6", "the assignment pass walks the queue itself, front to back, with its index", loop is not None, ma, loop or ma.node,
           construct="for idx, op in enumerate(s.op_queue)", detail=stmt_text(loop) if loop else "not found")
    if loop is not None:
        idx, opn = (x.id for x in loop.target.elts)
        for c in tcs:
            ok = len(c.args) >= 2 and norm.is_name(c.args[1], opn)
            ctx.ob(4, "K6", "the operator offered for placement is the queue element being visited", ok, ma, c, detail=norm.U(c))
        def _in_body(n):
            return any(any(x is n for x in ast.walk(b)) for b in loop.body)
        trunc = [n for n in qsets if _in_body(n)]
        full = [n for n in qsets if n not in trunc]      # after the loop, or in its else clause (both run exactly when the loop is exhausted)
        hid = gm.node_of(loop).id
        okt = len(trunc) == 1 and norm.U(trunc[0].value) == f"{q}[{idx}:]"
        dt = f"{[stmt_text(n) for n in trunc]}"
        if okt:
            # reached exactly when placement failed for the visited operator; the pass ends there (no further iteration, no emptying)
            fs = gm.facts_at(trunc[0])
            res_names = [pool_parent_assign_name(c) for c in tcs]
            failed = any(rn and norm.entails(fs, ("truth", rn, False)) for rn in res_names)
            failed = failed or any(norm.entails(fs, ("truth", norm.U(c), False)) for c in tcs)     # the name may have been replaced by its one definition
            tid = gm.node_of(trunc[0]).id
            again = gm.path_avoiding(tid, {hid} | {gm.node_of(n).id for n in full}, set())
            okt = failed and again is None
            dt += f"; taken when placement failed: {failed}; the pass ends there (no further iteration, queue not emptied afterwards): {again is None}"
        ctx.ob(4, "K4", "when capacity runs out the queue keeps exactly the unplaced suffix (from the operator that could not be placed)", okt, ma,
               trunc[0] if trunc else loop, construct="s.op_queue = s.op_queue[idx:]", detail=dt)
        okf = len(full) == 1 and isinstance(full[0].value, ast.List) and not full[0].value.elts
        if okf:
            fid = gm.node_of(full[0]).id
            # every exhaustion of the loop (the `done` edge of its header) leads to the emptying
            miss = gm.path_avoiding(hid, {gm.exit.id}, {fid}, edge_ok=lambda a, b, lab: not (a == hid and lab != "done"))
            okf = miss is None
        ctx.ob(4, "K4", "when every queued operator was handled the queue is emptied", okf, ma, full[0] if full else ma.node, construct="s.op_queue = []",
               detail=f"{[stmt_text(n) for n in full]}")
        # skipped (abandoned) operators are the only ones not offered
        for c in tcs:
            hid = gm.node_of(loop).id
            lim = ("cmp", "<=", "MAX_FAILURES", f"{s_p}.pipeline_failures[{opn}.pipeline.pipeline_id]")

            def edge_ok(a, b, lab, hid=hid, lim=lim):
                if a == hid and lab == "done":
                    return False
                return not (isinstance(lab, tuple) and lab[0] == "cond" and lim in norm.atoms_true(lab[1]))
            skip = gm.path_avoiding(hid, {hid, gm.exit.id}, {gm.node_of(c).id}, edge_ok=edge_ok)
            ctx.ob(4, "K2", "every queued operator of a live pipeline is offered for placement in queue order", skip is None, ma, c, construct="no operator skipped",
                   detail="only abandoned pipelines' operators are skipped" if skip is None else f"skip path: {gm.describe_path(skip)}")
        # every Assignment obtained is returned
        rets = [r for r in own_nodes(ma.node) if isinstance(r, ast.Return) and r.value is not None]
        outn = {norm.U(r.value) for r in rets}
        for c in tcs:
            rn = pool_parent_assign_name(c)
            apps2 = [a for a in calls_named(ma, "append") if isinstance(a.func, ast.Attribute) and norm.U(a.func.value) in outn and a.args and norm.is_name(a.args[0], rn)]
            ok = len(outn) == 1 and len(apps2) == 1
            ctx.ob(4, "K6", "every Assignment produced is returned to the executor", ok, ma, c, construct="assignments.append(assignment)", detail=f"returned: {sorted(outn)}; appends: {len(apps2)}")
    # "ready" is what get_ops(require_parents_complete=True) says it is (C01#7/#8): sound (only ready ones) and complete (all of them)
    from . import c01
    c01.check_get_ops(Renumber(ctx, {7: 4, 8: 4}))
    sched.ob_never_suspends(ctx, 5, "overbook", "overbook")
    sched.ob_no_mutation_while_iterating(ctx, 4, "overbook", "overbook")      # the queue is walked front to back: taking an element out during the walk skips the next one
    sched.fixture_suspend_present(ctx, 5)
    # the scheduler returns exactly what make_assignments produced
    rets = sched.suspension_returns(P, f)
    cm = calls_named(f, "make_assignments")
    for r, first in rets:
        if isinstance(r.value, ast.Tuple) and len(r.value.elts) == 2 and not (isinstance(r.value.elts[1], ast.List) and not r.value.elts[1].elts):
            rn = pool_parent_assign_name(cm[0]) if cm else None
            ctx.ob(4, "K6", "the round returns the assignments made by make_assignments", rn is not None and norm.is_name(r.value.elts[1], rn), f, r, detail=stmt_text(r))
    # early exit only when nothing happened
    gf = cfg_of(f)
    for r, first in rets:
        if isinstance(r.value, ast.Tuple) and isinstance(r.value.elts[1], ast.List) and not r.value.elts[1].elts:
            fs = gf.facts_at(r)
            ok = norm.entails(fs, ("truth", params[2], False)) and norm.entails(fs, ("truth", params[1], False))
            ctx.ob(4, "K2", "a round is skipped only when nothing arrived and nothing finished", ok, f, r, detail=f"facts: {sorted(norm.show(x) for x in fs)}")


def pool_stmt(n):
    while not isinstance(n, ast.stmt):
        n = parent(n)
    return n


def pool_parent_assign_name(c: ast.Call) -> Optional[str]:
    p_ = parent(c)
    if isinstance(p_, ast.Assign) and len(p_.targets) == 1 and isinstance(p_.targets[0], ast.Name):
        return p_.targets[0].id
    return None


def _blk(s):
    from .pool import block_of
    return block_of(s)


def _anc(n):
    from ..model import ancestors
    return list(ancestors(n))


def _loopenv(lp) -> dict:
    from ..util import loop_env
    return loop_env(lp)


def _ready_form(e: ast.expr, pv: Optional[str]):
    if isinstance(e, ast.Call) and norm.call_name(e) == "get_ops" and isinstance(e.func, ast.Attribute) and pv and norm.U(e.func.value) == f"{pv}.runtime_status()":
        st = norm.kwarg(e, "state", 0)
        rp = norm.kwarg(e, "require_parents_complete", 1)
        if st is not None and norm.U(st) == "ASSIGNABLE_STATES" and isinstance(rp, ast.Constant) and rp.value is True:
            return "ready", norm.U(e)
        return "other", norm.U(e) + " (not ASSIGNABLE_STATES with require_parents_complete=True)"
    return None, norm.U(e) + " (not a get_ops call on the scanned pipeline)"


def _covers_touched(us, gu, olp: ast.For, pip_p: str, res_p: str):
    """The outer loop iterates D.values() where D = {p.pipeline_id: p for p in pipelines} plus D[..] = pipeline of every result."""
    it = olp.iter
    if not (isinstance(it, ast.Call) and norm.call_name(it) == "values" and isinstance(it.func.value, ast.Name)):
        return False, f"iterates {norm.U(it)}"
    D = it.func.value.id
    init = [n for n in own_nodes(us.node) if isinstance(n, ast.Assign) and any(norm.is_name(t, D) for t in n.targets)]
    ok_init = len(init) == 1 and isinstance(init[0].value, ast.DictComp) and len(init[0].value.generators) == 1 and not init[0].value.generators[0].ifs \
        and norm.is_name(init[0].value.generators[0].iter, pip_p) and norm.U(init[0].value.value) == init[0].value.generators[0].target.id
    stores = [n for n in own_nodes(us.node) if isinstance(n, ast.Assign) and any(isinstance(t, ast.Subscript) and norm.is_name(t.value, D) for t in n.targets)]
    ok_res = False
    for n in stores:
        lp = enclosing_for(n, us.node)
        if lp is not None and norm.is_name(lp.iter, res_p) and isinstance(lp.target, ast.Name):
            val = norm.U(norm.subst(n.value, _loopenv(lp)))
            hid = gu.node_of(lp).id
            skip = gu.path_avoiding(hid, {hid, gu.exit.id}, {gu.node_of(n).id}, edge_ok=lambda a, b, lab, hid=hid: not (a == hid and lab == "done"))
            if val in (f"only({lp.target.id}.ops).pipeline", f"{lp.target.id}.ops[0].pipeline") and skip is None and gu.dominates(lp, olp):
                ok_res = True
    dels = [n for n in own_nodes(us.node) if isinstance(n, ast.Delete) and any(isinstance(t, ast.Subscript) and norm.is_name(t.value, D) for t in n.targets)]
    pops = [c for c in own_nodes(us.node) if isinstance(c, ast.Call) and isinstance(c.func, ast.Attribute) and norm.is_name(c.func.value, D) and c.func.attr in ("pop", "clear", "popitem")]
    ok = ok_init and ok_res and not dels and not pops
    return ok, f"{D} = all arrivals: {ok_init}; plus the pipeline of every result: {ok_res}; nothing removed: {not dels and not pops}"


def _deferred_queue_store(ma, q: str):
    """Normal form of the assignment pass for C18#4.  The pass may keep what is left of the queue in a local and store it once after the loop:

        [A = s.op_queue]; W = []; for idx, op in enumerate(A | s.op_queue): ... W = (A | s.op_queue)[idx:]; break ...; s.op_queue = W; return R

    which is  `... s.op_queue = s.op_queue[idx:]; return R ...; s.op_queue = []; return R`  (the form the rule is stated on): W is `[]` whenever the
    loop is exhausted because its only other definition is followed at once by `break`, and W is read nowhere but in the final store.  Anything
    else is left as it is (and judged as it is)."""
    from ..model import Func
    body = ma.node.body
    stores = [n for n in own_nodes(ma.node) if isinstance(n, ast.Assign) and any(norm.U(t) == q for t in n.targets)]
    if len(stores) != 1 or stores[0] not in body or not isinstance(stores[0].value, ast.Name) or len(stores[0].targets) != 1:
        return ma
    st = stores[0]
    W = st.value.id
    k = body.index(st)
    if k + 2 != len(body) or not isinstance(body[k + 1], ast.Return) or not isinstance(body[k - 1], ast.For) or body[k - 1].orelse:
        return ma
    loop = body[k - 1]
    if not (isinstance(loop.iter, ast.Call) and norm.is_name(loop.iter.func, "enumerate") and len(loop.iter.args) == 1 and isinstance(loop.target, ast.Tuple)
            and len(loop.target.elts) == 2 and all(isinstance(e, ast.Name) for e in loop.target.elts)):
        return ma
    idx = loop.target.elts[0].id
    # alias of the queue (optional): one top-level definition before the loop, never re-bound, never mutated
    names_bound = {}
    for n in own_nodes(ma.node):
        if isinstance(n, (ast.Assign, ast.AugAssign, ast.AnnAssign, ast.For, ast.NamedExpr, ast.With)):
            tg = n.targets if isinstance(n, ast.Assign) else ([n.target] if hasattr(n, "target") else [])
            for t in tg:
                for x in ast.walk(t):
                    if isinstance(x, ast.Name):
                        names_bound.setdefault(x.id, []).append(n)
    alias = None
    it = loop.iter.args[0]
    if isinstance(it, ast.Name):
        ds = names_bound.get(it.id, [])
        if len(ds) == 1 and isinstance(ds[0], ast.Assign) and ds[0] in body[:k - 1] and norm.U(ds[0].value) == q and len(ds[0].targets) == 1:
            alias = it.id
        else:
            return ma
    elif norm.U(it) != q:
        return ma
    src_ok = {q} | ({alias} if alias else set())
    wd = names_bound.get(W, [])
    if len(wd) != 2 or not all(isinstance(d, ast.Assign) and len(d.targets) == 1 and isinstance(d.targets[0], ast.Name) for d in wd):
        return ma
    d0 = [d for d in wd if d in body[:k - 1] and isinstance(d.value, ast.List) and not d.value.elts]
    d1 = [d for d in wd if d not in body and any(x is d for b in loop.body for x in ast.walk(b))]
    if len(d0) != 1 or len(d1) != 1:
        return ma
    v = d1[0].value
    if not (isinstance(v, ast.Subscript) and norm.U(v.value) in src_ok and isinstance(v.slice, ast.Slice) and v.slice.upper is None and v.slice.step is None
            and norm.is_name(v.slice.lower, idx)):
        return ma
    blk = None
    for owner in ast.walk(loop):
        for _f, b in ((f_, getattr(owner, f_, None)) for f_ in ("body", "orelse")):
            if isinstance(b, list) and d1[0] in b:
                blk = b
    if blk is None or blk.index(d1[0]) + 1 >= len(blk) or not isinstance(blk[blk.index(d1[0]) + 1], ast.Break) or blk.index(d1[0]) + 2 != len(blk):
        return ma
    # the break must leave *this* loop (no loop in between)
    a = parent(d1[0])
    while a is not None and a is not loop:
        if isinstance(a, (ast.For, ast.While)):
            return ma
        a = parent(a)
    # W and the alias are read nowhere else / never mutated
    w_reads = [x for x in own_nodes(ma.node) if isinstance(x, ast.Name) and x.id == W and isinstance(x.ctx, ast.Load)]
    if len(w_reads) != 1:
        return ma
    if alias:
        uses = [x for x in own_nodes(ma.node) if isinstance(x, ast.Name) and x.id == alias and isinstance(x.ctx, ast.Load)]
        if len(uses) != 2:        # the loop header and the slice
            return ma
    # rewrite on a copy
    node = norm.clone(ma.node)
    nb = node.body
    nloop, nst, nret = nb[k - 1], nb[k], nb[k + 1]
    qexpr = lambda ctx_: ast.parse(q, mode="eval").body if isinstance(ctx_, ast.Load) else nst.targets[0]
    nloop.iter.args[0] = ast.parse(q, mode="eval").body
    for owner in ast.walk(nloop):
        for f_ in ("body", "orelse"):
            b = getattr(owner, f_, None)
            if isinstance(b, list):
                for i_, s_ in enumerate(b):
                    if isinstance(s_, ast.Assign) and len(s_.targets) == 1 and norm.is_name(s_.targets[0], W):
                        s_.targets = [ast.parse(q, mode="eval").body]
                        s_.targets[0].ctx = ast.Store()
                        s_.value.value = ast.parse(q, mode="eval").body
                        b[i_ + 1] = ast.copy_location(ast.Return(value=norm.clone(nret.value)), b[i_ + 1])
    nst.value = ast.List(elts=[], ctx=ast.Load())
    node.body = [s_ for s_ in nb if not (isinstance(s_, ast.Assign) and len(s_.targets) == 1 and isinstance(s_.targets[0], ast.Name) and s_.targets[0].id in ({W} | ({alias} if alias else set())))]
    for z in ast.walk(node):
        if not hasattr(z, "lineno") and isinstance(z, (ast.expr, ast.stmt)):
            ast.copy_location(z, st)
    ast.fix_missing_locations(node)
    for n in ast.walk(node):
        for ch in ast.iter_child_nodes(n):
            ch._parent = n  # type: ignore[attr-defined]
    node._parent = getattr(ma.node, "_parent", None)  # type: ignore[attr-defined]
    return Func(ma.mod, ma.qual, node, ma.cls)
