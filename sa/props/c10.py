"""C10 — suspension only between operators, lasts RAM/20 s (at least one tick), returns work intact."""
from __future__ import annotations

import ast
from typing import Dict, List, Optional, Set

from .. import norm, ratform, interval
from ..model import own_nodes, stmt_text, parent
from ..util import attr_writes, cfg_of, calls_named, package_calls, single_defs, write_once_fields
from .common import *
from . import pool, c02

EXPLANATION = (
    "Static decision of the structural clauses of C10.  (1) can-suspend flag protocol: _can_suspend is written only by "
    "Container.__init__ (False) and the tick generator; it is set True only right after an operator's COMPLETED transition and "
    "only if that operator is not the container's last; between any tick boundary (yield) and the next regular one the flag is "
    "rewritten, so a True value never survives into a later tick.  (2) validate-before-apply: verify_valid_suspend asserts "
    "can_suspend_container() for every requested suspension, the container being looked up among the *active* containers only; "
    "the validation dominates the first suspend_container().  (3) duration: the count-down start value is "
    "max(1, floor(allocation.ram / 20 * ticks_per_second)) over the reals (rational normal form, DISK_SCAN_GB_SEC bound to its "
    "literal) and its interval is [1, inf); the count-down is decremented by exactly one per tick and tested with == 0, both for "
    "the PENDING hand-back and for is_suspended().  (4) no progress while suspending: .tick() is called only on active "
    "containers.  (5) nothing is released at suspension start; exactly the allocation is released under is_suspended() (move "
    "table).  (6) SUSPENDING and then PENDING are applied to the same unfinished suffix of operators.")
UNDECIDED = "on which side of a tick boundary a write-out time within float rounding falls (the formula is compared over the reals)"
ASSUMPTIONS = COMMON_ASSUMPTIONS + ["ticks_per_second > 0 and allocations > 0 (asserted by Assignment.__init__)"]


def _consts(P) -> Dict[str, object]:
    m = P.mod(CONSTS)
    out = {}
    for k, v in m.module_assigns().items():
        if isinstance(v, ast.Constant) and isinstance(v.value, (int, float)) and not isinstance(v.value, bool):
            out[k] = v.value
    return out


def check_flag(ctx, num=1):
    P = ctx.P
    gen = P.fn(CT, "Container._tick_generator")
    ctx.touch(gen)
    g = cfg_of(gen, subst_env=False)
    ws = attr_writes(P, "_can_suspend")
    ctx.count_min("writers of _can_suspend", len(ws), 1)
    stores = []
    for w in ws:
        who = w.fn.qual
        if who == "Container.__init__":
            ok = isinstance(w.node, (ast.Assign, ast.AnnAssign)) and isinstance(w.node.value, ast.Constant) and w.node.value.value is False
            ctx.ob(num, "K1", "a new container cannot be suspended (flag starts False)", ok, w.fn, w.node, detail=stmt_text(w.node))
        elif same_fn(w.fn, gen):
            stores.append(w.node)
        else:
            ctx.ob(num, "K1", "_can_suspend is written only by Container.__init__ and the tick generator", False, w.fn, w.node, detail=repr(w))
    trues = [s for s in stores if isinstance(s, ast.Assign) and isinstance(s.value, ast.Constant) and s.value.value is True]
    falses = [s for s in stores if isinstance(s, ast.Assign) and isinstance(s.value, ast.Constant) and s.value.value is False]
    odd = [s for s in stores if s not in trues and s not in falses]
    for s in odd:
        ctx.ob(num, "K1", "the flag is only ever set to the literals True/False", False, gen, s, detail=stmt_text(s))
    completed = [c for c, r, st in transition_calls(gen) if st == "COMPLETED"]
    ctx.count_min("COMPLETED transitions in the tick generator", len(completed), 1)
    for s in trues:
        fs = g.facts_at(s)
        notlast = any(a[0] == "cmp" and a[1] == "!=" and "len(self.operators) - 1" in (a[2], a[3]) for a in fs) or \
            any(a[0] == "cmp" and a[1] == "<" and a[3] == "len(self.operators) - 1" for a in fs)
        after = any(g.dominates(c, s) and enclosing_for(c, gen.node) is enclosing_for(s, gen.node)
                    and g.path_avoiding(g.node_of(s).id, {g.node_of(c).id}, {n.id for n in g.nodes if n.is_yield}) is None for c in completed)
        # no yield between the COMPLETED transition and the store (same tick)
        same_tick = any(g.dominates(c, s) and g.path_avoiding(g.node_of(c).id, {g.node_of(s).id}, set()) is not None and
                        _no_yield_between(g, c, s) for c in completed)
        ctx.ob(num, "K2", "the flag is set True only right after an operator's COMPLETED transition, in the same tick, and only if another operator remains",
               notlast and after and same_tick, gen, s,
               detail=f"not the last operator (op_idx != len(self.operators) - 1): {notlast}; dominated by a COMPLETED transition of this iteration: {after}; "
                      f"no tick boundary in between: {same_tick}; facts: {sorted(norm.show(x) for x in fs)}")
    # between tick boundaries the flag is always rewritten
    yields = [n for n in g.nodes if n.is_yield]
    ctx.count_min("yield points in the tick generator", len(yields), 2)
    freeze_yields = set()
    for n in yields:
        p = parent(n.ast)
        if isinstance(p, ast.While):
            t = norm.nnf(p.test)
            if t[0] == "cmp" and t[1] == "<" and "assignment.ram" in t[2]:
                freeze_yields.add(n.id)
    regular = {n.id for n in yields} - freeze_yields
    store_ids = {g.node_of(s).id for s in stores}
    for y in yields:
        pth = g.path_avoiding(y.id, regular, store_ids)
        ctx.ob(num, "K3", "between a tick boundary and the next regular one the flag is rewritten (a True value never survives into a later tick)",
               pth is None, gen, y.ast, construct=f"yield at a {'freeze' if y.id in freeze_yields else 'regular'} point",
               detail="every path to the next regular yield passes a store to _can_suspend" if pth is None
               else f"path without a store: {g.describe_path(pth)}")
    # getter
    cs = P.fn(CT, "Container.can_suspend_container")
    ctx.touch(cs)
    rs = [r for r in own_nodes(cs.node) if isinstance(r, ast.Return)]
    ok = len(rs) == 1 and rs[0].value is not None and norm.U(rs[0].value) == "self._can_suspend"
    ctx.ob(num, "K6", "can_suspend_container() reports the flag itself", ok, cs, rs[0] if rs else cs.node, detail=f"{[stmt_text(r) for r in rs]}")


def _no_yield_between(g, a, b) -> bool:
    """No path from a to b passes a yield."""
    ys = {n.id for n in g.nodes if n.is_yield}
    bid = g.node_of(b).id
    aid = g.node_of(a).id
    # is there a path a -> yield -> b ?
    for y in ys:
        if g.path_avoiding(aid, {y}, {bid}) is not None and g.path_avoiding(y, {bid}, {aid}) is not None:
            return False
    return True


def check_validation(ctx, num=2):
    P = ctx.P
    v = P.fn(RP, "ResourcePool.verify_valid_suspend")
    ctx.touch(v)
    params = v.params()
    ctx.need(len(params) >= 2, "verify_valid_suspend must take (self, suspensions)")
    sp = params[1]
    g = cfg_of(v)
    env = single_defs(v)
    loops = [n for n in own_nodes(v.node) if isinstance(n, ast.For) and norm.is_name(n.iter, sp) and isinstance(n.target, ast.Name)]
    ok = False
    d = "no loop over the suspensions parameter"
    for lp in loops:
        sv = lp.target.id
        goal = ("truth", f"self.get_container_by_id({sv}.container_id).can_suspend_container()", True)
        if g.holds_after_iteration(lp, goal) and enclosing_for(lp, v.node) is None:
            byp = g.path_avoiding(g.entry.id, {g.exit.id}, {g.node_of(lp).id})
            ok = byp is None
            d = f"`{stmt_text(lp)}` asserts {norm.show(goal)} for every element" + ("" if ok else "; but the loop can be bypassed")
        else:
            d = f"`{stmt_text(lp)}` does not establish can_suspend_container() of the looked-up container for every element"
    if not ok:
        # all()-form:  assert all(self.get_container_by_id(x.container_id).can_suspend_container() for x in suspensions)
        for a in (n for n in own_nodes(v.node) if isinstance(n, ast.Assert)):
            t = a.test
            if isinstance(t, ast.Call) and norm.is_name(t.func, "all") and len(t.args) == 1 and isinstance(t.args[0], (ast.GeneratorExp, ast.ListComp)):
                ge = t.args[0]
                if len(ge.generators) == 1 and not ge.generators[0].ifs and norm.is_name(ge.generators[0].iter, sp) and isinstance(ge.generators[0].target, ast.Name):
                    xv = ge.generators[0].target.id
                    if norm.U(norm.subst(ge.elt, env)) == f"self.get_container_by_id({xv}.container_id).can_suspend_container()" \
                            and g.path_avoiding(g.entry.id, {g.exit.id}, {g.node_of(a).id}) is None:
                        ok = True
                        d = f"`{stmt_text(a)[:100]}` asserts it for every element"
    ctx.ob(num, "K2", "every requested suspension is validated: the named container, looked up by id, must report can_suspend_container()", ok, v,
           loops[0] if loops else v.node, construct="for s in suspensions: assert lookup(s.container_id).can_suspend_container()", detail=d)
    # lookup only among active containers
    lk = P.fn(RP, "ResourcePool.get_container_by_id")
    ctx.touch(lk)
    gl = cfg_of(lk)
    lparams = lk.params()
    rets = [r for r in own_nodes(lk.node) if isinstance(r, ast.Return) and r.value is not None and not (isinstance(r.value, ast.Constant) and r.value.value is None)]
    ctx.count_min("returns of get_container_by_id", len(rets), 1)
    for r in rets:
        lp = enclosing_for(r, lk.node)
        okr = False
        dd = "returns something that is not an element of self.active_containers"
        rv = norm.subst(r.value, single_defs(lk))
        if isinstance(rv, ast.Call) and norm.is_name(rv.func, "next") and len(rv.args) == 2 and isinstance(rv.args[1], ast.Constant) and rv.args[1].value is None \
                and isinstance(rv.args[0], ast.GeneratorExp) and len(rv.args[0].generators) == 1:
            ge = rv.args[0]
            gen = ge.generators[0]
            if pool._list_attr(gen.iter) == "active_containers" and isinstance(gen.target, ast.Name) and norm.is_name(ge.elt, gen.target.id) and len(gen.ifs) == 1 \
                    and norm.nnf(gen.ifs[0]) == norm.mk_cmp("==", f"{gen.target.id}.container_id", lparams[1]):
                ctx.ob(num, "K2", "a suspension can only name a container that is currently running (lookup among active containers, by id)", True, lk, r,
                       detail="first element of self.active_containers whose container_id equals the argument, else None")
                continue
        if lp is not None and pool._list_attr(lp.iter) == "active_containers" and isinstance(lp.target, ast.Name) and norm.is_name(r.value, lp.target.id):
            okr = norm.entails(gl.facts_at(r), norm.mk_cmp("==", f"{lp.target.id}.container_id", lparams[1]))
            dd = f"returns the element of self.active_containers whose container_id equals the argument: {okr}"
        ctx.ob(num, "K2", "a suspension can only name a container that is currently running (lookup among active containers, by id)", okr, lk, r, detail=dd)
    # caller: validation dominates the first suspend_container(), same list
    pa = pool.pool_analysis(P)
    f = pa.f
    scs = [c for c in calls_named(f, "suspend_container") if isinstance(c.func, ast.Attribute)]
    ctx.count_min("suspend_container() call sites in run_one_tick", len(scs), 1)
    vcs = [c for c in calls_named(f, "verify_valid_suspend") if len(c.args) == 1 and norm.is_name(c.args[0], pa.susp_p)]
    for sc in scs:
        lp = enclosing_for(sc, f.node)
        outer = lp if lp is not None else sc
        dom = any(pa.g.dominates(vc, outer) for vc in vcs)
        envf = single_defs(f)
        same = lp is not None and norm.is_name(lp.iter, pa.susp_p) and isinstance(lp.target, ast.Name) and \
            norm.U(norm.subst(sc.func.value, _loop_env(f, lp))) == f"self.get_container_by_id({lp.target.id}.container_id)"
        ctx.ob(num, "K3", "all requested suspensions are validated before the first one is applied, and the container suspended is the one validated",
               dom and same, f, sc, detail=f"verify_valid_suspend({pa.susp_p}) dominates the loop: {dom}; receiver is the lookup of the same id: {same}")
    # every requested suspension is applied (moved) — the active->suspending move is unconditional in that loop
    for mv in pa.moves_of("active->suspending"):
        lp = enclosing_for(mv.anchor, f.node)
        ok = lp is not None and norm.is_name(lp.iter, pa.susp_p)
        if ok:
            hid = pa.g.node_of(lp).id
            for s in mv.sites + [c for c in scs if enclosing_for(c, f.node) is lp]:
                if pa.g.path_avoiding(hid, {hid, pa.g.exit.id}, {pa.g.node_of(s).id}, edge_ok=lambda a, b, lab, hid=hid: not (a == hid and lab == "done")):
                    ok = False
            recv = [c for c in scs if enclosing_for(c, f.node) is lp]
            ok = ok and len(recv) == 1 and norm.U(norm.subst(recv[0].func.value, _loop_env(f, lp))) == norm.U(norm.subst(ast.Name(mv.var, ast.Load()), _loop_env(f, lp)))
        ctx.ob(num, "K4", "each accepted suspension starts the write-out of the named container and moves it from active to suspending", ok, f, mv.anchor,
               detail=f"loop: {stmt_text(lp) if lp else None}")
        if ok:
            # the loop is on every path, or bypassed only when no suspension was requested
            byp = pa.g.path_avoiding(pa.g.entry.id, {pa.g.exit.id}, {hid})
            okb = byp is None
            if not okb:
                ex = pa.g.facts(blocked={hid}).get(pa.g.exit.id)
                okb = ex is None or norm.entails(ex, ("truth", pa.susp_p, False))
            ctx.ob(num, "K3", "the suspension loop is reached in every tick in which the pool is handed a suspension (it is skipped only for an empty list)", okb, f, lp,
                   construct="suspension loop on every path", detail="on every path" if byp is None else f"bypass {pa.g.describe_path(byp)}" + ("; only with an empty list" if okb else ""))


def _loop_env(f, lp: ast.For) -> Dict[str, ast.expr]:
    from ..util import loop_env
    return loop_env(lp)


def check_duration(ctx, num=3):
    P = ctx.P
    sc = P.fn(CT, "Container.suspend_container")
    ctx.touch(sc)
    env = dict(single_defs(sc))
    fenv = write_once_fields(P, CT, "Container")
    env_all = dict(env)
    env_all.update({k: v for k, v in fenv.items() if k in ("self.tick_length_secs", "self.ticks_per_second")})
    consts = _consts(P)
    ctx.need("DISK_SCAN_GB_SEC" in consts, "constant DISK_SCAN_GB_SEC not found as a numeric literal in utils/consts.py")
    ctx.ob(num, "K5", "the disk write rate is the documented 20 GB/s", consts["DISK_SCAN_GB_SEC"] == 20, file=CONSTS, construct="DISK_SCAN_GB_SEC = 20",
           detail=f"literal: {consts['DISK_SCAN_GB_SEC']}")
    stores = [n for n in own_nodes(sc.node) if isinstance(n, ast.Assign) and any(self_attr(t, "_suspend_ticks_left") for t in n.targets)]
    ctx.count_min("stores of the suspension count-down in suspend_container", len(stores), 1)
    spec = ratform.parse("max(1, floor(self.assignment.ram / 20 * ticks_per_second))")
    pos_atoms = {"self.assignment.ram", "ticks_per_second", "self.ticks_per_second", "DISK_SCAN_GB_SEC"}

    def positive(t: str):
        if t.startswith("__strict__:"):
            return 0 if t[11:] in pos_atoms else None
        return 0 if t in pos_atoms else None
    for s in stores:
        try:
            same = ratform.to_rat(s.value, env_all, consts).equals(ratform.to_rat(spec, None, consts))
            got = ratform.to_rat(s.value, env_all, consts).text()
        except ratform.NotArithmetic as e:
            same, got = False, f"not arithmetic: {e}"
        ctx.ob(num, "K7", "the write-out lasts max(1, floor(allocated_ram / 20 * ticks_per_second)) ticks", same, sc, s,
               detail=f"code (normal form over the reals): {got}; documented: {ratform.to_rat(spec, None, consts).text()}")
        lb = interval.lower_bound(s.value, env_all, positive)
        ctx.ob(num, "K9", "the count-down starts at a value >= 1 (otherwise `== 0` after `-= 1` is never reached and the suspension never ends)",
               lb >= 1, sc, s, construct="suspend ticks >= 1", detail=f"lower bound of the start value: {lb}")
        byp = cfg_of(sc).path_avoiding(cfg_of(sc).entry.id, {cfg_of(sc).exit.id}, {cfg_of(sc).node_of(s).id})
        ctx.ob(num, "K3", "suspend_container always arms the count-down", byp is None, sc, s, construct="count-down armed on every path",
               detail="on every path" if byp is None else "can be bypassed")
    # all writers of the count-down
    tick = P.fn(CT, "Container.suspend_container_tick")
    ctx.touch(tick)
    gt = cfg_of(tick, subst_env=False)
    for w in attr_writes(P, "_suspend_ticks_left"):
        who = w.fn.qual
        if who == "Container.__init__" or w.node in stores:
            continue
        if same_fn(w.fn, tick):
            n = w.node
            ok = isinstance(n, ast.AugAssign) and isinstance(n.op, ast.Sub) and isinstance(n.value, ast.Constant) and n.value.value == 1
            byp = gt.path_avoiding(gt.entry.id, {gt.exit.id}, {gt.node_of(n).id})
            ctx.ob(num, "K3", "every suspending tick decrements the count-down by exactly one", ok and byp is None, tick, n,
                   detail=f"{stmt_text(n)}; unconditional: {byp is None}")
        else:
            ctx.ob(num, "K1", "the suspension count-down is written only when suspension starts and once per suspending tick", False, w.fn, w.node, detail=repr(w))
    decs = [n for n in own_nodes(tick.node) if isinstance(n, ast.AugAssign) and self_attr(n.target, "_suspend_ticks_left")]
    ctx.ob(num, "K3", "exactly one decrement per suspending tick", len(decs) == 1, tick, decs[0] if decs else tick.node, construct="one decrement",
           detail=f"{len(decs)} decrement(s)")
    # PENDING hand-back exactly when the count-down hits zero
    deep = transition_calls_deep(P, tick)
    for fn_, c0, recv, st, chain in deep:
        c = chain[0] if chain else c0      # the statement inside suspend_container_tick that leads to the transition
        fs = gt.facts_at(c)
        zero = norm.entails(fs, norm.mk_cmp("==", "0", "self._suspend_ticks_left"))
        # `<= 0` / `< 1` is the same test here: the count-down is armed at >= 1 (#3), goes down by exactly one per suspending tick and is tested right
        # after each decrement (the three obligations above), so the first tick in which it is `<= 0` is the tick in which it is 0
        zero = zero or any(norm.entails(fs, norm.nnf(ast.parse(t_, mode="eval").body)) for t_ in ("self._suspend_ticks_left <= 0", "self._suspend_ticks_left < 1"))
        after_dec = bool(decs) and gt.dominates(decs[0], c)
        ctx.ob(6, "K2", "operators are handed back (PENDING) exactly in the tick in which the count-down reaches 0", st == "PENDING" and zero and after_dec,
               tick, c, detail=f"state {st}; guarded by _suspend_ticks_left == 0: {zero}; after the decrement: {after_dec}")
    if not any(st == "PENDING" for _, _, _, st, _ in deep):
        ctx.ob(6, "K2", "operators are handed back (PENDING) when the count-down reaches 0", False, tick, tick.node, construct="transition(PENDING)",
               detail="no PENDING transition reachable from suspend_container_tick")
    # completeness: when the count-down is zero the hand-back loop runs
    pend = [(chain[0] if chain else c0) for fn_, c0, r, st, chain in deep if st == "PENDING"]
    if pend:
        lp = enclosing_for(pend[0], tick.node) or pool.stmt_of(pend[0])
        if lp is not None:
            IN = gt.facts(blocked={gt.node_of(lp).id})
            ex = IN.get(gt.exit.id)
            ok = ex is None or norm.entails(ex, norm.mk_cmp("!=", "0", "self._suspend_ticks_left")) \
                or any(norm.entails(ex, norm.nnf(ast.parse(t_, mode="eval").body)) for t_ in ("self._suspend_ticks_left > 0", "self._suspend_ticks_left >= 1"))
            ctx.ob(6, "K2", "whenever the count-down reaches 0 the unfinished operators are handed back", ok, tick, lp,
                   detail="paths that skip the hand-back carry _suspend_ticks_left != 0" if ok else "the hand-back can be skipped with the count-down at 0")
    isf = P.fn(CT, "Container.is_suspended")
    ctx.touch(isf)
    rs = [r for r in own_nodes(isf.node) if isinstance(r, ast.Return)]
    ok = len(rs) == 1 and rs[0].value is not None and norm.nnf(rs[0].value) in (
        norm.mk_cmp("==", "0", "self._suspend_ticks_left"),
        # the count-down starts at >= 1, goes down by one per tick and is never advanced past 0 (this clause, above): `<= 0` / `< 1` say the same
        norm.nnf(ast.parse("self._suspend_ticks_left <= 0", mode="eval").body), norm.nnf(ast.parse("self._suspend_ticks_left < 1", mode="eval").body))
    ctx.ob(num, "K5", "is_suspended() is exactly `_suspend_ticks_left == 0` (the same test as the hand-back)", ok, isf, rs[0] if rs else isf.node,
           detail=f"{[stmt_text(r) for r in rs]}")
    # the pool ticks every suspending container exactly once per tick, before testing is_suspended
    pa = pool.pool_analysis(P)
    f, g = pa.f, pa.g
    tcs = [c for c in calls_named(f, "suspend_container_tick") if isinstance(c.func, ast.Attribute)]
    ctx.count_min("suspend_container_tick() call sites", len(tcs), 1)
    for c in tcs:
        lp = enclosing_for(c, f.node)
        ok = lp is not None and pool._list_attr(lp.iter) == "suspending_containers" and isinstance(lp.target, ast.Name) and norm.is_name(c.func.value, lp.target.id)
        d = f"loop: {stmt_text(lp) if lp else None}"
        if ok:
            hid = g.node_of(lp).id
            skip = g.path_avoiding(hid, {hid, g.exit.id}, {g.node_of(c).id}, edge_ok=lambda a, b, lab, hid=hid: not (a == hid and lab == "done"))
            mv = [m for m in pa.moves_of("suspending->suspended") if m.src_loop is lp]
            before = bool(mv) and g.dominates(c, mv[0].anchor)
            ok = skip is None and before
            d += f"; every suspending container ticked: {skip is None}; before the is_suspended() test of the same loop: {before}"
        ctx.ob(num, "K3", "every suspending container's count-down advances exactly once per tick, before the release test", ok, f, c, detail=d)
    others = [(fn_, c) for fn_, c in package_calls(P, "suspend_container_tick") if not (fn_.mod.rel == RP and fn_.qual in pa.closure)]
    for fn_, c in others:
        ctx.ob(num, "K1", "the count-down is advanced only by ResourcePool.run_one_tick", False, fn_, c, detail=f"called in {fn_.qual}")
    others = [(fn_, c) for fn_, c in package_calls(P, "suspend_container") if not (fn_.mod.rel == RP and fn_.qual in pa.closure)]
    for fn_, c in others:
        ctx.ob(num, "K1", "suspension is started only by ResourcePool.run_one_tick (after validation)", False, fn_, c, detail=f"called in {fn_.qual}")


def check_states(ctx, num=6):
    P = ctx.P
    sc = P.fn(CT, "Container.suspend_container")
    g = cfg_of(sc, subst_env=False)
    for c, recv, st in transition_calls(sc):
        lp = enclosing_for(c, sc.node)
        ok = st == "SUSPENDING" and lp is not None
        if ok:
            byp = g.path_avoiding(g.entry.id, {g.exit.id}, {g.node_of(lp).id})
            hid = g.node_of(lp).id
            skip = g.path_avoiding(hid, {hid, g.exit.id}, {g.node_of(c).id}, edge_ok=lambda a, b, lab, hid=hid: not (a == hid and lab == "done"))
            ok = byp is None and skip is None
        ctx.ob(num, "K3", "starting a suspension moves every unfinished operator to SUSPENDING", ok, sc, c, detail=f"state {st}")


def run(ctx):
    check_flag(ctx, 1)
    check_validation(ctx, 2)
    ob_errors_propagate(ctx, 2, "a suspension that is not allowed is rejected with an error")
    check_duration(ctx, 3)
    pool.ob_phases(ctx, 4)
    from . import c09
    c09.check_every_pool_ticked(ctx, 4)     # a write-out counts down only in the pool's tick: no pool may be left out
    pool.ob_moves_classified(ctx, 5)
    pool.ob_deltas(ctx, 5)
    # a container that is writing out keeps its allocation only if nothing new is admitted into it: admission is tested against the free
    # counters, which still exclude it (C03#3)
    from . import c03
    c03.check_admission(Renumber(ctx, {3: 5}), 3)
    c02.check_suffix_slices(ctx, 6)
    check_states(ctx, 6)
    # "returns work intact": operators of a container that is writing out can only go back to PENDING (C02#1: the table)
    c02.check_table(Renumber(ctx, {1: 6}))
    # "a valid request is carried out": every Suspend of the tick's batch reaches the pool it names (C09#1)
    from . import c09
    c09.check_routing(Renumber(ctx, {1: 2}), 1)
