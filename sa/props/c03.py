"""C03 — pool CPU and RAM are conserved: never lost, never double-freed, never oversold."""
from __future__ import annotations

import ast

from .. import norm
from ..model import own_nodes, stmt_text, parent
from ..util import attr_writes, cfg_of, calls_named, package_calls
from .common import *
from . import pool

EXPLANATION = (
    "Static decision of the structural clauses of C03.  (1) K1: the three holder lists and the free-resource counters are "
    "written only in ResourcePool.__init__ / run_one_tick.  (2) each pool owns its three lists (fresh empty list in __init__, no class-level "
    "object of that name); K4 typestate transfer table: every membership change in "
    "run_one_tick classifies into one of the four documented moves; the resource deltas control-equivalent with each move "
    "are exactly the prescribed ones (new->active: -a.cpu/-a.ram of the assignment the container was built from; "
    "active->suspending: none; suspending->suspended under is_suspended(): +c.assignment.cpu/ram; active->gone under "
    "is_completed(): +c.assignment.cpu/ram); every container satisfying the condition makes the move in that tick; no stray "
    "write to the counters; the phases cannot be bypassed by an early return.  (3) verify_valid_assignment sums cpu and ram "
    "over the whole parameter list and asserts sum<=free (RAM unless overcommit) on every path; the call dominates container "
    "creation and receives the list the creation loop iterates.  (4) pools start with free = capacity = the configured size; "
    "a container keeps the assignment it was constructed from.  By induction over the move table free + sum(allocations of "
    "active and suspending containers) = capacity after every tick, for every command sequence.")
UNDECIDED = ("float drift of RAM sums over long runs (the induction is exact for integer CPU; for RAM up to float addition); "
             "that a suspension eventually finishes is C10")
ASSUMPTIONS = COMMON_ASSUMPTIONS + ["Container objects do not alias: a container is in at most one holder list (follows from the move table)"]


def check_writers(ctx, num=1):
    P = ctx.P
    allowed = {f"{RP}::ResourcePool.__init__"} | {f"{RP}::{q}" for q in pool.pool_analysis(P).closure}
    for attr in list(pool.LISTS) + list(pool.AVAIL):
        ws = attr_writes(P, attr)
        ctx.count_min(f"writers of {attr}", len(ws), 2)
        for w in ws:
            who = f"{w.fn.mod.rel}::{w.fn.qual}"
            ctx.ob(num, "K1", f"{attr} is written only by ResourcePool.__init__ and ResourcePool.run_one_tick (incl. private helpers extracted from it)", who in allowed and w.how != "dynamic",
                   w.fn, w.node, detail=f"{w.how} in {who}")


def check_admission(ctx, num=3):
    P = ctx.P
    f = P.fn(RP, "ResourcePool.verify_valid_assignment")
    ctx.touch(f)
    params = f.params()
    ctx.need(len(params) >= 2, "verify_valid_assignment must take (self, assignments)")
    lst = params[1]
    g = cfg_of(f, subst_env=False)
    accs = {}
    for res in ("cpu", "ram"):
        found = None
        for n in own_nodes(f.node):
            if isinstance(n, ast.AugAssign) and isinstance(n.op, ast.Add) and isinstance(n.target, ast.Name) \
                    and isinstance(n.value, ast.Attribute) and n.value.attr == res and isinstance(n.value.value, ast.Name):
                lp = enclosing_for(n, f.node)
                if lp is not None and norm.is_name(lp.iter, lst) and norm.is_name(lp.target, n.value.value.id) and enclosing_for(lp, f.node) is None:
                    hid = g.node_of(lp).id
                    skip = g.path_avoiding(hid, {hid, g.exit.id}, {g.node_of(n).id}, edge_ok=lambda a, b, lab, hid=hid: not (a == hid and lab == "done"))
                    inits = [s for s in own_nodes(f.node) if isinstance(s, ast.Assign) and len(s.targets) == 1 and norm.is_name(s.targets[0], n.target.id)]
                    init_ok = len(inits) == 1 and isinstance(inits[0].value, ast.Constant) and inits[0].value.value == 0 and g.dominates(inits[0], lp)
                    others = [s for s in own_nodes(f.node) if isinstance(s, ast.AugAssign) and norm.is_name(s.target, n.target.id) and s is not n]
                    if skip is None and init_ok and not others:
                        found = (n.target.id, lp, n)
        accs[res] = found
        ctx.ob(num, "K3", f"the admission check sums {res.upper()} over every element of the whole batch (starting from 0)", found is not None, f,
               found[2] if found else f.node, construct=f"sum of a.{res} over the assignments parameter",
               detail=f"accumulator: {found[0] if found else None}")
    if accs["cpu"]:
        goal = ("cmp", "<=", accs["cpu"][0], "self.avail_cpu_pool")
        ok = g.holds_at_exit(goal)
        ctx.ob(num, "K2", "a batch is accepted only if its total CPU <= free CPU (asserted on every accepting path)", ok, f, f.node,
               construct="assert sum(cpu) <= self.avail_cpu_pool", detail=f"goal at normal exit: {norm.show(goal)}")
    if accs["ram"]:
        goal = norm._mk("or", [("truth", "self.allow_memory_overcommit", True), ("cmp", "<=", accs["ram"][0], "self.avail_ram_pool")])
        ok = g.holds_at_exit(goal)
        ctx.ob(num, "K2", "without memory overcommit a batch is accepted only if its total RAM <= free RAM", ok, f, f.node,
               construct="assert sum(ram) <= self.avail_ram_pool unless overcommit", detail=f"goal at normal exit: {norm.show(goal)}")
    # the accumulators are compared against the *free* counters read at check time (no stale copy)
    # caller: dominates creation, same list
    pa = pool.pool_analysis(P)
    home = pa.f
    calls = [c for c in calls_named(home, "verify_valid_assignment") if isinstance(c.func, ast.Attribute) and norm.is_name(c.func.value, "self")]
    for mv in pa.moves_of("new->active"):
        lp = enclosing_for(mv.anchor, home.node)
        ok = False
        d = "no call of self.verify_valid_assignment found"
        for c in calls:
            same = len(c.args) == 1 and lp is not None and norm.U(c.args[0]) == norm.U(lp.iter) == pa.asg_p
            dom = pa.g.dominates(c, mv.ctor)
            # no allocation between check and creation loop other than this move's own
            ok = same and dom
            d = f"call {norm.U(c)} ; creation loop iterates {norm.U(lp.iter) if lp else None}; call dominates creation: {dom}"
            if ok:
                break
        ctx.ob(num, "K3", "the batch admission check runs before any container of the batch is created, on the very list that is created", ok,
               home, mv.ctor or mv.anchor, construct="self.verify_valid_assignment(assignments) dominates Container(...)", detail=d)
    # the free counters are not changed between the check and the first creation by another move (suspension release happens after)
    if calls and pa.moves_of("new->active"):
        c0 = calls[0]
        first_ctor = pa.moves_of("new->active")[0].ctor
        between = [dl for dl in pa.deltas if dl.sign < 0 and not any(dl in mv.deltas for mv in pa.moves_of("new->active"))]
        ctx.ob(num, "K3", "no other allocation is subtracted from the free counters", not between, home, between[0].node if between else home.node,
               construct="allocations outside new->active", detail=f"{[stmt_text(b.node) for b in between]}")


def check_init(ctx, num=4):
    P = ctx.P
    ex = P.fn(EX, "Executor.__init__")
    ctx.touch(ex)
    ctors = calls_named(ex, "ResourcePool")
    ctx.count_min("ResourcePool( construction sites in Executor.__init__", len(ctors), 1)
    for c in ctors:
        cpu = norm.kwarg(c, "cpu_pool", 1)
        ram = norm.kwarg(c, "ram_pool", 2)
        ok = cpu is not None and ram is not None and norm.U(cpu) in ("cpus_per_pool", "self.cpus_per_pool") \
            and norm.U(ram) in ("ram_gb_per_pool", "self.ram_gb_per_pool")
        ctx.ob(num, "K6", "every pool is created with the configured per-pool CPU and RAM", ok, ex, c,
               detail=f"cpu_pool={norm.U(cpu) if cpu else None}, ram_pool={norm.U(ram) if ram else None}")
    init = P.fn(RP, "ResourcePool.__init__")
    ctx.touch(init)
    want = {"max_cpu_pool": "cpu_pool", "avail_cpu_pool": "cpu_pool", "max_ram_pool": "ram_pool", "avail_ram_pool": "ram_pool"}
    got = {}
    for n in own_nodes(init.node):
        if isinstance(n, ast.Assign) and len(n.targets) == 1 and isinstance(n.targets[0], ast.Attribute) and norm.is_name(n.targets[0].value, "self"):
            if n.targets[0].attr in want:
                got.setdefault(n.targets[0].attr, []).append(n)
    for a, src in want.items():
        ns = got.get(a, [])
        ok = len(ns) == 1 and norm.U(ns[0].value) in (src, f"self.max_{src}")
        ctx.ob(num, "K6", f"a new pool starts with {a} = its capacity parameter {src}", ok, init, ns[0] if ns else init.node,
               construct=f"self.{a} = {src}", detail=f"{[stmt_text(x) for x in ns]}")
    # capacities never change afterwards
    for a in ("max_cpu_pool", "max_ram_pool"):
        ws = attr_writes(P, a)
        for w in ws:
            who = f"{w.fn.mod.rel}::{w.fn.qual}"
            ctx.ob(num, "K1", f"the capacity {a} is written only at pool construction", who == f"{RP}::ResourcePool.__init__", w.fn, w.node, detail=who)
    # Container keeps the assignment it was constructed from (amounts released == amounts allocated)
    ci = P.fn(CT, "Container.__init__")
    ctx.touch(ci)
    ws = attr_writes(P, "assignment", include_mutation=False)
    ws = [w for w in ws if w.fn.cls == "Container" or norm.U(w.target).startswith(("c.", "container.", "self.")) and w.fn.mod.rel in (CT, RP)]
    okc = [w for w in ws if same_fn(w.fn, ci) and isinstance(w.node, ast.Assign) and norm.U(w.node.value) == "assignment"]
    ctx.ob(num, "K6", "a container's assignment is the constructor argument", len(okc) == 1, ci, okc[0].node if okc else ci.node,
           construct="self.assignment = assignment", detail=f"stores: {[repr(w) for w in ws]}")
    for w in ws:
        if not same_fn(w.fn, ci):
            ctx.ob(num, "K1", "a container's assignment is never replaced after construction", False, w.fn, w.node, detail=repr(w))
    # cpu/ram of an Assignment are write-once
    for a in ("cpu", "ram"):
        for w in attr_writes(P, a, include_mutation=False):
            who = f"{w.fn.mod.rel}::{w.fn.qual}"
            if who in (f"{AS}::Assignment.__init__", f"{AS}::ExecutionResult.__init__"):
                continue
            ctx.ob(num, "K1", f"the {a} of an assignment is never modified after construction", False, w.fn, w.node, detail=who)
    ai = P.fn(AS, "Assignment.__init__")
    ctx.touch(ai)
    gi = cfg_of(ai, subst_env=False)
    for a in ("cpu", "ram"):
        st = [n for n in own_nodes(ai.node) if isinstance(n, ast.Assign) and any(self_attr(t, a) for t in n.targets)]
        ctx.ob(num, "K6", f"Assignment.{a} is the constructor argument", len(st) == 1 and norm.U(st[0].value) == a, ai, st[0] if st else ai.node,
               construct=f"self.{a} = {a}", detail=f"{[stmt_text(s) for s in st]}")
        # the admission check adds the amounts of a batch up: a negative amount would be a credit that lets an oversized one through
        pos = len(st) == 1 and (norm.entails(gi.facts_at(st[0]), ("cmp", "<", "0", a)) or norm.entails(gi.facts_at(st[0]), ("cmp", "<=", "0", a)))
        ctx.ob(num, "K2", f"an Assignment never carries a negative {a.upper()} amount (the constructor insists on {a} > 0): the batch sum of the admission check cannot be offset", pos,
               ai, st[0] if st else ai.node, construct=f"assert {a} > 0", detail=f"facts at the store: {sorted(norm.show(x) for x in gi.facts_at(st[0])) if st else []}")


def run(ctx):
    check_writers(ctx, 1)
    pool.ob_moves_classified(ctx, 2)
    pool.ob_own_state(ctx, 2)
    ob_errors_propagate(ctx, 3, "an oversold batch is refused with an error")
    pool.ob_deltas(ctx, 2)
    pool.ob_phases(ctx, 2)      # "returned in the tick it completes or fails": whatever can end a container runs before that tick's collection
    check_admission(ctx, 3)
    check_init(ctx, 4)
    # "returned in the tick it finishes suspending": the release test looks at a count-down that must have advanced in this very tick, once,
    # before the test (C10#3) — a write-out advanced elsewhere can pass 0 without ever being seen at 0
    from . import c10
    from .common import Renumber
    c10.check_duration(Renumber(ctx, {3: 2, 6: 2}), 3)
