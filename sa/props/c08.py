"""C08 — valid configurations run to the end; shipped schedulers decide admissibly."""
from __future__ import annotations

import ast
from typing import Dict, List, Optional, Tuple

from .. import norm
from ..model import own_nodes, stmt_text, parent
from ..util import cfg_of, calls_named, single_defs
from .common import *
from . import sched, c05, c06, c10, c12, c16, pool as poolmod

EXPLANATION = (
    "Static decision of *admissibility by construction* for every scheduler shipped with the package (the functions registered as "
    "naive, priority, priority-pool, overbook, and the starter scheduler parsed out of SCHEDULER_TEMPLATE), plus an enumerated "
    "list of crash hazards.  (1) K8 no-oversell: at every Assignment construction the relational facts that hold on every path "
    "(branch conditions, equalities from assignments, max/min, closed under transitivity) entail cpu <= A_cpu[pool] and ram <= "
    "A_ram[pool] (CPU only for the overcommitting scheduler), where A is the pool's own free counters read in the same round, or "
    "a per-round snapshot initialised from them for the same index; the snapshot entry of that pool is decremented by exactly the "
    "amounts handed out, together with the construction.  (2) the assignment's pool_id is the index whose free resources were "
    "tested.  (3) Suspend only for containers taken from active lists under can_suspend_container().  (4) the operators assigned "
    "originate from get_ops(ASSIGNABLE_STATES, ...), the DAG iteration, or the non-COMPLETED operators of a failed/suspended "
    "container, through order-preserving operations only; a job is marked handled (and leaves its queue) in the round it is "
    "assigned; the priority scheduler never queues an operator that is already queued.  (5) K17 sibling rule: a scheduler that "
    "can emit more than one operator per container consults multi_operator_containers (the executor asserts on it).  (6) K13 "
    "end-of-run reductions are guarded against empty inputs.  (7) K14a no exact float equality in parameter validation; validation refuses only what the documented domain excludes; no assertion / raise of the executor holds an incrementally kept float counter (free CPU / RAM, used RAM) against a literal or the capacity.  (8) K9 "
    "zero-tick hazards: every operator occupies >= 1 tick and every suspension lasts >= 1 tick.  (9) priority-pool's depletion "
    "assertion is protected by take-all-or-strictly-less sizing in all three branches.")
UNDECIDED = "exception-freedom over the whole configuration space is not decided; only admissibility by construction and the enumerated hazard classes are"
ASSUMPTIONS = COMMON_ASSUMPTIONS

OVERCOMMIT = {"overbook"}


def _snapshot_terms(P, key: str, f, c: ast.Call, s_p: str) -> Optional[Dict[str, str]]:
    """The terms that stand for free cpu / ram of the pool named by the assignment's pool_id."""
    pid = sched.asg_arg(c, "pool_id")
    if pid is None:
        return None
    p = norm.U(pid)
    if key in ("naive", "tmpl"):
        return {"cpu": f"{s_p}.executor.pools[{p}].avail_cpu_pool", "ram": f"{s_p}.executor.pools[{p}].avail_ram_pool", "kind": "live"}
    if key in ("priority", "priority-pool"):
        D = sched.snapshot_name(f)
        return {"cpu": f"{D}[{p}]['avail_cpu']", "ram": f"{D}[{p}]['avail_ram']", "kind": "snapshot"}
    return None


def check_no_oversell(ctx, num=1):
    P = ctx.P
    for key in ("naive", "tmpl", "priority", "priority-pool"):
        f = sched.scheduler(P, key)
        ctx.touch(f)
        s_p = f.params()[0]
        live = key in ("naive", "tmpl")
        g = cfg_of(f, subst_env=live)
        env = single_defs(f)
        sites = [c for fn_, c in sched.assignment_sites(P, f) if same_fn(fn_, f)]
        ctx.count_min(f"Assignment( sites in {key}", len(sites), 1)
        for c in sites:
            A = _snapshot_terms(P, key, f, c, s_p)
            pid = sched.asg_arg(c, "pool_id")
            for res in ("cpu", "ram"):
                arg = sched.asg_arg(c, res)
                if arg is None or A is None:
                    ctx.ob(num, "K8", f"[{key}] the {res} request is bounded by the pool's free {res}", False, f, c, detail="argument or pool_id missing")
                    continue
                at = norm.U(norm.subst(arg, env)) if live else norm.U(arg)
                goal = ("cmp", "<=", at, A[res])
                ok = (at == A[res]) or g.holds_at(c, goal)
                ctx.ob(num, "K8", f"[{key}] no oversell: the {res.upper()} requested is <= the free {res.upper()} of the pool it is placed on, on every path", ok, f, c,
                       construct=f"{res} <= free {res} of pool {norm.U(pid)}", detail=f"goal: {norm.show(goal)}; facts at the construction: "
                       f"{sorted(norm.show(x) for x in g.facts_at(c) if at in norm.show(x) or A[res] in norm.show(x))}")
            if live:
                # the pool's own counters are read, so at most one construction per pool per round may happen
                lp_ = enclosing(c, (ast.For,), f.node)
                pool_loop = None
                while lp_ is not None:
                    if isinstance(lp_.target, ast.Name) and pid is not None and norm.is_name(pid, lp_.target.id):
                        pool_loop = lp_
                    lp_ = enclosing(lp_, (ast.For,), f.node)
                again = None
                if pool_loop is not None:
                    again = g.path_avoiding(g.node_of(c).id, {g.node_of(x).id for x in sites}, {g.node_of(pool_loop).id})
                ctx.ob(num, "K8", f"[{key}] the pool's live free counters bound the request, so only one container per pool is started per round "
                       "(a second one would be sized by counters the first has not yet reduced)", pool_loop is not None and again is None, f, c,
                       construct="one construction per pool per round", detail="every path to another construction passes the pool-loop header" if again is None and pool_loop is not None
                       else (g.describe_path(again) if again else "no loop over pool indices"))
            if not live and A is not None:
                # snapshot initialised from the pool's own counters for the same index, decremented with the construction
                for res, keyname in (("cpu", "avail_cpu"), ("ram", "avail_ram")):
                    sub = ast.parse(A[res], mode="eval").body
                    feeds = c16._snapshot_feeds(f, sub, norm.U(pid), keyname, s_p)
                    ctx.ob(num, "K8", f"[{key}] the per-round snapshot entry of free {res.upper()} is initialised from the pool's own counter for the same index", feeds, f, c,
                           construct=f"snapshot['{keyname}'] <- pools[i].avail_{res}_pool", detail=f"entry {A[res]}")
                    arg = sched.asg_arg(c, res)
                    decs = [n for n in own_nodes(f.node) if isinstance(n, ast.AugAssign) and isinstance(n.op, ast.Sub) and norm.U(n.target) == A[res]
                            and arg is not None and norm.U(n.value) == norm.U(arg)]
                    lp = enclosing_for(c, f.node)
                    sc = poolmod.stmt_of(c)
                    good = [n for n in decs if g.control_equivalent(sc, n, lp) and g.dominates(c, n)]
                    # no redefinition of the amount between construction and decrement
                    ctx.ob(num, "K8", f"[{key}] the snapshot is decremented by exactly the {res.upper()} just handed out, together with the construction "
                           "(so later jobs of the round see what is left)", len(good) == 1, f, good[0] if good else c,
                           construct=None if good else f"snapshot decrement of {res}", detail=f"decrements of {A[res]} by {norm.U(arg) if arg is not None else None}: {[stmt_text(n) for n in decs]}")
            if not live:
                # (2) pool index consistency: the snapshot tested is the one of pool_id (by construction of A) and pool_id is what the chooser/loop produced
                ctx.ob(2, "K6", f"[{key}] the free resources tested are those of the very pool named in the assignment", pid is not None and isinstance(pid, ast.Name), f, c,
                       construct="pool_id consistency", detail=f"pool_id={norm.U(pid) if pid is not None else None}; snapshot terms {A}")


def check_ops(ctx, num=4):
    P = ctx.P
    for key in sched.IN_PROCESS:
        f = sched.scheduler(P, key)
        ctx.touch(f)
        for fn_, c in sched.assignment_sites(P, f):
            g = cfg_of(fn_, subst_env=False)
            ok, why = sched.ops_origin_ok(fn_, g, c)
            ctx.ob(num, "K6", f"[{key}] the operators of an assignment come from the ready/assignable listing, the DAG iteration or a container's unfinished operators, "
                   "through order-preserving operations only", ok, fn_, c, construct="ops origin", detail=why)
        # jobs: where WaitingQueueJob(ops=...) is built
        for h in sched.module_helpers(P, f):
            for c in calls_named(h, "WaitingQueueJob"):
                ops = norm.kwarg(c, "ops", 2)
                gh = cfg_of(h, subst_env=False)
                if ops is None:
                    continue
                ok, why = sched._origin(h, gh, c, ops, 0)
                # ops built from a container/result must exclude COMPLETED operators
                src = ops
                if isinstance(src, ast.Name):
                    ds = [d for d in sched.reaching_defs(h, gh, c, src.id) if isinstance(d, ast.Assign)]
                    if len(ds) == 1:
                        src = ds[0].value
                if isinstance(src, ast.ListComp) and len(src.generators) == 1 and norm.U(src.generators[0].iter).endswith((".ops", ".operators")):
                    flt = src.generators[0].ifs
                    tv = src.generators[0].target.id if isinstance(src.generators[0].target, ast.Name) else "?"
                    ok = ok and len(flt) == 1 and norm.nnf(flt[0]) == norm.mk_cmp("!=", "OperatorState.COMPLETED", f"{tv}.state()")
                    why += "; completed operators filtered out" if ok else "; completed operators are NOT filtered out (they could never be assigned again)"
                ctx.ob(num, "K6", f"[{key}] the operators of a queued job come from the ready/assignable listing or a container's unfinished operators (completed ones excluded)",
                       ok, h, c, construct="job ops origin", detail=why)
    # priority: already-queued exclusion
    f = sched.scheduler(P, "priority")
    g = cfg_of(f, subst_env=False)
    s_p = f.params()[0]
    filt = [n for n in own_nodes(f.node) if isinstance(n, ast.Assign) and isinstance(n.value, ast.ListComp) and len(n.value.generators) == 1 and len(n.value.generators[0].ifs) == 1
            and isinstance(n.value.generators[0].ifs[0], ast.Compare) and isinstance(n.value.generators[0].ifs[0].ops[0], ast.NotIn)]
    ok = False
    d = "no `[op for op in op_list if op.id not in already_queued]` filter"
    for n in filt:
        ge = n.value.generators[0]
        setn = norm.U(ge.ifs[0].comparators[0])
        tv = ge.target.id if isinstance(ge.target, ast.Name) else "?"
        if norm.U(ge.ifs[0].left) != f"{tv}.id" or not norm.is_name(n.value.elt, tv):
            continue
        adds = [c for c in calls_named(f, "add") if isinstance(c.func, ast.Attribute) and norm.is_name(c.func.value, setn)]
        full = False
        sdef = [x for x in own_nodes(f.node) if isinstance(x, ast.Assign) and any(norm.is_name(t, setn) for t in x.targets) and isinstance(x.value, ast.SetComp)]
        if len(sdef) == 1 and len(sdef[0].value.generators) == 3 and not any(gg.ifs for gg in sdef[0].value.generators):
            g1, g2, g3 = sdef[0].value.generators
            if norm.U(g1.iter) == f"{s_p}.queues_by_prio.values()" and isinstance(g1.target, ast.Name) and norm.is_name(g2.iter, g1.target.id) and isinstance(g2.target, ast.Name) \
                    and norm.U(g3.iter) == f"{g2.target.id}.ops" and isinstance(g3.target, ast.Name) and norm.U(sdef[0].value.elt) == f"{g3.target.id}.id" and g.dominates(sdef[0], n):
                full = True
        for a in adds:
            l1 = enclosing_for(a, f.node)
            l2 = enclosing_for(l1, f.node) if l1 is not None else None
            l3 = enclosing_for(l2, f.node) if l2 is not None else None
            if l1 is not None and l2 is not None and l3 is not None and norm.U(l3.iter) == f"{s_p}.queues_by_prio.values()" and norm.is_name(l2.iter, l3.target.id) \
                    and norm.U(l1.iter) == f"{l2.target.id}.ops" and norm.U(a.args[0]) == f"{l1.target.id}.id" and g.dominates(l3, n):
                full = True
        jobs_use = True
        ok = full
        d = f"filter `{stmt_text(n)}`; the exclusion set holds the ids of every operator of every queued job of every queue: {full}"
    ctx.ob(num, "K2", "[priority] an operator that is already waiting in a queue is not queued a second time (a second Assignment of it would be refused)", ok, f,
           filt[0] if filt else f.node, construct="already-queued exclusion", detail=d)
    # job handled before assigned (priority, priority-pool)
    for key in ("priority", "priority-pool"):
        f = sched.scheduler(P, key)
        g = cfg_of(f, subst_env=False)
        for fn_, c in sched.assignment_sites(P, f):
            jl = enclosing_for(c, f.node)
            ok = False
            d = "no job loop"
            if jl is not None and isinstance(jl.target, ast.Name):
                jv = jl.target.id
                marks = [a for a in ast.walk(jl) if isinstance(a, ast.Call) and isinstance(a.func, ast.Attribute) and a.func.attr == "append" and a.args and norm.is_name(a.args[0], jv)
                         and isinstance(a.func.value, ast.Name)]
                okm = [m for m in marks if g.dominates(m, c)]
                drained = False
                for m in okm:
                    D = m.func.value.id
                    ql = enclosing_for(jl, f.node)
                    for rl in (n for n in own_nodes(f.node) if isinstance(n, ast.For) and norm.is_name(n.iter, D)):
                        rem = [x for x in ast.walk(rl) if isinstance(x, ast.Call) and isinstance(x.func, ast.Attribute) and x.func.attr == "remove" and norm.U(x.func.value) == norm.U(jl.iter)]
                        if rem and before(f, jl, rl):
                            drained = True
                ok = bool(okm) and drained
                d = f"marked handled before the construction: {bool(okm)}; handled jobs removed from the queue after the scan: {drained}"
            ctx.ob(num, "K3", f"[{key}] a job leaves its queue in the round in which it is assigned (it cannot be assigned twice)", ok, f, c, construct="job removed when assigned", detail=d)


def check_flag(ctx, num=5):
    """K17: schedulers registered in the same registry agree on consulting multi_operator_containers when they can pack several operators."""
    P = ctx.P
    for key in sched.IN_PROCESS:
        f = sched.scheduler(P, key)
        try:
            ini = P.scheduler_init(key)
        except Exception:
            ini = None
        multi = False
        why = []
        for h in sched.module_helpers(P, f):
            for c in calls_named(h, "Assignment"):
                ops = sched.asg_arg(c, "ops")
                if isinstance(ops, ast.List) and len(ops.elts) == 1:
                    continue
                if isinstance(ops, ast.Name):
                    g = cfg_of(h, subst_env=False)
                    ds = [d for d in sched.reaching_defs(h, g, c, ops.id) if isinstance(d, ast.Assign)]
                    if ds and all(isinstance(d.value, ast.Subscript) and isinstance(d.value.slice, ast.Slice) and isinstance(d.value.slice.upper, ast.Constant)
                                  and d.value.slice.upper.value == 1 and d.value.slice.lower is None for d in ds):
                        continue
                multi = True
                why.append(f"{h.qual}:{h.mod.line(c)} ops={norm.U(ops) if ops is not None else None}")
        reads = False
        for h in sched.module_helpers(P, f) + ([ini] if ini else []):
            for n in own_nodes(h.node):
                if (isinstance(n, ast.Attribute) and n.attr == "multi_operator_containers") or (isinstance(n, ast.Constant) and n.value == "multi_operator_containers"):
                    reads = True
        ok = (not multi) or reads
        ctx.ob(num, "K17", f"[{key}] a scheduler that can put more than one operator into a container consults multi_operator_containers "
               "(the executor rejects multi-operator assignments when the flag is off)", ok, f, f.node, construct="multi_operator_containers consulted",
               detail=f"can emit multi-operator assignments: {multi} {why[:3]}; reads the flag: {reads}")


def check_validation(ctx, num=7):
    P = ctx.P
    f = P.fn(SIM, "run_simulator")
    ctx.touch(f)
    n_assert = 0
    for a in (n for n in own_nodes(f.node) if isinstance(n, ast.Assert)):
        txt = norm.U(a.test)
        if "_prob" not in txt:
            continue
        n_assert += 1
        bad = []
        for c in ast.walk(a.test):
            if isinstance(c, ast.Compare) and any(isinstance(o, (ast.Eq, ast.NotEq)) for o in c.ops):
                sides = [c.left] + c.comparators
                if any(isinstance(s_, ast.BinOp) and isinstance(s_.op, (ast.Add, ast.Sub)) for s_ in sides):
                    bad.append(norm.U(c))
        ok = not bad
        ctx.ob(num, "K14a", "parameter validation does not compare a float sum of probabilities with == / != (valid triples sum to one only up to rounding)", ok, f, a,
               detail=f"exact comparisons on a sum: {bad}" if bad else "tolerance-based (isclose) or inequality test")
    ctx.count_min("probability validation asserts in run_simulator", n_assert, 1)
    # ... and the validation refuses nothing that is valid: besides the probabilities summing to one, the only constraint is 0 <= cpu_io_ratio <= 1
    # (pool counts and sizes of any positive magnitude — sub-GB RAM included — are valid configurations)
    pn = None
    for n in own_nodes(f.node):
        if isinstance(n, ast.Assign) and len(n.targets) == 1 and isinstance(n.targets[0], ast.Name) and isinstance(n.value, ast.Call) and norm.call_name(n.value) == "parse_args_with_defaults":
            pn = n.targets[0].id
    ratio_ok = {("cmp", "<=", "0", f"{pn}['cpu_io_ratio']"), ("cmp", "<=", f"{pn}['cpu_io_ratio']", "1"), ("cmp", "<=", f"{pn}['cpu_io_ratio']", "1.0"),
                ("cmp", "<=", "0.0", f"{pn}['cpu_io_ratio']")}
    for a in (n for n in own_nodes(f.node) if isinstance(n, ast.Assert)):
        txt = norm.U(a.test)
        if pn is None or f"{pn}[" not in txt or "_prob" in txt:
            continue
        atoms = norm.atoms_true(norm.nnf(a.test))
        extra = [x for x in atoms if x not in ratio_ok]
        ctx.ob(num, "K2", "the validation of a configuration refuses only what is invalid: probabilities that do not sum to one, a cpu_io_ratio outside [0, 1]", not extra, f, a,
               construct="no further constraint on the parameters", detail=f"required by this assert: {sorted(norm.show(x) for x in atoms)}" + (f"; not a documented constraint: {sorted(norm.show(x) for x in extra)}" if extra else ""))


def check_depletion_assert(ctx, num=9):
    P = ctx.P
    f = sched.scheduler(P, "priority-pool")
    g = cfg_of(f, subst_env=False)
    s_p = f.params()[0]
    sites = [c for fn_, c in sched.assignment_sites(P, f) if same_fn(fn_, f)]
    # is there a both-or-none depletion assertion at all?
    asserts = [a for a in own_nodes(f.node) if isinstance(a, ast.Assert) and "== 0" in norm.U(a.test) and "and" in norm.U(a.test)]
    if not asserts:
        ctx.ob(num, "K2", "[priority-pool] no both-or-none depletion assertion to protect", True, f, f.node, construct="depletion assertion", detail="absent", nontrivial=False)
        return
    for c in sites:
        pid = norm.U(sched.asg_arg(c, "pool_id"))
        cpu, ram = norm.U(sched.asg_arg(c, "cpu")), norm.U(sched.asg_arg(c, "ram"))
        D = sched.snapshot_name(f)
        ac, ar = f"{D}[{pid}]['avail_cpu']", f"{D}[{pid}]['avail_ram']"
        both_eq = norm._mk("and", [norm.mk_cmp("==", cpu, ac), norm.mk_cmp("==", ram, ar)])
        both_lt = norm._mk("and", [("cmp", "<", cpu, ac), ("cmp", "<", ram, ar)])
        ok = g.holds_at(c, norm._mk("or", [both_eq, both_lt]))
        ctx.ob(num, "K2", "[priority-pool] take-all-or-strictly-less sizing: a container either takes all free CPU and all free RAM of its pool or strictly less of both, "
               "so a pool can never end up with exactly one of the two resources at 0 (which the scheduler's own depletion assertion rejects)", ok, f, c,
               construct="take-all-or-strictly-less", detail=f"goal: ({cpu} == free_cpu and {ram} == free_ram) or ({cpu} < free_cpu and {ram} < free_ram)")


def run(ctx):
    P = ctx.P
    check_no_oversell(ctx, 1)
    # overbook's CPU-only bound and its shape are the obligations of C18 #1/#2
    from . import c18
    c18.run(_Renumber(ctx, {1: 1, 2: 1, 4: 4}, drop=(3, 5)))   # abandonment (#3) and never-suspends (#5) are C18's own
    f, s_p, qmap, ql = c12.check_queue_order(_Renumber(ctx, {1: 4}))
    c12.check_pool_choice(_Renumber(ctx, {4: 1}), f, s_p)
    c12.check_suspension(_Renumber(ctx, {5: 3, 6: 3}, drop=(7,)), f, s_p, qmap, admissibility_only=True)   # re-offer (#7) is C12's own
    # a Suspend (and the priority scheduler's table of displaced work) names a container by its id alone: ids must be one per container
    from . import c09
    c09.check_container_ids(_Renumber(ctx, {2: 3}), 2)
    check_ops(ctx, 4)
    # the order in which a pipeline's operators are listed (and therefore packed) is the DAG iteration: parents before children (C01#9)
    from . import c01
    c01.check_dag(_Renumber(ctx, {9: 4, 10: 4}))
    # with single-operator containers the operator handed out must be *ready* (parents complete): a child of a running parent
    # would be refused by the executor's dependency check when its container starts (naive / starter: the clause is C17#5)
    from . import c17
    c17.check_one(_Renumber(ctx, {5: 4}, drop=(1, 2, 3, 4, 6)), "naive", "naive", always_single=False)
    c17.check_one(_Renumber(ctx, {5: 4}, drop=(1, 2, 3, 4, 6)), "tmpl", "template", always_single=True)
    for key_ in ("naive", "tmpl", "priority", "priority-pool"):
        sched.ob_assignments_returned(ctx, 4, key_, key_)
    for key_ in ("naive", "tmpl", "priority", "priority-pool", "overbook"):
        sched.ob_no_mutation_while_iterating(ctx, 4, key_, key_)
    check_flag(ctx, 5)
    c06.check_reductions(ctx, 6)
    c06.check_divisions(ctx, 6)
    # assertion hazards of the main loop and the killer: a pipeline is finished once (record_finish asserts), a container is killed
    # only while it is alive and for a reason (kill() asserts); the clauses are C06#3/#4 and C11#1-#4 / C04#6
    sm_, exc_ = c06.check_main_loop(_Renumber(ctx, {3: 6}), 3)
    c06.check_sweep(_Renumber(ctx, {4: 6}), sm_, exc_, 4)
    from . import c11
    c11._run(_Renumber(ctx, {1: 6, 2: 6, 3: 6, 4: 6, 5: 6, 6: 6}))
    check_validation(ctx, 7)
    check_no_exact_bounds_on_counters(ctx, 7)
    sh = c05.check_plan(_Renumber(ctx, {1: 8, 2: 8, 5: 8, 6: 8, 7: 8}))
    c05.check_tick_body(_Renumber(ctx, {4: 8, 5: 8, 6: 8, 7: 8}), sh)
    c10.check_duration(_Renumber(ctx, {3: 8, 6: 8}), 3)
    c05.check_scaling(_Renumber(ctx, {3: 8}), 3)          # the scaling laws are the documented closed forms (finite and positive for every CPU count >= 1)
    check_depletion_assert(ctx, 9)
    check_positivity(ctx, 10)
    check_admission_exact(ctx, 11)
    check_termination(ctx, 12)


class _Renumber:
    """Proxy that files another property's obligations under this property's clause numbers (numbers mapped to None are
    clauses of the other property that are not part of this one and are dropped)."""

    def __init__(self, ctx, table, drop=()):
        self._ctx, self._t, self._drop = ctx, table, set(drop)

    def __getattr__(self, k):
        return getattr(self._ctx, k)

    def ob(self, num, *a, **kw):
        if num in self._drop:
            return bool(a[2]) if len(a) > 2 else True
        return self._ctx.ob(self._t.get(num, num), *a, **kw)


# ---------------------------------------------------------------------------------------------------------------------
# (10) what the constructor of Assignment insists on (positive cpu, positive ram, at least one operator) holds at every
#      construction in a shipped scheduler; (11) the executor refuses a batch only when it does not fit.

class _Probe:
    """ctx proxy that records obligation verdicts without filing them (the obligations are filed by their own clause)."""

    def __init__(self, ctx):
        self._ctx, self.results = ctx, []

    def __getattr__(self, k):
        return getattr(self._ctx, k)

    def ob(self, num, kind, text, ok, *a, **kw):
        self.results.append((text, bool(ok)))
        return bool(ok)

    def count_min(self, *a, **kw):
        return None

    def touch(self, *a, **kw):
        return None


def _view(P, m):
    from ..util import view_funcs
    return view_funcs(P, m)


def _ctor_demands(P) -> Dict[str, ast.Assert]:
    """parameter -> the assert of Assignment.__init__ that demands it to be positive / non-empty"""
    ai = P.fn(AS, "Assignment.__init__")
    out = {}
    for a in own_nodes(ai.node):
        if not isinstance(a, ast.Assert):
            continue
        for x in norm.atoms_true(norm.nnf(a.test)):
            if x[0] == "cmp" and x[1] == "<" and x[2] == "0" and x[3] in ai.params():
                out[x[3]] = a
            elif x[0] == "truth" and x[2] is True and x[1] in ai.params():
                out[x[1]] = a
    return out


def _retry_invariant(ctx, num) -> bool:
    """every RetryStats carries the amounts of an assignment that existed (which the constructor checked to be positive)"""
    P = ctx.P
    good = True
    n = 0
    for m in P.modules.values():
        for fn_ in _view(P, m):
            for c in calls_named(fn_, "RetryStats"):
                if not isinstance(c.func, ast.Name):
                    continue
                n += 1
                for kw_, suffix in (("old_cpu", "cpu"), ("old_ram", "ram")):
                    v = norm.kwarg(c, kw_, {"old_ram": 0, "old_cpu": 1}[kw_])
                    t = norm.U(v) if v is not None else ""
                    ok = isinstance(v, ast.Attribute) and v.attr == suffix and (t.endswith(f".assignment.{suffix}") or isinstance(v.value, ast.Name))
                    ctx.ob(num, "K12", f"a retry record carries the {suffix.upper()} of the assignment that ran before (a positive amount)", ok, fn_, c,
                           construct=f"RetryStats({kw_}=<previous allocation>)", detail=f"{kw_}={t}")
                    good = good and ok
    rp = P.fn(RP, "ResourcePool.run_one_tick")
    for fn_ in [P.fn(RP, q) for q in poolmod.pool_analysis(P).closure]:
        for c in calls_named(fn_, "ExecutionResult"):
            for res in ("cpu", "ram"):
                v = norm.kwarg(c, res, {"cpu": 1, "ram": 2}[res])
                t = norm.U(v) if v is not None else ""
                ok = t.endswith(f".assignment.{res}")
                ctx.ob(num, "K12", f"a result reports the {res.upper()} of its container's assignment", ok, fn_, c, construct=f"ExecutionResult({res}=c.assignment.{res})", detail=f"{res}={t}")
                good = good and ok
    ctx.count_min("RetryStats( construction sites", n, 1)
    return good


def _job_ops_invariant(ctx, num) -> bool:
    """every waiting job is created with at least one operator"""
    P = ctx.P
    good = True
    n = 0
    for m in P.modules.values():
        if not m.rel.startswith("eudoxia/scheduler/"):
            continue
        for fn0 in _view(P, m):
            if not calls_named(fn0, "WaitingQueueJob"):
                continue
            from ..partition import pool_walks
            fn_ = pool_walks(P, fn0)          # `for pool in s.executor.pools` is the walk over the pool indices
            g = cfg_of(fn_, subst_env=False)
            for c in calls_named(fn_, "WaitingQueueJob"):
                if not isinstance(c.func, ast.Name):
                    continue
                n += 1
                v = norm.kwarg(c, "ops", 2)
                ok, why = _nonempty(fn_, g, c, v)
                ctx.ob(num, "K2", "a waiting job is created with at least one operator (its operators are what an Assignment is built from later)", ok, fn_, c,
                       construct="WaitingQueueJob(ops=<non-empty>)", detail=why)
                good = good and ok
    ctx.count_min("WaitingQueueJob( construction sites", n, 1)
    return good


def _live_container(fn_, g, at, cv) -> bool:
    """cv names a container that was taken from some pool's active_containers (directly, or through a selection list filled from it)"""
    if not isinstance(cv, ast.Name):
        return False
    s_p = fn_.params()[0] if fn_.params() else "s"
    try:
        if c12._container_source(fn_, g, at, cv.id, s_p):
            return True
        lp = enclosing_for(at, fn_.node)
        while lp is not None:
            if norm.is_name(lp.target, cv.id) and isinstance(lp.iter, ast.Name):
                L = lp.iter.id
                inits = [n for n in own_nodes(fn_.node) if isinstance(n, ast.Assign) and any(norm.is_name(t, L) for t in n.targets)]
                apps = [c for c in calls_named(fn_, "append") if isinstance(c.func, ast.Attribute) and norm.is_name(c.func.value, L)]
                other = [c for c in own_nodes(fn_.node) if isinstance(c, ast.Call) and isinstance(c.func, ast.Attribute) and norm.is_name(c.func.value, L)
                         and c.func.attr in ("extend", "insert", "__setitem__")]
                return bool(apps) and not other and len(inits) == 1 and isinstance(inits[0].value, ast.List) and not inits[0].value.elts \
                    and all(len(c.args) == 1 and isinstance(c.args[0], ast.Name) and c12._container_source(fn_, g, c, c.args[0].id, s_p) for c in apps)
            lp = enclosing_for(lp, fn_.node)
        return False
    except Exception:
        return False


def _nonempty(fn_, g, at, v, job_ok: Optional[bool] = None) -> Tuple[bool, str]:
    if v is None:
        return False, "no ops argument"
    if isinstance(v, ast.List):
        return len(v.elts) >= 1 and not any(isinstance(e, ast.Starred) for e in v.elts), f"list literal {norm.U(v)}"
    t = norm.U(v)
    if g.holds_at(at, ("truth", t, True)):
        return True, f"`{t}` is non-empty on every path to the construction"
    if isinstance(v, ast.Attribute) and v.attr == "ops" and job_ok is not None:
        return True, f"`{t}`: operators of a waiting job (every job is created non-empty: {job_ok}; a creation site that is not is reported on its own)"
    if isinstance(v, ast.Call) and norm.call_name(v) == "list" and len(v.args) == 1 and isinstance(v.args[0], ast.Attribute) and v.args[0].attr == "values" \
            and isinstance(v.args[0].value, ast.Name):
        return True, f"`{t}`: all operators of a pipeline (pipelines are never empty: the generator draws >= 1 operator, the trace reader refuses an empty batch)"
    if isinstance(v, ast.ListComp) and len(v.generators) == 1 and isinstance(v.generators[0].iter, ast.Attribute) and v.generators[0].iter.attr == "operators" \
            and isinstance(v.generators[0].target, ast.Name) and norm.is_name(v.elt, v.generators[0].target.id) and len(v.generators[0].ifs) == 1 \
            and norm.mk_cmp("!=", f"{v.generators[0].target.id}.state()", "OperatorState.COMPLETED") in norm.atoms_true(norm.nnf(v.generators[0].ifs[0])) and _live_container(fn_, g, at, v.generators[0].iter.value):
        return True, (f"`{t}`: the unfinished operators of a container taken from a pool's active list (a live container holds an unfinished operator: "
                      "it leaves the active list in the tick its last operator completes, C05#7 / C09)")
    if isinstance(v, ast.Name):
        defs = sched.reaching_defs(fn_, g, at, v.id)
        if defs and all(isinstance(d, ast.Assign) for d in defs):
            notes = []
            for d in defs:
                ok, why = _nonempty(fn_, g, d, d.value, job_ok)
                if not ok:
                    return False, why
                notes.append(why)
            return True, "; ".join(notes)
    return False, f"`{t}` is not known to be non-empty at the construction"


def _positive(P, fn_, g, at, e, res: str, lem: dict, depth: int = 0) -> Tuple[bool, str]:
    if depth > 6:
        return False, "too deep"
    if isinstance(e, ast.Constant) and isinstance(e.value, (int, float)) and not isinstance(e.value, bool):
        return e.value > 0, f"constant {e.value}"
    t = norm.U(e)
    fs = g.facts_at(at)
    if norm.entails(fs, ("cmp", "<", "0", t)):
        return True, f"0 < {t} on every path"
    if isinstance(e, ast.Attribute) and e.attr in ("old_cpu", "old_ram"):
        return lem["retry"], f"{t}: amount of a previous assignment (retry-record invariant: {lem['retry']})"
    if isinstance(e, ast.Attribute) and e.attr in ("max_cpu_pool", "max_ram_pool"):
        return True, f"{t}: pool capacity (positive in a valid configuration)"
    if isinstance(e, ast.Subscript) and isinstance(e.slice, ast.Constant) and e.slice.value in ("avail_cpu", "avail_ram") and isinstance(e.value, ast.Subscript):
        # a per-round snapshot entry: never negative (it starts at the pool's free counter and is only reduced by amounts <= itself, clause 1)
        if norm.entails(set(fs) | {("cmp", "<=", "0", t)}, ("cmp", "<", "0", t)):
            return True, f"{t} != 0 on every path and snapshot entries are never negative (clause 1)"
        idx = e.value.slice
        if isinstance(idx, ast.Name):
            defs = sched.reaching_defs(fn_, g, at, idx.id)
            if len(defs) == 1 and isinstance(defs[0], ast.Assign) and isinstance(defs[0].value, ast.Call) and norm.call_name(defs[0].value) == "get_pool_with_max_avail_ram" \
                    and len(defs[0].value.args) == 2 and norm.U(defs[0].value.args[1]) == norm.U(e.value.value):
                chosen = norm.entails(fs, norm.mk_cmp("!=", idx.id, "-1"))
                d_id, a_id = g.node_of(defs[0]).id, g.node_of(at).id
                stale = None
                for m in own_nodes(fn_.node):
                    tg = m.target if isinstance(m, ast.AugAssign) else (m.targets[0] if isinstance(m, ast.Assign) and len(m.targets) == 1 else None)
                    if tg is not None and isinstance(tg, ast.Subscript) and norm.U(tg).startswith(norm.U(e.value.value) + "["):
                        m_id = g.node_of(m).id
                        if m_id in (d_id, a_id):
                            continue
                        if g.path_avoiding(d_id, {m_id}, {d_id}) is not None and g.path_avoiding(m_id, {a_id}, {d_id}) is not None:
                            stale = m
                ok = chosen and stale is None and lem["chooser"]
                return ok, (f"{t}: pool `{idx.id}` was returned by the chooser (only pools with free CPU > 0 and free RAM > 0: {lem['chooser']}), "
                            f"`{idx.id} != -1` at this point: {chosen}, snapshot untouched since the choice: {stale is None}")
        return False, f"{t}: snapshot entry not known to be positive here"
    if isinstance(e, ast.BinOp) and isinstance(e.op, ast.Mult):
        a, wa = _positive(P, fn_, g, at, e.left, res, lem, depth + 1)
        b, wb = _positive(P, fn_, g, at, e.right, res, lem, depth + 1)
        return a and b, f"{wa} * {wb}"
    if isinstance(e, ast.Call) and norm.call_name(e) == "max" and e.args and not e.keywords:
        rs_ = [_positive(P, fn_, g, at, a, res, lem, depth + 1) for a in e.args]
        return any(r[0] for r in rs_), "max(" + "; ".join(r[1] for r in rs_) + ")"
    if isinstance(e, ast.Call) and norm.call_name(e) == "min" and e.args and not e.keywords:
        rs_ = [_positive(P, fn_, g, at, a, res, lem, depth + 1) for a in e.args]
        return all(r[0] for r in rs_), "min(" + "; ".join(r[1] for r in rs_) + ")"
    if isinstance(e, ast.IfExp):
        a, wa = _positive(P, fn_, g, at, e.body, res, lem, depth + 1)
        b, wb = _positive(P, fn_, g, at, e.orelse, res, lem, depth + 1)
        return a and b, f"{wa} | {wb}"
    if isinstance(e, ast.Name):
        defs = sched.reaching_defs(fn_, g, at, e.id)
        if defs and all(isinstance(d, ast.Assign) and len(d.targets) == 1 for d in defs):
            notes = []
            for d in defs:
                ok, why = _positive(P, fn_, g, d, d.value, res, lem, depth + 1)
                if not ok:
                    return False, f"`{stmt_text(d)}`: {why}"
                notes.append(why)
            return True, " || ".join(notes)
        return False, f"`{e.id}`: {'no' if not defs else 'non-assignment'} definition reaches the construction"
    return False, f"{t}: not known to be positive"


def check_positivity(ctx, num=10):
    P = ctx.P
    demands = _ctor_demands(P)
    if not demands:
        ctx.ob(num, "K2", "Assignment.__init__ demands nothing of cpu / ram / ops", True, P.fn(AS, "Assignment.__init__"), P.fn(AS, "Assignment.__init__").node,
               construct="constructor demands", detail="no assert on the parameters", nontrivial=False)
        return
    pr = _Probe(ctx)
    fpr = sched.scheduler(P, "priority")
    try:
        c12.check_pool_choice(pr, fpr, fpr.params()[0])
        chooser = bool(pr.results) and all(ok for _t, ok in pr.results)
    except Exception:
        chooser = False
    sched.ob_retry_record_plain(ctx, num)
    lem = {"retry": _retry_invariant(ctx, num), "chooser": chooser}
    job_ok = _job_ops_invariant(ctx, num)
    for key in sched.IN_PROCESS:
        f = sched.scheduler(P, key)
        ctx.touch(f)
        sites = sched.assignment_sites(P, f)
        ctx.count_min(f"Assignment( sites of {key} (positivity)", len(sites), 1)
        for fn_, c in sites:
            g = cfg_of(fn_, subst_env=False)
            for res in ("cpu", "ram"):
                if res not in demands:
                    continue
                arg = sched.asg_arg(c, res)
                ok, why = (False, "argument missing") if arg is None else _positive(P, fn_, g, c, arg, res, lem)
                ctx.ob(num, "K9", f"[{key}] the {res.upper()} handed to Assignment is > 0 on every path (the constructor asserts it; a zero would stop the run)", ok, fn_, c,
                       construct=f"{res} > 0", detail=why)
            if "ops" in demands:
                ok, why = _nonempty(fn_, g, c, sched.asg_arg(c, "ops"), job_ok)
                ctx.ob(num, "K9", f"[{key}] the operator list handed to Assignment is non-empty on every path (the constructor asserts it)", ok, fn_, c,
                       construct="ops non-empty", detail=why)


def check_admission_exact(ctx, num=11):
    """The executor refuses a batch only when it does not fit: an exact fit (sum == free) is accepted.  naive hands out the
    whole free pool, priority / priority-pool 'take the remainder' — a stricter test would stop those runs."""
    P = ctx.P
    f = P.fn(RP, "ResourcePool.verify_valid_assignment")
    ctx.touch(f)
    g = cfg_of(f, subst_env=False)
    accs = {}
    for n in own_nodes(f.node):
        if isinstance(n, ast.AugAssign) and isinstance(n.op, ast.Add) and isinstance(n.target, ast.Name) and isinstance(n.value, ast.Attribute) and n.value.attr in ("cpu", "ram"):
            accs[n.value.attr] = n.target.id
    fits = set()
    if "cpu" in accs:
        fits.add(("cmp", "<=", accs["cpu"], "self.avail_cpu_pool"))
    if "ram" in accs:
        fits.add(("cmp", "<=", accs["ram"], "self.avail_ram_pool"))
    refusals = [n for n in own_nodes(f.node) if isinstance(n, (ast.Assert, ast.Raise))]
    for r in refusals:
        fs = set(g.facts_at(r)) | fits
        if isinstance(r, ast.Assert):
            ok = norm.entails(fs, norm.nnf(r.test))
            d = f"under `the batch fits` ({sorted(norm.show(x) for x in fits)}) the asserted condition {norm.U(r.test)} is implied: {ok}"
        else:
            # a raise must be unreachable when the batch fits: some fact on the way contradicts `fits`
            ok = any(norm.entails(fits, norm.neg(x)) for x in g.facts_at(r))
            d = f"raise reachable although the batch fits: {not ok}"
        ctx.ob(num, "K2", "the executor refuses a batch only when it does not fit (a batch that exactly fills the free CPU / RAM is accepted)", ok, f, r, detail=d)


# ---------------------------------------------------------------------------------------------------------------------
# (12) the `while` loops of the shipped schedulers terminate (a scheduler that spins keeps the run from ever ending)

def _loop_paths_all_pass(g, w: ast.While, nodes: List[ast.AST]) -> bool:
    """every way from the loop header round to the header again passes through one of `nodes`"""
    hid = g.node_of(w).id
    ids = set()
    for n in nodes:
        try:
            ids.add(g.node_of(n).id)
        except KeyError:
            pass
    if not ids:
        return False
    inside = {g.node_of(st).id for b in w.body for st in ast.walk(b) if isinstance(st, ast.stmt) and id(st) in g.stmt_node}

    def edge_ok(a, b, lab):
        return b == hid or b in inside
    # a path header -> (body nodes, avoiding `ids`) -> header
    for t, lab in g.nodes[hid].succ:
        if t in inside and t not in ids:
            if g.path_avoiding(t, {hid}, ids, edge_ok=edge_ok) is not None:
                return False
    return True


FLOAT_COUNTERS = {"avail_ram_pool", "consumed_ram_gb", "avail_cpu_pool", "_current_memory"}


def check_no_exact_bounds_on_counters(ctx, num=7):
    """The pools' free / used counters are kept by adding and subtracting many float amounts: they sit within their bounds only up to rounding
    (a few 1e-15 below 0 or above the capacity after a long valid run).  An assertion or raise in the executor that holds such a counter against a
    literal or against the capacity stops valid runs.  (The admission test compares a batch's request with the free counter: that is the
    documented refusal, C03#3 / C08#11, and not a bound on the counter.)"""
    P = ctx.P
    n_checked = 0
    for m in P.real_modules():
        if not m.rel.startswith("eudoxia/executor/"):
            continue
        from ..util import view_funcs
        for f in view_funcs(P, m):
            g = None
            for n in own_nodes(f.node):
                tests = []
                if isinstance(n, ast.Assert):
                    tests = [n.test]
                elif isinstance(n, ast.Raise):
                    p_ = parent(n)
                    if isinstance(p_, ast.If) and any(n is b for b in p_.body + p_.orelse):
                        tests = [p_.test]
                for t in tests:
                    n_checked += 1
                    for cmp_ in [x for x in ast.walk(t) if isinstance(x, ast.Compare)]:
                        sides = [cmp_.left] + list(cmp_.comparators)
                        counters = [s_ for s_ in sides if isinstance(s_, ast.Attribute) and s_.attr in FLOAT_COUNTERS]
                        if not counters:
                            continue
                        others = [s_ for s_ in sides if s_ not in counters]
                        bound = [o for o in others if isinstance(o, ast.Constant) or (isinstance(o, ast.UnaryOp) and isinstance(o.operand, ast.Constant))
                                 or (isinstance(o, ast.Attribute) and o.attr.startswith("max_"))]
                        ctx.ob(num, "K14a", "no assertion / raise of the executor holds an incrementally kept float counter (free CPU / RAM, used RAM) against a literal or the "
                               "capacity: after many float additions the counter meets such a bound only up to rounding, and a valid run would be stopped", not bound, f, n,
                               construct=f"{norm.U(cmp_)[:90]}", detail=f"counter {norm.U(counters[0])} compared with {[norm.U(o) for o in others]}")
    ctx.ob(num, "K14a", "the assertions and raises of the executor package were examined for exact bounds on float counters", n_checked >= 5, None, None,
           file="eudoxia/executor/resource_pool.py", construct="assert / raise sites in eudoxia/executor", detail=f"{n_checked} site(s)")


def check_termination(ctx, num=12):
    P = ctx.P
    n_w = 0
    for key in ("naive", "tmpl", "priority", "priority-pool", "overbook"):
        f0 = sched.scheduler(P, key)
        for fn_ in sched.module_helpers(P, f0):
            g = cfg_of(fn_, subst_env=False)
            for w in [n for n in own_nodes(fn_.node) if isinstance(n, ast.While)]:
                n_w += 1
                ok, why = _terminates(P, fn_, g, w)
                ctx.ob(num, "K10", f"[{key}] every `while` loop of the scheduler has a termination argument (each iteration consumes from a finite source, "
                       "or the scan over the pools' iterators is rotated and left when all are exhausted)", ok, fn_, w, construct=f"while {norm.U(w.test)}", detail=why)
    ctx.count_min("while loops in the shipped schedulers", n_w, 2)


def _terminates(P, fn_, g, w: ast.While) -> Tuple[bool, str]:
    body_nodes = [x for b in w.body for x in ast.walk(b)]
    # (a) consumption of the tested list:  while L: ... L.pop(..) on every iteration, nothing is added to L inside
    t = norm.nnf(w.test)
    if t[0] == "truth" and t[2] is True:
        L = t[1]
        pops = [c for c in body_nodes if isinstance(c, ast.Call) and isinstance(c.func, ast.Attribute) and c.func.attr in ("pop", "popleft") and norm.U(c.func.value) == L]
        adds = [c for c in body_nodes if isinstance(c, ast.Call) and isinstance(c.func, ast.Attribute) and c.func.attr in ("append", "extend", "insert", "appendleft")
                and norm.U(c.func.value) == L]
        if pops and not adds and _loop_paths_all_pass(g, w, pops):
            return True, f"every iteration removes an element of `{L}` and none is added inside the loop"
        if pops:
            return False, f"`{L}` is popped, but not on every iteration or elements are added inside the loop ({[norm.U(a) for a in adds]})"
    # (b) every iteration draws from an iterator with next(): a finite iterator ends the loop by StopIteration
    nexts = [c for c in body_nodes if isinstance(c, ast.Call) and norm.is_name(c.func, "next") and len(c.args) == 1]
    # next(it, None): exhaustion is the answer None instead of StopIteration
    nexts_d = [c for c in body_nodes if isinstance(c, ast.Call) and norm.is_name(c.func, "next") and len(c.args) == 2 and isinstance(c.args[1], ast.Constant) and c.args[1].value is None
               and isinstance(parent(c), ast.Assign) and len(parent(c).targets) == 1 and isinstance(parent(c).targets[0], ast.Name)]
    handlers = [h for x in body_nodes if isinstance(x, ast.Try) for h in x.handlers]
    catches_stop = any(h.type is None or "StopIteration" in norm.U(h.type) or norm.U(h.type) in ("Exception", "BaseException") for h in handlers)
    if nexts and not catches_stop and _loop_paths_all_pass(g, w, nexts):
        return True, f"every iteration draws with {norm.U(nexts[0])}; the iterator is finite, StopIteration leaves the loop"
    # (c) rotated scan over a list of iterators with exhaustion flags
    if (nexts and catches_stop) or (nexts_d and not nexts):
        by_default = not nexts
        if by_default:
            nexts = nexts_d
        def _drawn_from(c):
            """next(it[i]..) or next((x for x in it[i] if ..)..): the iterator drawn from"""
            a = c.args[0]
            if isinstance(a, ast.GeneratorExp) and len(a.generators) == 1:
                return a.generators[0].iter
            return a
        its = {norm.U(_drawn_from(c)) for c in nexts}
        idx = None
        for c in nexts:
            a = _drawn_from(c)
            if isinstance(a, ast.Subscript) and isinstance(a.slice, ast.Name):
                idx = a.slice.id
        flags = None
        flag_sets = []
        for h in handlers:
            for st in h.body:
                if isinstance(st, ast.Assign) and len(st.targets) == 1 and isinstance(st.targets[0], ast.Subscript) and isinstance(st.targets[0].value, ast.Name) \
                        and norm.is_name(st.targets[0].slice, idx or "?") and isinstance(st.value, ast.Constant) and st.value.value is True:
                    flags = st.targets[0].value.id
                    flag_sets.append(st)
        if by_default:
            drawn = {parent(c).targets[0].id for c in nexts}
            for st in body_nodes:
                if isinstance(st, ast.Assign) and len(st.targets) == 1 and isinstance(st.targets[0], ast.Subscript) and isinstance(st.targets[0].value, ast.Name) \
                        and norm.is_name(st.targets[0].slice, idx or "?") and isinstance(st.value, ast.Constant) and st.value.value is True \
                        and any(("cmp", "is", x, "None") in g.facts_at(st) for x in drawn):
                    flags = st.targets[0].value.id
                    flag_sets.append(st)
            # every exhausted draw is flagged: no way from a draw that answered None back to the loop test without the flag
            if flags is not None:
                hid = g.node_of(w).id
                fids = {g.node_of(st).id for st in flag_sets}
                for c in nexts:
                    x = parent(c).targets[0].id
                    miss = g.path_avoiding(g.node_of(parent(c)).id, {hid}, fids, edge_ok=lambda a, b, lab, x=x: not (isinstance(lab, tuple) and lab[0] == "cond"
                                                                                                                     and ("cmp", "isnot", x, "None") in norm.atoms_true(lab[1])))
                    if miss is not None:
                        flags = None
        if idx is None or flags is None:
            return False, "next() on iterators inside try/except StopIteration, but no per-iterator exhaustion flag is set in the handler"
        # left when all are exhausted: the test `all(flags)` ends the loop, checked in every iteration before the draw
        allt = ("truth", f"all({flags})", False)
        guarded = all(norm.entails(g.facts_at(c), allt) for c in nexts if _outer_while(c, fn_) is w) or allt in norm.atoms_true(norm.nnf(w.test))
        # the index rotates through all iterators on every iteration
        rots = [n for n in body_nodes if isinstance(n, ast.Assign) and len(n.targets) == 1 and norm.is_name(n.targets[0], idx) and isinstance(n.value, ast.BinOp)
                and isinstance(n.value.op, ast.Mod) and isinstance(n.value.left, ast.BinOp) and isinstance(n.value.left.op, ast.Add)
                and norm.U(n.value.left) in (f"{idx} + 1", f"1 + {idx}")]
        rotated = bool(rots) and _loop_paths_all_pass(g, w, rots)
        env = single_defs(fn_)
        modulus = norm.U(norm.subst(rots[0].value.right, env)) if rots else None
        # the flags and the iterators are per pool, and the modulus is the number of pools
        sized = modulus is not None and (modulus.endswith(".executor.num_pools") or modulus in (f"len({flags})",) or any(modulus == f"len({i.split('[')[0]})" for i in its))
        # every iteration draws (or is flagged): the try with the draw is on every path of the iteration
        draws = _loop_paths_all_pass(g, w, [c for c in nexts if _outer_while(c, fn_) is w])
        ok = guarded and rotated and sized and draws
        return ok, (f"scan over {sorted(its)} by index `{idx}`: left when all({flags}) [{guarded}]; the handler of StopIteration flags the current iterator; "
                    f"the index advances by one modulo {modulus} on every iteration [{rotated}, all pools: {sized}]; every iteration draws or flags [{draws}]")
    return False, "no termination argument recognised for this loop"


def _outer_while(n, fn_):
    p_ = parent(n)
    last = None
    while p_ is not None and p_ is not fn_.node:
        if isinstance(p_, ast.While):
            return p_
        p_ = parent(p_)
    return last
